"""pyvc core: path contexts, symbolic numeric proxies, obligations.

The real ttconv source is loaded through pyvc.loader (mechanical rewriting, see there) and *executed* by CPython with
symbolic proxy objects standing for the universally quantified inputs.  Every branch on a symbolic condition forks the
path (depth-first re-execution with a decision prefix), loops over symbolic data are cut by invariants and callees are
replaced by their contracts (pyvc.contracts), so the set of paths is finite and every path yields verification
conditions `path-condition => goal` that are discharged by SMT solvers (pyvc.solve).  Nothing here samples inputs.
"""
from __future__ import annotations

import abc
import fractions
import itertools
import math
import numbers
import os
import sys
import threading
import time
from dataclasses import dataclass, field
from typing import Any, Callable, List, Optional

import z3

# ---------------------------------------------------------------------------------------------------------------------
# control-flow signals (BaseException so that `except Exception` in repository code cannot swallow them)


class PathAbort(BaseException):
  """The current path is infeasible or was cut (assume false, loop cut)."""


class Unsupported(BaseException):
  """The code used a construct / operation the encoding does not support: the affected obligations are undecided."""


# ---------------------------------------------------------------------------------------------------------------------


@dataclass
class Obligation:
  name: str
  kind: str
  pc: list            # list of z3 BoolRef (hypotheses)
  goal: Any           # z3 BoolRef
  path: int = 0
  where: str = ""
  note: str = ""
  expect: str = "unsat"   # "unsat": goal must follow; "sat": reachability/vacuity probe, pc /\ goal must be satisfiable
  vars: dict = field(default_factory=dict)   # name -> z3 const, the inputs a counterexample is expressed in

  def smt2(self) -> str:
    s = z3.Solver()
    for c in self.pc:
      s.add(c)
    if self.expect == "unsat":
      s.add(z3.Not(self.goal))
    else:
      s.add(self.goal)
    return s.to_smt2()


DEBUG = bool(os.environ.get("PYVC_DEBUG"))
_tls = threading.local()


def cur() -> "Ctx":
  c = getattr(_tls, "ctx", None)
  if c is None:
    raise RuntimeError("symbolic value used outside of a pyvc path context")
  return c


def has_ctx() -> bool:
  return getattr(_tls, "ctx", None) is not None


class Ctx:
  """One execution path."""

  FEAS_TIMEOUT_MS = 3000

  def __init__(self, prefix: List[bool], path_no: int, label: str):
    self.prefix = prefix
    self.trace: List[bool] = []
    self.pos = 0
    self.pc: list = []
    self.pending: List[List[bool]] = []
    self.obligations: List[Obligation] = []
    self.path_no = path_no
    self.label = label
    self.solver = z3.Solver()
    self.solver.set("timeout", self.FEAS_TIMEOUT_MS)
    self.fresh = itertools.count()
    self.memo: dict = {}
    self.inputs: dict = {}
    self.notes: list = []
    self.unknown_feas = 0
    self.lemma_count = 0
    self.tokens: list = []
    self.hyps: list = []       # hypotheses used by obligations only (e.g. quantified invariants); not given to the path solver
    self.heapctx = None

  # -- naming

  def fresh_name(self, base: str) -> str:
    return f"{base}!{next(self.fresh)}"

  # -- hypotheses

  def add_pc(self, cond):
    self.pc.append(cond)
    self.solver.add(cond)

  def assume(self, cond):
    if isinstance(cond, SymBool):
      cond = cond.term
    if isinstance(cond, bool):
      if not cond:
        raise PathAbort("assume(False)")
      return
    cond = z3.simplify(cond)
    if z3.is_false(cond):
      raise PathAbort("assume(false)")
    if z3.is_true(cond):
      return
    self.add_pc(cond)

  def feasible(self, cond) -> bool:
    r = self.solver.check(cond)
    if r == z3.unknown:
      self.unknown_feas += 1
      return True
    return r == z3.sat

  def branch(self, cond) -> bool:
    cond = z3.simplify(cond)
    if z3.is_true(cond):
      return True
    if z3.is_false(cond):
      return False
    i = self.pos
    self.pos += 1
    if i < len(self.prefix):
      d = self.prefix[i]
    else:
      t = self.feasible(cond)
      f = self.feasible(z3.Not(cond))
      if t and f:
        d = True
        self.pending.append(self.trace + [False])
      elif t:
        d = True
      elif f:
        d = False
      else:
        raise PathAbort("infeasible path condition")
    self.trace.append(d)
    self.add_pc(cond if d else z3.Not(cond))
    return d

  # -- obligations

  def prove(self, cond, name: str, kind: str = "post", note: str = "", assume_after: bool = True):
    if isinstance(cond, SymBool):
      cond = cond.term
    if isinstance(cond, bool):
      cond = z3.BoolVal(cond)
    ob = Obligation(name=name, kind=kind, pc=list(self.hyps) + list(self.pc), goal=cond, path=self.path_no, where=self.label,
                    note=note, vars=dict(self.inputs))
    self.obligations.append(ob)
    if assume_after:
      c = z3.simplify(cond)
      if not z3.is_true(c) and not z3.is_false(c):
        self.add_pc(cond)

  def cover(self, name: str, cond=True):
    """Reachability probe: pc /\\ cond must be satisfiable (guards against vacuous proofs)."""
    if isinstance(cond, SymBool):
      cond = cond.term
    if isinstance(cond, bool):
      cond = z3.BoolVal(cond)
    self.obligations.append(Obligation(name=name, kind="cover", pc=list(self.pc), goal=cond, path=self.path_no,
                                       where=self.label, expect="sat", vars=dict(self.inputs)))


# ---------------------------------------------------------------------------------------------------------------------
# symbolic values


class Proxy:
  __slots__ = ()


def _z3bool(x):
  if isinstance(x, SymBool):
    return x.term
  if isinstance(x, bool):
    return z3.BoolVal(x)
  raise Unsupported(f"boolean operand of type {type(x).__name__}")


class SymBool(Proxy):
  __slots__ = ("term",)

  def __init__(self, term):
    self.term = term

  def __bool__(self):
    return cur().branch(self.term)

  def __and__(self, o):
    return SymBool(z3.And(self.term, _z3bool(o)))

  __rand__ = __and__

  def __or__(self, o):
    return SymBool(z3.Or(self.term, _z3bool(o)))

  __ror__ = __or__

  def __invert__(self):
    return SymBool(z3.Not(self.term))

  def __eq__(self, o):
    return SymBool(self.term == _z3bool(o))

  def __ne__(self, o):
    return SymBool(self.term != _z3bool(o))

  def __hash__(self):
    raise Unsupported("hash of a symbolic boolean")

  def implies(self, o):
    return SymBool(z3.Implies(self.term, _z3bool(o)))

  def __repr__(self):
    return f"SymBool({self.term})"


def implies(a, b):
  if isinstance(a, bool):
    return b if a else True
  return a.implies(b)


def ite(c, a, b):
  """Symbolic conditional on numeric proxies (no fork)."""
  if isinstance(c, bool):
    return a if c else b
  ka, ta = _num(a)
  kb, tb = _num(b)
  k = max(ka, kb)
  return _mk(k, z3.If(c.term, _lift(ta, ka, k), _lift(tb, kb, k)))


def all_of(*conds):
  ts = [_z3bool(c) for c in conds]
  return SymBool(z3.And(*ts)) if ts else True


def any_of(*conds):
  ts = [_z3bool(c) for c in conds]
  return SymBool(z3.Or(*ts)) if ts else False


# numeric kinds: 0 int, 1 fraction (exact rational), 2 float
K_INT, K_FRAC, K_FLOAT = 0, 1, 2

EPS = fractions.Fraction(1, 2 ** 53)          # unit round-off of binary64
TINY = fractions.Fraction(1, 2 ** 1074)       # absolute error in the subnormal range
BIG = 2 ** 53


def _rv(fr: fractions.Fraction):
  return z3.RealVal(f"{fr.numerator}/{fr.denominator}")


def _num(x):
  """-> (kind, z3 term) for a python or symbolic number."""
  if isinstance(x, SymInt):
    return K_INT, x.term
  if isinstance(x, SymFrac):
    return K_FRAC, x.term
  if isinstance(x, SymFloat):
    return K_FLOAT, x.term
  if isinstance(x, bool):
    return K_INT, z3.IntVal(int(x))
  if isinstance(x, int):
    return K_INT, z3.IntVal(x)
  if isinstance(x, fractions.Fraction):
    return K_FRAC, _rv(x)
  if isinstance(x, float):
    if x != x or x in (math.inf, -math.inf):
      raise Unsupported("nan/inf float")
    return K_FLOAT, _rv(fractions.Fraction(x))
  if isinstance(x, SymBool):
    return K_INT, z3.If(x.term, z3.IntVal(1), z3.IntVal(0))
  return None, None


def _lift(term, k_from, k_to):
  if k_from == K_INT and k_to != K_INT:
    return z3.ToReal(term)
  return term


def _mk(kind, term):
  term = z3.simplify(term) if term.num_args() < 64 else term
  return (SymInt, SymFrac, SymFloat)[kind](term)


def _linear_int_form(t):
  """t (Real, simplified) as  (sum_k c_k * ToReal(i_k) + c0)  with rational c_k and Int terms i_k, or None."""
  coeffs = {}
  const = [fractions.Fraction(0)]

  def ratval(x):
    if z3.is_rational_value(x):
      return fractions.Fraction(x.numerator_as_long(), x.denominator_as_long())
    if z3.is_int_value(x):
      return fractions.Fraction(x.as_long())
    return None

  def walk(x, c):
    v = ratval(x)
    if v is not None:
      const[0] += c * v
      return True
    k = x.decl().kind()
    if k == z3.Z3_OP_TO_REAL:
      i = x.arg(0)
      key = i.get_id()
      old = coeffs.get(key, (i, fractions.Fraction(0)))
      coeffs[key] = (i, old[1] + c)
      return True
    if k == z3.Z3_OP_ADD:
      return all(walk(a, c) for a in x.children())
    if k == z3.Z3_OP_SUB:
      ch = x.children()
      return walk(ch[0], c) and all(walk(a, -c) for a in ch[1:])
    if k == z3.Z3_OP_UMINUS:
      return walk(x.arg(0), -c)
    if k == z3.Z3_OP_MUL:
      ch = x.children()
      cc = c
      rest = []
      for a in ch:
        v = ratval(a)
        if v is not None:
          cc *= v
        else:
          rest.append(a)
      if len(rest) == 1:
        return walk(rest[0], cc)
      return False
    if k == z3.Z3_OP_DIV:
      v = ratval(x.arg(1))
      if v is not None and v != 0:
        return walk(x.arg(0), c / v)
      return False
    return False

  if not walk(t, fractions.Fraction(1)):
    return None
  return coeffs, const[0]


def _floor_real(t):
  """floor of a Real term as an Int term.

  If t is a rational-linear combination of integer terms the floor is an integer floor division (fresh q, r with
  num = L q + r, 0 <= r < L) -- pure linear integer arithmetic; otherwise a fresh q with q <= t < q+1.  Memoised per path.
  """
  c = cur()
  t = z3.simplify(t)
  if z3.is_rational_value(t):
    return z3.IntVal(math.floor(fractions.Fraction(t.numerator_as_long(), t.denominator_as_long())))
  key = ("floor", t.get_id())
  if key in c.memo:
    return c.memo[key]
  c.memo[("keep", t.get_id())] = t   # keep the ast alive so ids are not recycled
  lin = _linear_int_form(t)
  if lin is not None:
    coeffs, c0 = lin
    L = c0.denominator
    for _, cf_ in coeffs.values():
      L = L * cf_.denominator // math.gcd(L, cf_.denominator)
    num = z3.IntVal(int(c0 * L))
    for i, cf_ in coeffs.values():
      num = num + z3.IntVal(int(cf_ * L)) * i
    if L == 1:
      q = z3.simplify(num)
    else:
      q, r = _divmod_int(z3.simplify(num), z3.IntVal(L))
      # the real-valued view of the same fact (helps mixed goals): t = q + r/L
      c.add_pc(t == z3.ToReal(q) + z3.ToReal(r) / L)
    c.memo[key] = q
    return q
  q = z3.Int(c.fresh_name("fl"))
  c.add_pc(z3.And(z3.ToReal(q) <= t, t < z3.ToReal(q) + 1))
  c.memo[key] = q
  return q


def _divmod_int(a, b):
  """floor division of Int terms a by b -> (q, r) with fresh q, r; b must be known non-zero here."""
  c = cur()
  a = z3.simplify(a)
  b = z3.simplify(b)
  if z3.is_int_value(a) and z3.is_int_value(b):
    q, r = divmod(a.as_long(), b.as_long())
    return z3.IntVal(q), z3.IntVal(r)
  key = ("divmod", a.get_id(), b.get_id())
  if key in c.memo:
    return c.memo[key]
  q = z3.Int(c.fresh_name("q"))
  r = z3.Int(c.fresh_name("r"))
  if z3.is_int_value(b):
    bv = b.as_long()
    if bv > 0:
      c.add_pc(z3.And(a == b * q + r, r >= 0, r < b))
    else:
      c.add_pc(z3.And(a == b * q + r, r <= 0, r > b))
  else:
    c.add_pc(z3.And(a == b * q + r, z3.If(b > 0, z3.And(r >= 0, r < b), z3.And(r <= 0, r > b))))
  c.memo[key] = (q, r)
  c.memo[("keep", a.get_id(), b.get_id())] = (a, b)
  return q, r


def _divmod_real(a, b):
  """a // b and a % b for Real terms (Fractions): q = floor(a/b), r = a - b q."""
  q = _floor_real(a / b)
  return q, a - b * z3.ToReal(q)


def _round_half_even(t):
  """round-half-even of a Real term -> Int term."""
  q = _floor_real(t)
  d = t - z3.ToReal(q)
  _, par = _divmod_int(q, z3.IntVal(2))
  half = z3.RealVal("1/2")
  return z3.If(d < half, q, z3.If(d > half, q + 1, z3.If(par == 0, q, q + 1)))


def _nonzero(bterm, what="division"):
  """ZeroDivisionError semantics: fork on the divisor being zero."""
  if SymBool(bterm == 0).__bool__():
    raise ZeroDivisionError(what + " by zero")


def _lemma(goal, name, timeout_ms=10000):
  """Try to prove `pc => goal` right now (local float-exactness lemma).  Proven lemmas are recorded as obligations of kind
  `float-exact` (re-discharged with everything else) and then used; unproven ones are simply not used (sound)."""
  c = cur()
  c.solver.set("timeout", timeout_ms)
  t0 = time.time()
  try:
    r = c.solver.check(z3.Not(goal))
  finally:
    c.solver.set("timeout", c.FEAS_TIMEOUT_MS)
  if DEBUG:
    print(f"[pyvc] lemma {name}: {r} in {time.time() - t0:.2f}s", file=sys.stderr)
  if r == z3.unsat:
    c.lemma_count += 1
    c.prove(goal, f"{name}#{c.lemma_count}", kind="float-exact", assume_after=False)
    return True
  return False


def fl(exact):
  """A correctly rounded binary64 operation whose exact mathematical result is the Real term `exact`.

  Sound over-approximation of IEEE-754 round-to-nearest (no overflow assumed, see DESIGN A-FLOAT):
    |r - x| <= eps|x| + tiny ;  x integer with |x| <= 2^53  =>  r = x ;  rounding never crosses an integer below 2^53
  If `x is an integer below 2^53` is provable under the current path condition the operation is exact and r = x.
  """
  c = cur()
  exact = z3.simplify(exact)
  if z3.is_rational_value(exact):
    fr = fractions.Fraction(exact.numerator_as_long(), exact.denominator_as_long())
    try:
      return _rv(fractions.Fraction(fr.numerator / fr.denominator))   # CPython int/int is correctly rounded
    except OverflowError as e:
      raise Unsupported("float overflow") from e
  key = ("fl", exact.get_id())
  if key in c.memo:
    return c.memo[key]
  c.memo[("keep", exact.get_id())] = exact
  ax = z3.If(exact >= 0, exact, -exact)
  if _lemma(z3.And(z3.IsInt(exact), ax <= BIG), "float-op-exact"):
    c.memo[key] = exact
    return exact
  r = z3.Real(c.fresh_name("fr"))
  bound = _rv(EPS) * ax + _rv(TINY)
  fq = _floor_real(exact)
  cons = [r - exact <= bound, exact - r <= bound,
          z3.Implies(z3.And(ax <= BIG, exact == z3.ToReal(fq)), r == exact),
          z3.Implies(ax <= BIG, z3.And(r >= z3.ToReal(fq), r <= z3.ToReal(fq) + 1))]
  c.add_pc(z3.And(*cons))
  c.memo[key] = r
  return r


def _float_floor(x: "SymFloat"):
  """floor of a float as an Int term; uses the un-rounded (`ideal`) value when that provably gives the same integer."""
  t, i = x.term, x.ideal
  if i is None or t.get_id() == i.get_id():
    return _floor_real(t)
  c = cur()
  key = ("ffloor", t.get_id())
  if key in c.memo:
    return c.memo[key]
  qi = _floor_real(i)
  # floor(t) == qi  <=>  qi <= t < qi + 1
  if _lemma(z3.And(z3.ToReal(qi) <= t, t < z3.ToReal(qi) + 1), "float-floor-exact"):
    c.memo[key] = qi
    return qi
  q = _floor_real(t)
  c.memo[key] = q
  return q


class _SymNum(Proxy):
  __slots__ = ("term",)
  kind = None

  def __init__(self, term):
    self.term = term

  def __hash__(self):
    # a set / dict keyed by symbolic numbers would merge or separate entries by object identity, not by value: unsound
    raise Unsupported("hash of a symbolic number (set / dict keyed by symbolic values is not modelled)")

  def __repr__(self):
    return f"{type(self).__name__}({self.term})"

  def __format__(self, spec):
    """str()/format() must return a real str: a placeholder token that names this value (decoded by sym_of_token)."""
    c = cur()
    k = len(c.tokens)
    c.tokens.append((self, spec))
    return f"\u27e6sym{k}\u27e7"

  def __str__(self):
    return self.__format__("")

  # -- comparisons (exact on the modelled values)
  def _cmp(self, o, op):
    ko, to = _num(o)
    if ko is None:
      return NotImplemented
    k = max(self.kind, ko)
    a, b = _lift(self.term, self.kind, k), _lift(to, ko, k)
    return SymBool(op(a, b))

  def __lt__(self, o): return self._cmp(o, lambda a, b: a < b)
  def __le__(self, o): return self._cmp(o, lambda a, b: a <= b)
  def __gt__(self, o): return self._cmp(o, lambda a, b: a > b)
  def __ge__(self, o): return self._cmp(o, lambda a, b: a >= b)

  def __eq__(self, o):
    if o is None:
      return False
    r = self._cmp(o, lambda a, b: a == b)
    return False if r is NotImplemented else r

  def __ne__(self, o):
    if o is None:
      return True
    r = self._cmp(o, lambda a, b: a != b)
    return True if r is NotImplemented else r

  def __bool__(self):
    return SymBool(self.term != 0).__bool__()

  # -- arithmetic
  def _arith(self, o, op, swap=False):
    ko, to = _num(o)
    if ko is None:
      return NotImplemented
    ka, ta = self.kind, self.term
    ia = self.ideal if ka == K_FLOAT else ta
    io = o.ideal if _real_isinstance(o, SymFloat) else to
    if swap:
      ka, ta, ia, ko, to, io = ko, to, io, ka, ta, ia
    return _binop(op, ka, ta, ko, to, ia, io)

  def __add__(self, o): return self._arith(o, "+")
  def __radd__(self, o): return self._arith(o, "+", True)
  def __sub__(self, o): return self._arith(o, "-")
  def __rsub__(self, o): return self._arith(o, "-", True)
  def __mul__(self, o): return self._arith(o, "*")
  def __rmul__(self, o): return self._arith(o, "*", True)
  def __truediv__(self, o): return self._arith(o, "/")
  def __rtruediv__(self, o): return self._arith(o, "/", True)
  def __floordiv__(self, o): return self._arith(o, "//")
  def __rfloordiv__(self, o): return self._arith(o, "//", True)
  def __mod__(self, o): return self._arith(o, "%")
  def __rmod__(self, o): return self._arith(o, "%", True)

  def __divmod__(self, o):
    return self // o, self % o

  def __neg__(self):
    return _mk(self.kind, -self.term)

  def __pos__(self):
    return self

  def __abs__(self):
    return _mk(self.kind, z3.If(self.term >= 0, self.term, -self.term))

  def __pow__(self, o):
    if isinstance(o, int) and 0 <= o <= 4 and self.kind != K_FLOAT:
      r = 1
      for _ in range(o):
        r = r * self
      return r
    raise Unsupported("pow on symbolic value")


def _binop(op, ka, ta, ko, to, ia=None, io=None):
  """Python semantics of a binary arithmetic operator on (kind, term) operands; ia/io: ideal terms of float operands."""
  k = max(ka, ko)
  if ia is None:
    ia = ta
  if io is None:
    io = to
  if k == K_FLOAT:
    ia = _lift(ia, ka, k) if ka != K_FLOAT else ia
    io = _lift(io, ko, k) if ko != K_FLOAT else io
  if op in "+-*":
    a, b = _lift(ta, ka, k), _lift(to, ko, k)
    if k == K_FLOAT:
      # python converts the non-float operand to float first (int: exact below 2^53; Fraction: correctly rounded)
      if ka != K_FLOAT:
        a = fl(a)
      if ko != K_FLOAT:
        b = fl(b)
    f = (lambda x, y: x + y) if op == "+" else (lambda x, y: x - y) if op == "-" else (lambda x, y: x * y)
    if k == K_FLOAT:
      return SymFloat(fl(f(a, b)), z3.simplify(f(ia, io)))
    return _mk(k, f(a, b))
  if op == "/":
    _nonzero(to)
    if k == K_INT:
      # int / int: CPython computes the correctly rounded quotient of the exact integers
      ex = z3.ToReal(ta) / z3.ToReal(to)
      return SymFloat(fl(ex), z3.simplify(ex))
    a, b = _lift(ta, ka, k), _lift(to, ko, k)
    if k == K_FRAC:
      return SymFrac(z3.simplify(a / b))
    if ka != K_FLOAT:
      a = fl(a)
    if ko != K_FLOAT:
      b = fl(b)
    return SymFloat(fl(a / b), z3.simplify(ia / io))
  if op in ("//", "%"):
    _nonzero(to)
    if k == K_INT:
      q, r = _divmod_int(ta, to)
      return SymInt(q if op == "//" else r)
    a, b = _lift(ta, ka, k), _lift(to, ko, k)
    if k == K_FRAC:
      q, r = _divmod_real(a, b)
      return SymInt(q) if op == "//" else SymFrac(z3.simplify(r))
    # floats: fmod is exact; python's float % has the sign of the divisor and is computed exactly from fmod
    if ka != K_FLOAT:
      a = fl(a)
    if ko != K_FLOAT:
      b = fl(b)
    q, r = _divmod_real(a, b)
    if op == "%":
      return SymFloat(z3.simplify(r))
    # float floor division: floor((a - mod) / b) computed in floating point; exact when the quotient is a small integer
    return SymFloat(fl(z3.ToReal(q)))
  raise Unsupported(f"operator {op}")


class SymInt(_SymNum):
  __slots__ = ()
  kind = K_INT

  def __floor__(self): return self
  def __ceil__(self): return self
  def __trunc__(self): return self

  def __round__(self, nd=None):
    if nd is None or (isinstance(nd, int) and nd >= 0):
      return self
    raise Unsupported("round(int, negative)")

  def vc_int(self): return self
  def vc_float(self): return SymFloat(fl(z3.ToReal(self.term)), z3.ToReal(self.term))

  @property
  def numerator(self): return self

  @property
  def denominator(self): return 1

  def __index__(self):
    raise Unsupported("symbolic int used as an index / in a builtin that needs a machine int")


class SymFrac(_SymNum):
  """A fractions.Fraction with symbolic value (exact rational arithmetic)."""
  __slots__ = ()
  kind = K_FRAC

  def __floor__(self): return SymInt(_floor_real(self.term))
  def __ceil__(self): return SymInt(-_floor_real(-self.term))

  def __trunc__(self):
    return SymInt(z3.If(self.term >= 0, _floor_real(self.term), -_floor_real(-self.term)))

  def __round__(self, nd=None):
    if nd is None:
      return SymInt(_round_half_even(self.term))
    if isinstance(nd, int):
      shift = 10 ** abs(nd)
      if nd > 0:
        return SymFrac(z3.ToReal(_round_half_even(self.term * shift)) / shift)
      return SymFrac(z3.ToReal(_round_half_even(self.term / shift)) * shift)
    raise Unsupported("round(Fraction, symbolic)")

  def vc_int(self): return self.__trunc__()
  def vc_float(self): return SymFloat(fl(self.term), self.term)

  @property
  def numerator(self):
    raise Unsupported("numerator of a symbolic Fraction")

  @property
  def denominator(self):
    raise Unsupported("denominator of a symbolic Fraction")


class SymFloat(_SymNum):
  """A python float; `term` is the real number it denotes (rounding modelled by pyvc.core.fl); `ideal` is the value the
  same computation has without any rounding (used only through proven float-exactness lemmas)."""
  __slots__ = ("ideal",)
  kind = K_FLOAT

  def __init__(self, term, ideal=None):
    self.term = term
    self.ideal = ideal if ideal is not None else term

  def __floor__(self): return SymInt(_float_floor(self))

  def __ceil__(self):
    return SymInt(-_float_floor(SymFloat(-self.term, -self.ideal)))

  def __neg__(self):
    return SymFloat(-self.term, -self.ideal)

  def __trunc__(self):
    if SymBool(self.term >= 0).__bool__():
      return SymInt(_float_floor(self))
    return SymInt(-_float_floor(SymFloat(-self.term, -self.ideal)))

  def __round__(self, nd=None):
    if nd is None:
      return SymInt(_round_half_even(self.term))
    raise Unsupported("round(float, ndigits) is not modelled (A-ROUND)")

  def vc_int(self): return self.__trunc__()
  def vc_float(self): return self

  def is_integer(self):
    return SymBool(self.term == z3.ToReal(_floor_real(self.term)))


# ---------------------------------------------------------------------------------------------------------------------
# creation of quantified inputs


def sym_int(name: str) -> SymInt:
  c = cur()
  v = z3.Int(name)
  c.inputs[name] = v
  return SymInt(v)


def sym_frac(name: str) -> SymFrac:
  c = cur()
  v = z3.Real(name)
  c.inputs[name] = v
  return SymFrac(v)


def sym_bool(name: str) -> SymBool:
  c = cur()
  v = z3.Bool(name)
  c.inputs[name] = v
  return SymBool(v)


def assume(cond):
  cur().assume(cond)


def tokens_in(text: str):
  """the (symbolic value, format spec) pairs whose placeholder tokens occur in `text`, in order, and the literal rest"""
  import re as _re
  c = cur()
  parts = _re.split("\u27e6sym([0-9]+)\u27e7", text)
  lits = parts[0::2]
  toks = [c.tokens[int(k)] for k in parts[1::2]]
  return lits, toks


def call_real(fn, *args, allowed=(), name=None, **kwargs):
  """Call repository code; an exception type outside `allowed` is an obligation failure (`raises` clause), not a crash.
  -> ("ok", value) | ("raise", exception)"""
  try:
    return "ok", fn(*args, **kwargs)
  except allowed as e:     # pylint: disable=catching-non-exception
    return "raise", e
  except (PathAbort, Unsupported):
    raise
  except Exception as e:   # pylint: disable=broad-except
    import traceback as _tb
    where = _tb.extract_tb(e.__traceback__)[-1]
    cur().prove(False, name or f"raises/{type(e).__name__}", kind="raises",
                note=f"{type(e).__name__}: {e} at {os.path.basename(where.filename)}:{where.lineno}", assume_after=False)
    raise PathAbort("unexpected exception recorded as failed obligation")


def prove(cond, name, kind="post", note=""):
  cur().prove(cond, name, kind, note)


def cover(name, cond=True):
  cur().cover(name, cond)


# ---------------------------------------------------------------------------------------------------------------------
# shims installed into the globals of every rewritten ttconv module (pyvc.loader)

_real_isinstance = isinstance
_real_int = int
_real_float = float


class _ShimMeta(type):
  def __instancecheck__(cls, obj):
    return vc_isinstance(obj, cls.__real__)

  def __subclasscheck__(cls, sub):
    return issubclass(sub, cls.__real__)


class _ShimABCMeta(abc.ABCMeta):
  def __instancecheck__(cls, obj):
    return vc_isinstance(obj, cls.__real__)

  def __subclasscheck__(cls, sub):
    return issubclass(sub, cls.__real__)


_TOKEN_RE = None


def has_tokens(x):
  return _real_isinstance(x, str) and "\u27e6sym" in x


def _token_digits(part):
  """a maximal digit field of a written number: literal digits or ONE format token -> (value as z3 Int term, number of digits)
  The token's printed width is its format's minimum width; that the value fits is assumed here and recorded as a path condition
  (`value < 10**width`), so a wider value is a different, unexplored path (Unsupported on that branch)."""
  import re as _re
  if _re.fullmatch("[0-9]+", part):
    return z3.IntVal(_real_int(part)), len(part)
  m = _re.fullmatch("\u27e6sym([0-9]+)\u27e7", part)
  if not m:
    raise Unsupported(f"number with mixed digits and tokens: {part!r}")
  val, spec = cur().tokens[_real_int(m.group(1))]
  sm = _re.fullmatch("0?([0-9]*)d?", spec or "")
  if sm is None or not _real_isinstance(val, SymInt):
    raise Unsupported(f"token with format {spec!r} inside a number")
  if not (val >= 0):
    raise Unsupported("negative formatted value inside a number")
  if not sm.group(1):
    return val.term, None      # no minimum width: as many digits as the value has (fine for an integer part)
  width = _real_int(sm.group(1))
  if not (val < 10 ** width):          # forks: the value is wider than its field
    raise Unsupported(f"formatted value wider than its field ({spec!r})")
  return val.term, width


def number_from_text(text):
  """int / Fraction of a written decimal `INT[.FRAC]` whose digit fields may be format tokens -> SymInt | SymFrac"""
  import re as _re
  m = _re.fullmatch("((?:[0-9]|\u27e6sym[0-9]+\u27e7)+)(?:\\.((?:[0-9]|\u27e6sym[0-9]+\u27e7)+))?", text.strip())
  if not m:
    raise Unsupported(f"not a decimal with tokens: {text!r}")
  iv, _w = _token_digits(m.group(1))
  if m.group(2) is None:
    return SymInt(iv)
  fv, fw = _token_digits(m.group(2))
  if fw is None:
    raise Unsupported("fraction digits written without a fixed width")
  return SymFrac(z3.ToReal(iv) + z3.ToReal(fv) / (10 ** fw))


class vc_int(int, metaclass=_ShimMeta):
  """`int` inside rewritten modules: int(x) on a symbolic number yields a symbolic int (truncation toward zero)."""
  __real__ = int

  def __new__(cls, x=0, *a):
    if _real_isinstance(x, Proxy):
      if a:
        raise Unsupported("int(sym, base)")
      if _real_isinstance(x, SymBool):
        return SymInt(z3.If(x.term, z3.IntVal(1), z3.IntVal(0)))
      if _real_isinstance(x, _SymNum):
        return x.vc_int()
      if hasattr(x, "vc_int"):
        return x.vc_int()
      raise Unsupported(f"int({type(x).__name__})")
    if has_tokens(x) and not a:
      n = number_from_text(x)
      if not _real_isinstance(n, SymInt):
        raise ValueError(f"invalid literal for int() with base 10: {x!r}")
      return n
    return _real_int(x, *a)


class vc_float(float, metaclass=_ShimMeta):
  __real__ = float

  def __new__(cls, x=0.0):
    if _real_isinstance(x, Proxy):
      if _real_isinstance(x, _SymNum):
        return x.vc_float()
      if hasattr(x, "vc_float"):
        return x.vc_float()
      raise Unsupported(f"float({type(x).__name__})")
    return _real_float(x)


class vc_Fraction(metaclass=_ShimMeta):
  __real__ = fractions.Fraction

  def __new__(cls, numerator=0, denominator=None):
    if _real_isinstance(numerator, Proxy) or _real_isinstance(denominator, Proxy):
      kn, tn = _num(numerator)
      if kn is None:
        raise Unsupported(f"Fraction({type(numerator).__name__})")
      if denominator is None:
        # Fraction(int|Fraction|float) is exact
        return SymFrac(_lift(tn, kn, K_FRAC))
      kd, td = _num(denominator)
      if kd is None or kd == K_FLOAT or kn == K_FLOAT:
        raise Unsupported("Fraction(num, den) with float / unsupported operand")
      _nonzero(td, "Fraction(%s, 0)")
      return SymFrac(z3.simplify(_lift(tn, kn, K_FRAC) / _lift(td, kd, K_FRAC)))
    if denominator is None:
      if has_tokens(numerator):
        n = number_from_text(numerator)
        return n if _real_isinstance(n, SymFrac) else SymFrac(z3.ToReal(n.term))
      return fractions.Fraction(numerator)
    return fractions.Fraction(numerator, denominator)


class vc_set(set, metaclass=_ShimMeta):
  """`set` inside rewritten modules.  Concrete elements live in the real set; symbolic numbers are kept in a side list and
  compared by VALUE on insertion (each comparison forks), so that on every path the collection holds exactly the distinct
  values a real set would hold.  Only add / iteration / len / sorted() / membership are supported for symbolic elements."""
  __real__ = set

  def __init__(self, it=()):
    set.__init__(self)
    self._sym = []
    for x in it:
      self.add(x)

  def add(self, x):
    if _real_isinstance(x, Proxy):
      if not _real_isinstance(x, _SymNum):
        raise Unsupported("symbolic non-number in a set")
      for y in list(set.__iter__(self)) + self._sym:
        if x == y:          # forks; on the `equal` branch the value is already present
          return
      self._sym.append(x)
      return
    for y in self._sym:
      if y == x:
        return
    set.add(self, x)

  def __iter__(self):
    yield from set.__iter__(self)
    yield from self._sym

  def __len__(self):
    return set.__len__(self) + len(self._sym)

  def __contains__(self, x):
    if _real_isinstance(x, Proxy) or self._sym:
      for y in self:
        if x == y:
          return True
      return False
    return set.__contains__(self, x)

  def __bool__(self):
    return len(self) > 0


def _has_symbolic(key):
  if _real_isinstance(key, Proxy):
    return True
  if _real_isinstance(key, tuple):
    return any(_has_symbolic(k) for k in key)
  return False


class vc_dict(dict, metaclass=_ShimMeta):
  """`dict(...)` inside rewritten modules.  Keys without symbolic parts live in the real dict.  A key that is a symbolic number, or a
  tuple that holds one, cannot be hashed: such keys are kept in an association list and compared by VALUE (`==`, which forks on every
  symbolic comparison), so that on every path a lookup finds exactly the entry a real dict would find.  Supported with symbolic keys:
  [] / get / in / setdefault / len / iteration / keys / values / items / bool; everything else raises Unsupported."""
  __real__ = dict

  def __init__(self, *a, **k):
    dict.__init__(self)
    self._sym = []          # [[key, value]]
    for key, val in dict.items(dict(*a, **k)):
      self[key] = val

  def _find(self, key):
    """-> ("real", key) | ("sym", index) | None"""
    if not _has_symbolic(key):
      if not self._sym:
        return ("real", key) if dict.__contains__(self, key) else None
      if dict.__contains__(self, key):
        return ("real", key)
    else:
      for k2 in list(dict.keys(self)):
        if k2 == key:
          return ("real", k2)
    for i, (k2, _v) in enumerate(self._sym):
      if k2 == key:
        return ("sym", i)
    return None

  def __setitem__(self, key, val):
    hit = self._find(key)
    if hit is None:
      if _has_symbolic(key):
        self._sym.append([key, val])
      else:
        dict.__setitem__(self, key, val)
    elif hit[0] == "real":
      dict.__setitem__(self, hit[1], val)
    else:
      self._sym[hit[1]][1] = val

  def __getitem__(self, key):
    hit = self._find(key)
    if hit is None:
      raise KeyError(key)
    return dict.__getitem__(self, hit[1]) if hit[0] == "real" else self._sym[hit[1]][1]

  def get(self, key, default=None):
    hit = self._find(key)
    if hit is None:
      return default
    return dict.__getitem__(self, hit[1]) if hit[0] == "real" else self._sym[hit[1]][1]

  def setdefault(self, key, default=None):
    hit = self._find(key)
    if hit is None:
      self[key] = default
      return default
    return dict.__getitem__(self, hit[1]) if hit[0] == "real" else self._sym[hit[1]][1]

  def __contains__(self, key):
    return self._find(key) is not None

  def __len__(self):
    return dict.__len__(self) + len(self._sym)

  def __bool__(self):
    return len(self) > 0

  def __iter__(self):
    yield from dict.__iter__(self)
    for k, _v in self._sym:
      yield k

  def keys(self):
    return list(iter(self))

  def values(self):
    return list(dict.values(self)) + [v for _k, v in self._sym]

  def items(self):
    return list(dict.items(self)) + [(k, v) for k, v in self._sym]


def _guard_dict_method(name):
  real = getattr(dict, name)

  def method(self, *a, **k):
    if self._sym or any(_has_symbolic(x) for x in a):
      raise Unsupported(f"dict.{name} with symbolic keys")
    return real(self, *a, **k)
  return method


for _n in ("pop", "popitem", "update", "clear", "copy", "__delitem__", "__eq__", "__ne__", "__or__", "__ior__"):
  setattr(vc_dict, _n, _guard_dict_method(_n))


def _guard_set_method(name):
  real = getattr(set, name)

  def guarded(self, *a, **k):
    if getattr(self, "_sym", None) or any(_real_isinstance(x, Proxy) for x in a):
      raise Unsupported(f"set.{name} on a set holding symbolic values")
    return real(self, *a, **k)
  guarded.__name__ = name
  return guarded


for _n in ("update", "union", "intersection", "difference", "symmetric_difference", "discard", "remove", "pop", "copy", "clear",
           "issubset", "issuperset", "isdisjoint", "intersection_update", "difference_update", "symmetric_difference_update",
           "__or__", "__and__", "__sub__", "__xor__", "__ior__", "__iand__", "__isub__", "__ixor__", "__eq__", "__ne__", "__le__",
           "__lt__", "__ge__", "__gt__", "__ror__", "__rand__", "__rsub__", "__rxor__"):
  setattr(vc_set, _n, _guard_set_method(_n))
vc_set.__hash__ = None


_SHIMS = (vc_int, vc_float, vc_Fraction)


def _unshim(cls):
  if _real_isinstance(cls, tuple):
    return tuple(_unshim(c) for c in cls)
  if _real_isinstance(cls, type) and getattr(cls, "__real__", None) is not None and "__real__" in cls.__dict__:
    return cls.__real__
  if getattr(cls, "__name__", "") == "vc_type" and not _real_isinstance(cls, type):
    return type
  return cls


_INT_LIKE = (int, numbers.Integral, numbers.Rational, numbers.Real, numbers.Complex, numbers.Number, object)
_FRAC_LIKE = (fractions.Fraction, numbers.Rational, numbers.Real, numbers.Complex, numbers.Number, object)
_FLOAT_LIKE = (float, numbers.Real, numbers.Complex, numbers.Number, object)
_BOOL_LIKE = (bool,) + _INT_LIKE


def vc_isinstance(obj, cls):
  cls = _unshim(cls)
  if _real_isinstance(obj, Proxy):
    classes = cls if _real_isinstance(cls, tuple) else (cls,)
    if _real_isinstance(obj, SymInt):
      return any(c in _INT_LIKE for c in classes)
    if _real_isinstance(obj, SymFrac):
      return any(c in _FRAC_LIKE for c in classes)
    if _real_isinstance(obj, SymFloat):
      return any(c in _FLOAT_LIKE for c in classes)
    if _real_isinstance(obj, SymBool):
      return any(c in _BOOL_LIKE for c in classes)
    if hasattr(obj, "vc_isinstance"):
      return obj.vc_isinstance(classes)
    raise Unsupported(f"isinstance on {type(obj).__name__}")
  return _real_isinstance(obj, cls)


def vc_is(a, b):
  """`a is b` in rewritten modules."""
  pa, pb = _real_isinstance(a, Proxy), _real_isinstance(b, Proxy)
  if not pa and not pb:
    return a is b
  if hasattr(a, "vc_is"):
    return a.vc_is(b)
  if hasattr(b, "vc_is"):
    return b.vc_is(a)
  if a is b:
    return True
  if a is None or b is None:
    return False            # numeric / boolean proxies are never None (opaque values and references define vc_is themselves)
  if _real_isinstance(a, SymBool) or _real_isinstance(b, SymBool):
    other = b if _real_isinstance(a, SymBool) else a
    me = a if _real_isinstance(a, SymBool) else b
    if _real_isinstance(other, (bool, SymBool)):
      return me == other    # True/False are singletons
    return False
  raise Unsupported("identity comparison of symbolic numbers (CPython int identity is an implementation detail)")


def vc_is_not(a, b):
  r = vc_is(a, b)
  if _real_isinstance(r, SymBool):
    return ~r
  return not r


# ---------------------------------------------------------------------------------------------------------------------
# path exploration


@dataclass
class PathResult:
  no: int
  outcome: str            # "ok" | "abort" | "unsupported" | "error"
  detail: str
  obligations: list
  decisions: list
  unknown_feas: int = 0


def explore(run: Callable[["Ctx"], None], label: str, max_paths: int = 20000) -> List[PathResult]:
  """Enumerate every feasible path of `run` (which builds inputs, calls the real code and states obligations)."""
  results: List[PathResult] = []
  stack: List[List[bool]] = [[]]
  n = 0
  while stack:
    prefix = stack.pop()
    if n >= max_paths:
      results.append(PathResult(n, "unsupported", f"more than {max_paths} paths", [], prefix))
      break
    ctx = Ctx(prefix, n, label)
    _tls.ctx = ctx
    outcome, detail = "ok", ""
    try:
      run(ctx)
    except PathAbort as e:
      outcome, detail = "abort", str(e)
    except Unsupported as e:
      outcome, detail = "unsupported", str(e)
    except RecursionError as e:
      outcome, detail = "unsupported", "RecursionError in symbolic execution"
    finally:
      _tls.ctx = None
    stack.extend(ctx.pending)
    results.append(PathResult(n, outcome, detail, ctx.obligations, ctx.trace, ctx.unknown_feas))
    n += 1
  return results
