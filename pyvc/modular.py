"""Modular verification: inside a caller's harness a callee is replaced by its CONTRACT (assume the precondition's consequences,
return fresh symbolic results constrained by the postcondition), so that the caller is checked against the callee's contract, not
its body.  A contract used this way must be discharged for the callee's real body by some harness of the same check run; every
use is recorded (Ctx.notes / the harness' `assumed_contracts`) and reported in the evidence as an assumed contract on a dependency
together with the names of the obligations that discharge it."""
from __future__ import annotations

import contextlib

import z3

from . import core

USED = {}       # contract name -> number of times it was applied (per process)


def fresh_int(base):
  c = core.cur()
  return core.SymInt(z3.Int(c.fresh_name(base)))


def note_use(name):
  USED[name] = USED.get(name, 0) + 1


@contextlib.contextmanager
def contracts(*items):
  """items: (owner object, attribute name, stub factory(real) -> stub, is_static)"""
  saved = []
  try:
    for owner, attr, factory, is_static in items:
      old = owner.__dict__[attr]
      real = old.__func__ if isinstance(old, (staticmethod, classmethod)) else old
      stub = factory(real)
      saved.append((owner, attr, old))
      setattr(owner, attr, staticmethod(stub) if is_static else stub)
    yield
  finally:
    for owner, attr, old in reversed(saved):
      setattr(owner, attr, old)
