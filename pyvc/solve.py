"""Discharge of verification conditions: portfolio of SMT back ends, in parallel.

verdicts: proved | refuted | unknown   (for `cover` obligations: reachable | vacuous | unknown)
`unknown`/timeouts are never turned into a violation.
"""
from __future__ import annotations

import concurrent.futures as cf
import os
import time
from dataclasses import dataclass, field
from typing import List

import z3


@dataclass
class Verdict:
  name: str
  kind: str
  status: str                 # proved | refuted | unknown | reachable | vacuous
  backend: str = ""
  time_s: float = 0.0
  model: dict = field(default_factory=dict)
  reason: str = ""
  path: int = 0
  where: str = ""
  size: int = 0
  note: str = ""


def _z3_try(smt2: str, timeout_ms: int, params: dict):
  s = z3.Solver()
  s.set("timeout", timeout_ms)
  for k, v in params.items():
    try:
      s.set(k, v)
    except z3.Z3Exception:
      pass
  s.from_string(smt2)
  t0 = time.time()
  r = s.check()
  dt = time.time() - t0
  model = {}
  if r == z3.sat:
    m = s.model()
    for d in m.decls():
      n = d.name()
      if "!" in n or d.arity() != 0:
        continue
      model[n] = str(m[d])
  reason = s.reason_unknown() if r == z3.unknown else ""
  return str(r), model, dt, reason


def _cvc5_try(smt2: str, timeout_ms: int):
  import cvc5
  slv = cvc5.Solver()
  slv.setOption("tlimit-per", str(timeout_ms))
  slv.setOption("produce-models", "true")
  p = cvc5.InputParser(slv)
  p.setStringInput(cvc5.InputLanguage.SMT_LIB_2_6, "(set-logic ALL)\n" + smt2, "ob")
  sm = p.getSymbolManager()
  t0 = time.time()
  res = "unknown"
  while True:
    cmd = p.nextCommand()
    if cmd.isNull():
      break
    out = cmd.invoke(slv, sm)
    o = str(out).strip()
    if o in ("sat", "unsat", "unknown"):
      res = o
  return res, {}, time.time() - t0, ""


Z3_CONFIGS = [
  ("z3-5.1/default", {}),
  ("z3-5.1/arith.solver=2,seed=7", {"smt.arith.solver": 2, "smt.random_seed": 7}),
  ("z3-5.1/seed=42,nl-off", {"smt.random_seed": 42, "smt.arith.nl": False}),
]


def _solve_cfg(args):
  """One obligation with one back-end configuration."""
  smt2, expect, cfg, budget_s = args
  t0 = time.time()
  try:
    if cfg == "cvc5":
      r, model, dt, reason = _cvc5_try(smt2, int(budget_s * 1000))
      label = "cvc5-1.4"
    else:
      label, params = Z3_CONFIGS[cfg]
      r, model, dt, reason = _z3_try(smt2, int(budget_s * 1000), params)
  except Exception as e:  # solver crash: unknown, never a verdict
    r, model, reason, label = "unknown", {}, f"solver exception: {e}", str(cfg)
  return r, model, label, time.time() - t0, reason


def _status(expect, r):
  if expect == "unsat":
    return {"unsat": "proved", "sat": "refuted"}.get(r, "unknown")
  return {"sat": "reachable", "unsat": "vacuous"}.get(r, "unknown")


def _solve_idx(args):
  key, payload = args
  return key, _solve_cfg(payload)


def quick_pass(obligations, quick_s: float = 3.0):
  """In-process first pass (default z3 configuration, short budget).  -> (verdicts with None for the hard ones, hard list
  of (index, smt2, expect, tried-text))."""
  verdicts: List[Verdict] = [None] * len(obligations)
  hard = []
  for i, ob in enumerate(obligations):
    g = z3.simplify(ob.goal)
    if ob.expect == "unsat" and z3.is_true(g):
      verdicts[i] = Verdict(ob.name, ob.kind, "proved", "z3-simplify", 0.0, path=ob.path, where=ob.where, note=ob.note)
      continue
    smt2 = ob.smt2()
    r, model, label, dt, reason = _solve_cfg((smt2, ob.expect, 0, quick_s))
    if r in ("sat", "unsat"):
      verdicts[i] = Verdict(ob.name, ob.kind, _status(ob.expect, r), label, dt, model, f"{label}:{r}:{dt:.2f}s", ob.path,
                            ob.where, len(smt2), ob.note)
    else:
      verdicts[i] = Verdict(ob.name, ob.kind, "unknown", "", dt, {}, f"{label}:unknown:{dt:.2f}s {reason}", ob.path, ob.where,
                            len(smt2), ob.note)
      hard.append((i, smt2, ob.expect))
  return verdicts, hard


def portfolio_pass(hard, budget_s: float, jobs: int = 0, use_cvc5: bool = True):
  """hard: list of (key, smt2, expect).  All back-end configurations of all obligations run concurrently; the first definite
  answer per obligation wins (`unsat` from any member is a proof: each member is sound).  -> {key: (r, model, label, dt, tried)}"""
  import multiprocessing as mp
  jobs = jobs or min(16, os.cpu_count() or 4)
  out = {}
  if not hard:
    return out
  cfgs = list(range(len(Z3_CONFIGS))) + (["cvc5"] if use_cvc5 else [])
  # order: the alternative configurations first (the default one has already failed on a short budget)
  order = [c for c in cfgs if c != 0] + [0]
  tasks = [((key, c), (smt2, expect, c, budget_s)) for c in order for key, smt2, expect in hard]
  tried = {key: [] for key, _, _ in hard}
  open_ = set(tried)
  pool = mp.get_context("fork").Pool(jobs)
  try:
    for (key, c), (r, model, label, dt, reason) in pool.imap_unordered(_solve_idx, tasks):
      tried[key].append(f"{label}:{r}:{dt:.2f}s")
      if key in open_ and r in ("sat", "unsat"):
        out[key] = (r, model, label, dt)
        open_.discard(key)
        if not open_:
          break
  finally:
    pool.terminate()
    pool.join()
  return {k: (out[k] + ("; ".join(tried[k]),)) if k in out else ("unknown", {}, "", 0.0, "; ".join(tried[k])) for k in tried}


def _solve_idx(args):
  key, payload = args
  return key, _solve_cfg(payload)


def discharge(obligations, budget_s: float = 60.0, jobs: int = 0, use_cvc5: bool = True, quick_s: float = 3.0) -> List[Verdict]:
  verdicts, hard = quick_pass(obligations, min(quick_s, budget_s))
  res = portfolio_pass(hard, budget_s, jobs, use_cvc5)
  for i, _, expect in hard:
    r, model, label, dt, tried = res[i]
    v = verdicts[i]
    v.status = _status(expect, r) if r in ("sat", "unsat") else "unknown"
    v.backend, v.model, v.time_s = label, model, v.time_s + dt
    v.reason = v.reason + "; " + tried
  return verdicts
