"""Loop cutting: a `while` loop of a real function is replaced, mechanically and per run, by its inductive-invariant proof
obligations.  For loop ordinal k (source order) with spec (invariant, modifies, havoc, decreases):

    while T: BODY        ==>     __vc_loop__.init(k, locals())                 # obligation inv-init
                                 (m1, .., mn) = __vc_loop__.havoc(k, (m1, .., mn))   # arbitrary iteration
                                 __vc_loop__.assume_inv(k, locals())
                                 if T:
                                     __vc_d0__ = __vc_loop__.measure(k, locals())
                                     BODY
                                     __vc_loop__.step(k, locals(), __vc_d0__)    # obligations inv-step, decreases; path ends
                                 # continue after the loop with  invariant /\\ not T

`break` / `continue` / `return` inside BODY are not supported by this cut (functions using them are not given loop specs).
"""
from __future__ import annotations

import ast
import inspect
import os
import textwrap
from dataclasses import dataclass, field
from typing import Callable, Dict, List

from . import core, loader


@dataclass
class LoopSpec:
  invariant: Callable[[dict], object]            # locals -> SymBool / bool
  modifies: List[str]
  havoc: Callable[[str, object], object]         # (name, old value) -> fresh symbolic value of the same shape
  decreases: Callable[[dict], object] = None     # locals -> SymInt (must be >= 0 and strictly decrease)
  name: str = "loop"
  on_yield: Callable[[object, dict], object] = None   # (yielded value, locals) -> condition proved at every `yield` of the loop body
  ghosts: dict = field(default_factory=dict)     # ghost loop variables: name -> (initial value, havoc() -> fresh value, update(value) -> value after one iteration)


class _Runtime:
  def __init__(self, specs: Dict[int, LoopSpec], label: str):
    self.specs = specs
    self.label = label
    self.g = {}

  def _loc(self, k, loc):
    d = dict(loc)
    d.update(self.g.get(k, {}))
    return d

  def init(self, k, loc):
    self.g[k] = {n: v[0] for n, v in self.specs[k].ghosts.items()}
    core.prove(self.specs[k].invariant(self._loc(k, loc)), f"{self.label}/loop{k}/inv-init", kind="inv-init")

  def havoc(self, k, values):
    sp = self.specs[k]
    self.g[k] = {n: v[1]() for n, v in sp.ghosts.items()}
    out = tuple(sp.havoc(n, v) for n, v in zip(sp.modifies, values))
    return out if len(out) != 1 else (out[0],)

  def assume_inv(self, k, loc):
    core.assume(self.specs[k].invariant(self._loc(k, loc)))

  def measure(self, k, loc):
    sp = self.specs[k]
    return sp.decreases(self._loc(k, loc)) if sp.decreases else None

  def yielded(self, k, value, loc):
    sp = self.specs[k]
    core.prove(sp.on_yield(value, self._loc(k, loc)), f"{self.label}/loop{k}/yield", kind="post")

  def step(self, k, loc, d0):
    sp = self.specs[k]
    self.g[k] = {n: sp.ghosts[n][2](v) for n, v in self.g[k].items()}
    core.prove(sp.invariant(self._loc(k, loc)), f"{self.label}/loop{k}/inv-step", kind="inv-step")
    if sp.decreases:
      d1 = sp.decreases(self._loc(k, loc))
      core.prove((d0 >= 0) & (d1 < d0), f"{self.label}/loop{k}/decreases", kind="decreases")
    raise core.PathAbort("loop cut: arbitrary iteration done")

  def exit_locals(self, k, loc):
    return self._loc(k, loc)


class _Cutter(ast.NodeTransformer):
  def __init__(self, specs):
    self.specs = specs
    self.k = 0

  def visit_FunctionDef(self, node):
    self.generic_visit(node)
    return node

  def _check_body(self, body, allow_yield=False):
    for n in body:
      for m in ast.walk(n):
        if isinstance(m, (ast.Break, ast.Continue, ast.Return, ast.YieldFrom)) or (isinstance(m, ast.Yield) and not allow_yield):
          raise core.Unsupported("loop cut: break/continue/return/yield inside a cut loop")

  def visit_While(self, node: ast.While):
    k = self.k
    self.k += 1
    self.generic_visit(node)
    if k not in self.specs:
      return node
    if node.orelse:
      raise core.Unsupported("loop cut: while/else")
    sp = self.specs[k]
    self._check_body(node.body, allow_yield=sp.on_yield is not None)
    if sp.on_yield is not None:
      # `yield X` as a statement of a generator loop becomes an obligation about X (the generator turns into a plain function)
      new_body = []
      for st in node.body:
        if isinstance(st, ast.Expr) and isinstance(st.value, ast.Yield):
          st = ast.Expr(ast.Call(func=ast.Attribute(value=ast.Name(id="__vc_loop__", ctx=ast.Load()), attr="yielded", ctx=ast.Load()),
                                 args=[ast.Constant(value=k), st.value.value or ast.Constant(value=None),
                                       ast.Call(func=ast.Name(id="locals", ctx=ast.Load()), args=[], keywords=[])], keywords=[]))
        elif any(isinstance(m, ast.Yield) for m in ast.walk(st)):
          raise core.Unsupported("loop cut: yield used as an expression")
        new_body.append(st)
      node.body = new_body
    names = sp.modifies
    rt = "__vc_loop__"

    def call(meth, *args):
      return ast.Call(func=ast.Attribute(value=ast.Name(id=rt, ctx=ast.Load()), attr=meth, ctx=ast.Load()), args=list(args), keywords=[])

    loc = ast.Call(func=ast.Name(id="locals", ctx=ast.Load()), args=[], keywords=[])
    kk = ast.Constant(value=k)
    stmts = [ast.Expr(call("init", kk, loc))]
    tgt = ast.Tuple(elts=[ast.Name(id=n, ctx=ast.Store()) for n in names], ctx=ast.Store())
    src = ast.Tuple(elts=[ast.Name(id=n, ctx=ast.Load()) for n in names], ctx=ast.Load())
    stmts.append(ast.Assign(targets=[tgt], value=call("havoc", kk, src)))
    stmts.append(ast.Expr(call("assume_inv", kk, loc)))
    body = [ast.Assign(targets=[ast.Name(id="__vc_d0__", ctx=ast.Store())], value=call("measure", kk, loc))] + node.body + \
           [ast.Expr(call("step", kk, loc, ast.Name(id="__vc_d0__", ctx=ast.Load())))]
    stmts.append(ast.If(test=node.test, body=body, orelse=[]))
    return [ast.copy_location(s, node) for s in stmts]

  def visit_For(self, node):
    self.k += 1
    self.generic_visit(node)
    return node


def cut(qualname: str, specs: Dict[int, LoopSpec], label: str = None):
  """qualname 'ttconv.model:ContentElement.root' -> a new function object: the real source of the current tree with the
  listed loops cut, compiled in the globals of the (rewritten) module."""
  import importlib
  modname, _, qn = qualname.partition(":")
  mod = importlib.import_module(modname)
  info = loader.locate(qualname)
  with open(os.path.join(loader.REPO, info["file"]), encoding="utf-8") as f:
    lines = f.read().splitlines()
  src = textwrap.dedent("\n".join(lines[info["lines"][0] - 1: info["lines"][1]]))
  tree = ast.parse(src)
  fn = tree.body[0]
  fn.decorator_list = []
  tree = loader.rewrite_module(tree)
  cutter = _Cutter(specs)
  tree = cutter.visit(tree)
  ast.fix_missing_locations(tree)
  missing = [k for k in specs if k >= cutter.k]
  if missing:
    raise core.Unsupported(f"loop cut: {qualname} has {cutter.k} loops, spec names loop {missing}")
  ns = dict(mod.__dict__)
  ns["__vc_loop__"] = _Runtime(specs, label or qn)
  code = compile(tree, info["file"], "exec")
  exec(code, ns)
  return ns[fn.name]
