"""Harnesses: one unit of deductive verification = (requires, call of the real code, ensures) for one function under
contract and one instance (frame rate, element kind, style property ...).  Exploration of the harnesses of a property runs
in parallel worker processes; the verification conditions go to pyvc.solve."""
from __future__ import annotations

import multiprocessing as mp
import os
import time
import traceback
from dataclasses import dataclass, field
from typing import Callable, List, Optional

from . import core, solve


@dataclass
class Harness:
  name: str                               # unique within the property, e.g. "from_frames.roundtrip@30000/1001"
  run: Callable[[core.Ctx], None]         # builds the quantified inputs, calls the real (rewritten) code, states obligations
  functions: List[str] = field(default_factory=list)   # qualnames of the repository functions executed under this contract
  replayer: Optional[str] = None          # "replayers.c12:roundtrip" -- native replay of a counter-model
  replay_args: dict = field(default_factory=dict)      # constant arguments for the replayer (e.g. the frame rate)
  clause: str = ""                        # which clause of the property statement this carries
  budget_s: float = 60.0
  max_paths: int = 5000
  must_reach: int = 1                     # minimum number of paths that must end normally and be satisfiable (vacuity guard)


@dataclass
class HarnessReport:
  name: str
  paths: int
  ok_paths: int
  aborted: int
  unsupported: List[str]
  errors: List[str]
  verdicts: List[solve.Verdict]
  explore_s: float
  functions: List[str]
  clause: str
  replayer: Optional[str]
  replay_args: dict
  unknown_feas: int = 0


def _explore_harness(h: Harness):
  import logging
  logging.disable(logging.CRITICAL)      # the repository's log records are not part of any proof obligation
  t0 = time.time()

  def run(ctx):
    h.run(ctx)
    ctx.cover("path-end")

  errors = []
  try:
    results = core.explore(run, h.name, h.max_paths)
  except Exception:   # an ordinary exception escaping the harness: checker error, never a verdict
    errors.append(traceback.format_exc(limit=12))
    results = []
  obs = []
  for r in results:
    for o in r.obligations:
      o.name = f"{h.name}/{o.name}" + (f"[path{r.no}]" if len(results) > 1 else "")
      obs.append(o)
  return results, obs, errors, time.time() - t0


def run_harness(h: Harness, quick_s: float = 3.0):
  """explore + first solver pass; -> (report, hard obligations [(index, smt2, expect)])"""
  results, obs, errors, dt = _explore_harness(h)
  verdicts, hard = solve.quick_pass(obs, quick_s) if obs else ([], [])
  if hard:
    # quantified (heap) obligations that are not discharged quickly: look for a finite counter-example first
    import z3
    from . import finite
    still = []
    for i, smt2, expect in hard:
      ob = obs[i]
      if expect == "unsat" and any(z3.is_quantifier(c) for c in ob.pc):
        try:
          st, model = finite.refute(ob.pc, ob.goal)
        except Exception as e:   # the counter-example search is best effort; failure leaves the obligation undecided
          st, model = "unknown", {"error": repr(e)}
        if st == "sat":
          v = verdicts[i]
          v.status, v.backend, v.model = "refuted", "z3-5.1/finite-universe", model
          v.reason += "; finite universe: sat"
          continue
        verdicts[i].reason += f"; finite universe: {st}"
      still.append((i, smt2, expect))
    hard = still
  rep = HarnessReport(
    name=h.name, paths=len(results), ok_paths=sum(r.outcome == "ok" for r in results),
    aborted=sum(r.outcome == "abort" for r in results),
    unsupported=[f"path{r.no}: {r.detail}" for r in results if r.outcome == "unsupported"],
    errors=errors, verdicts=verdicts, explore_s=dt, functions=h.functions, clause=h.clause, replayer=h.replayer,
    replay_args=h.replay_args, unknown_feas=sum(r.unknown_feas for r in results))
  return rep, hard


_HARNESSES: List[Harness] = []


def _worker(idx):
  try:
    rep, hard = run_harness(_HARNESSES[idx])
    return idx, rep, hard
  except BaseException:
    h = _HARNESSES[idx]
    return idx, HarnessReport(h.name, 0, 0, 0, [], [traceback.format_exc(limit=12)], [], 0.0, h.functions, h.clause,
                              h.replayer, h.replay_args), []


def run_all(harnesses: List[Harness], jobs: int = 0) -> List[HarnessReport]:
  """Explore all harnesses in parallel (with a short in-process solver pass), then send every obligation that is still
  open to the back-end portfolio on all cores."""
  global _HARNESSES
  jobs = jobs or min(16, os.cpu_count() or 4)
  _HARNESSES = harnesses
  n = len(harnesses)
  if n == 0:
    return []
  reports: List[Optional[HarnessReport]] = [None] * n
  hard_all = []
  pool = mp.get_context("fork").Pool(min(jobs, n))
  try:
    for idx, rep, hard in pool.imap_unordered(_worker, range(n)):
      reports[idx] = rep
      hard_all += [((idx, i), smt2, expect) for i, smt2, expect in hard]
  finally:
    pool.close()
    pool.join()
  if hard_all:
    budget = max(h.budget_s for h in harnesses)
    res = solve.portfolio_pass(hard_all, budget, jobs)
    for (idx, i), _, expect in hard_all:
      r, model, label, dt, tried = res[(idx, i)]
      v = reports[idx].verdicts[i]
      v.status = solve._status(expect, r) if r in ("sat", "unsat") else "unknown"
      v.backend, v.model, v.time_s = label, model, v.time_s + dt
      v.reason = v.reason + "; " + tried
  return reports
