"""Symbolic heap for the intrusive tree of ttconv.model: references are values of an uninterpreted sort `Ref`, every
instance field is an SMT array Ref -> value, immutable `kind : Ref -> Int` encodes the dynamic class.  The real methods of
model.py are executed on `SymRef` proxies (attribute reads/writes become selects/stores, `is`/`isinstance` become equalities
on Ref / kind, dynamic dispatch becomes a case split over the classes that override the method), so a path through
`push_child` yields a post-heap as a term over the (universally quantified) pre-heap."""
from __future__ import annotations

import types
from typing import Dict, List, Optional

import z3

from . import core
from .core import Proxy, SymBool, Unsupported, cur

Ref = z3.DeclareSort("Ref")
IdS = z3.DeclareSort("IdS")          # element / region identifiers (python str or None)
Obj = z3.DeclareSort("Obj")          # opaque python values (styles dict, animation list, timing, text ...)
NULL = z3.Const("null", Ref)
ID_NONE = z3.Const("id_none", IdS)

REF_FIELDS = ("_parent", "_first_child", "_last_child", "_previous_sibling", "_next_sibling", "_doc", "_region", "_body")
ID_FIELDS = ("_id",)
OPAQUE_FIELDS = ("_sets", "_begin", "_end", "_space", "_lang", "_text", "_active_area",
                 "_cell_resolution", "_px_resolution", "_dar")
MAP_FIELDS = ("_regions",)           # doc -> (IdS -> Ref)
DICT_FIELDS = ("_styles", "_initial_values")   # object -> (key id -> Obj), obj_none for absent keys; keys are concrete python objects


class Heap:
  """field name -> z3 array; `kind` is immutable and shared"""

  def __init__(self, arrays: Dict[str, z3.ArrayRef], kind):
    self.arrays = dict(arrays)
    self.kind = kind

  @staticmethod
  def fresh(tag: str):
    arrays = {}
    for f in REF_FIELDS:
      arrays[f] = z3.Array(f"{tag}{f}", Ref, Ref)
    for f in ID_FIELDS:
      arrays[f] = z3.Array(f"{tag}{f}", Ref, IdS)
    for f in OPAQUE_FIELDS:
      arrays[f] = z3.Array(f"{tag}{f}", Ref, Obj)
    for f in MAP_FIELDS:
      arrays[f] = z3.Array(f"{tag}{f}", Ref, z3.ArraySort(IdS, Ref))
    for f in DICT_FIELDS:
      arrays[f] = z3.Array(f"{tag}{f}", Ref, z3.ArraySort(z3.IntSort(), Obj))
    return Heap(arrays, z3.Function("kind", Ref, z3.IntSort()))

  def copy(self):
    return Heap(self.arrays, self.kind)

  def sel(self, f, x):
    return z3.Select(self.arrays[f], x)

  def store(self, f, x, v):
    self.arrays[f] = z3.Store(self.arrays[f], x, v)

  def same_as(self, other: "Heap"):
    """conjunction: every field array is unchanged (extensional equality of arrays)"""
    return z3.And(*[self.arrays[f] == other.arrays[f] for f in self.arrays])


class ClassTable:
  """the python classes that heap objects may be instances of (read from the loaded, rewritten module)"""

  def __init__(self, classes: List[type]):
    self.classes = list(classes)
    self.code = {c: i + 1 for i, c in enumerate(self.classes)}

  def subclasses(self, cls) -> List[type]:
    cls = core._unshim(cls)
    return [c for c in self.classes if isinstance(c, type) and issubclass(c, cls)]

  def kind_in(self, kind_term, classes) -> z3.BoolRef:
    ks = sorted({self.code[c] for cl in classes for c in self.subclasses(cl)})
    if not ks:
      return z3.BoolVal(False)
    return z3.Or(*[kind_term == k for k in ks])

  def valid_kind(self, kind_term):
    return z3.And(kind_term >= 1, kind_term <= len(self.classes))


class HeapCtx:
  """per-path heap state, attached to the pyvc path context as ctx.heapctx"""

  def __init__(self, heap: Heap, table: ClassTable):
    self.heap = heap
    self.table = table
    self.stubs = {}            # real function object -> replacement(self_ref, *args)
    self.iter_stub = None      # callable(SymRef) -> python iterable, for `for x in ref` / list(ref)


def hctx() -> HeapCtx:
  return cur().heapctx


OBJ_NONE = z3.Const("obj_none", Obj)
_ISINST = z3.Function("isinstance_of", Obj, z3.IntSort(), z3.BoolSort())    # uninterpreted: python isinstance(value, class #k)
_ISOBJ = z3.Function("is_object", Obj, z3.IntSort(), z3.BoolSort())         # uninterpreted: value is/== the constant #k
_KEYS = {}          # python object -> small int (class ids, constant ids, dict keys); names kept for reports
KEY_NAMES = {}


def key_id(obj) -> int:
  k = _KEYS.get(id(obj))
  if k is None:
    k = len(_KEYS) + 1
    _KEYS[id(obj)] = k
    KEY_NAMES[k] = getattr(obj, "__qualname__", None) or repr(obj)
    _KEYS[("keep", k)] = obj
  return k


class SymOpaque(Proxy):
  """a python value the encoding does not look into: it can be stored, copied, compared for identity, and asked
  `isinstance(value, C)` / `value == constant`, which are uninterpreted predicates of the value (so that what a guard tested
  is known on the path that stores the value)"""
  __slots__ = ("term",)

  def __init__(self, term):
    self.term = term

  def vc_is(self, other):
    if isinstance(other, SymOpaque):
      return SymBool(self.term == other.term)
    if other is None:
      return SymBool(self.term == OBJ_NONE)
    if isinstance(other, Proxy):
      raise Unsupported("identity test between an opaque value and a symbolic value")
    return SymBool(z3.And(self.term != OBJ_NONE, _ISOBJ(self.term, key_id(other))))

  def __eq__(self, other):
    return self.vc_is(other)

  def __ne__(self, other):
    return ~self.vc_is(other)

  def __hash__(self):
    raise Unsupported("hash of an opaque value")

  def vc_isinstance(self, classes):
    ts = []
    for c in classes:
      c = core._unshim(c)
      if c is type(None):
        ts.append(self.term == OBJ_NONE)
      else:
        ts.append(z3.And(self.term != OBJ_NONE, _ISINST(self.term, key_id(c))))
    return SymBool(z3.Or(*ts)) if ts else False

  def __bool__(self):
    raise Unsupported("truth value of an opaque value")

  def __getattr__(self, name):
    raise Unsupported(f"attribute `{name}` of an opaque value")


class SymId(Proxy):
  __slots__ = ("term",)

  def __init__(self, term):
    self.term = term

  def __eq__(self, o):
    if isinstance(o, SymId):
      return SymBool(self.term == o.term)
    if o is None:
      return SymBool(self.term == ID_NONE)
    raise Unsupported("comparison of a symbolic id with a python value")

  def __ne__(self, o):
    return ~self.__eq__(o)

  def __hash__(self):
    raise Unsupported("hash of a symbolic id (dict/set lookups keyed by symbolic values are not modelled)")

  def vc_is(self, other):
    if other is None:
      return SymBool(self.term == ID_NONE)
    return self.__eq__(other)


class SymMap(Proxy):
  """the `_regions` dict of a document: IdS -> Ref with NULL for absent keys"""
  __slots__ = ("owner", "field")

  def __init__(self, owner, field):
    object.__setattr__(self, "owner", owner)
    object.__setattr__(self, "field", field)

  def _arr(self):
    return hctx().heap.sel(self.field, self.owner)

  def _key(self, k):
    if isinstance(k, SymId):
      return k.term
    raise Unsupported("map key is not a symbolic id")

  def __contains__(self, k):
    return SymBool(z3.Select(self._arr(), self._key(k)) != NULL).__bool__()

  def get(self, k, default=None):
    if default is not None:
      raise Unsupported("dict.get with default on a symbolic map")
    return SymRef(z3.Select(self._arr(), self._key(k)))

  def __getitem__(self, k):
    r = z3.Select(self._arr(), self._key(k))
    if SymBool(r == NULL).__bool__():
      raise KeyError("region id")
    return SymRef(r)

  def __setitem__(self, k, v):
    if not isinstance(v, SymRef):
      raise Unsupported("non-reference stored in a symbolic map")
    h = hctx().heap
    h.store(self.field, self.owner, z3.Store(self._arr(), self._key(k), v.term))

  def __delitem__(self, k):
    h = hctx().heap
    if SymBool(z3.Select(self._arr(), self._key(k)) == NULL).__bool__():
      raise KeyError("region id")
    h.store(self.field, self.owner, z3.Store(self._arr(), self._key(k), NULL))


class SymDict(Proxy):
  """a dict field keyed by concrete python objects (style property classes) holding opaque values"""
  __slots__ = ("owner", "field")

  def __init__(self, owner, field):
    object.__setattr__(self, "owner", owner)
    object.__setattr__(self, "field", field)

  def _arr(self):
    return hctx().heap.sel(self.field, self.owner)

  def _key(self, k):
    if isinstance(k, Proxy):
      raise Unsupported("symbolic dict key")
    return z3.IntVal(key_id(k))

  def _val(self, v):
    if v is None:
      return OBJ_NONE
    if isinstance(v, SymOpaque):
      return v.term
    raise Unsupported("non-opaque value stored in a symbolic dict")

  def __contains__(self, k):
    return SymBool(z3.Select(self._arr(), self._key(k)) != OBJ_NONE).__bool__()

  def get(self, k, default=None):
    if default is not None:
      raise Unsupported("dict.get with default on a symbolic dict")
    return SymOpaque(z3.Select(self._arr(), self._key(k)))

  def __getitem__(self, k):
    v = z3.Select(self._arr(), self._key(k))
    if SymBool(v == OBJ_NONE).__bool__():
      raise KeyError(k)
    return SymOpaque(v)

  def __setitem__(self, k, v):
    hctx().heap.store(self.field, self.owner, z3.Store(self._arr(), self._key(k), self._val(v)))

  def pop(self, k, *default):
    v = z3.Select(self._arr(), self._key(k))
    if not default and SymBool(v == OBJ_NONE).__bool__():
      raise KeyError(k)
    hctx().heap.store(self.field, self.owner, z3.Store(self._arr(), self._key(k), OBJ_NONE))
    return SymOpaque(v)

  def __delitem__(self, k):
    self.pop(k)


class SymChildren(Proxy):
  """`list(element)`: the children of an element as a snapshot; only membership is supported.
  Contract of ContentElement.__iter__ (assumed here, see DESIGN C15): it yields exactly the elements whose parent is the
  element, each once, in link order."""
  __slots__ = ("owner", "parent_arr")

  def __init__(self, owner: "SymRef"):
    object.__setattr__(self, "owner", owner)
    object.__setattr__(self, "parent_arr", hctx().heap.arrays["_parent"])

  def __contains__(self, x):
    if x is None:
      return False
    if not isinstance(x, SymRef):
      raise Unsupported("membership of a non-reference in a child list")
    return SymBool(z3.And(x.term != NULL, z3.Select(self.parent_arr, x.term) == self.owner.term)).__bool__()


class SymRef(Proxy):
  """a reference to a model object (or None when term == null)"""
  __slots__ = ("term", "cls")

  def __init__(self, term, cls=None):
    object.__setattr__(self, "term", term)
    object.__setattr__(self, "cls", cls)

  # -- identity / type
  @property
  def __class__(self):
    # lets zero-argument super() inside the real methods accept the proxy (CPython's supercheck consults __class__)
    return object.__getattribute__(self, "cls") or SymRef

  def vc_is(self, other):
    if other is None:
      return SymBool(self.term == NULL)
    if isinstance(other, SymRef):
      return SymBool(self.term == other.term)
    return False

  def __eq__(self, other):
    return self.vc_is(other)         # model classes do not define __eq__: equality is identity

  def __ne__(self, other):
    r = self.vc_is(other)
    return ~r if isinstance(r, SymBool) else (not r)

  def __hash__(self):
    raise Unsupported("hash of a symbolic reference")

  def __bool__(self):
    # `x and x.f()`: None is falsy; model objects define __len__, so truthiness would be len() != 0 -- not modelled
    raise Unsupported("truth value of a symbolic reference")

  def vc_isinstance(self, classes):
    hc = hctx()
    if self.cls is not None:
      known = any(issubclass(self.cls, core._unshim(c)) for c in classes if isinstance(core._unshim(c), type))
      return SymBool(z3.And(self.term != NULL, z3.BoolVal(known)))
    return SymBool(z3.And(self.term != NULL, hc.table.kind_in(hc.heap.kind(self.term), classes)))

  def vc_type(self):
    if self.cls is None:
      raise Unsupported("type() of a reference whose class is symbolic")
    return self.cls

  def _nonnull(self, what):
    if SymBool(self.term == NULL).__bool__():
      raise AttributeError(f"'NoneType' object has no attribute '{what}'")

  # -- fields and methods
  def __getattr__(self, name):
    hc = hctx()
    if name in REF_FIELDS:
      self._nonnull(name)
      return SymRef(hc.heap.sel(name, self.term))
    if name in ID_FIELDS:
      self._nonnull(name)
      return SymId(hc.heap.sel(name, self.term))
    if name in OPAQUE_FIELDS:
      self._nonnull(name)
      return SymOpaque(hc.heap.sel(name, self.term))
    if name in MAP_FIELDS:
      self._nonnull(name)
      return SymMap(self.term, name)
    if name in DICT_FIELDS:
      self._nonnull(name)
      return SymDict(self.term, name)
    if name.startswith("__") and name.endswith("__"):
      raise AttributeError(name)
    self._nonnull(name)
    fn = self._resolve(name)
    stub = hc.stubs.get(fn)
    if stub is not None:
      return types.MethodType(stub, self)
    return types.MethodType(fn, self)

  def _resolve(self, name):
    hc = hctx()
    if self.cls is not None:
      f = getattr(self.cls, name)
      return getattr(f, "__func__", f)
    groups = {}
    for c in hc.table.classes:
      f = getattr(c, name, None)
      if f is None:
        continue
      f = getattr(f, "__func__", f)
      groups.setdefault(f, []).append(c)
    if not groups:
      raise AttributeError(name)
    if len(groups) == 1:
      return next(iter(groups))
    k = hc.heap.kind(self.term)
    items = list(groups.items())
    for f, cs in items[:-1]:
      if SymBool(z3.Or(*[k == hc.table.code[c] for c in cs])).__bool__():
        return f
    cur().assume(z3.Or(*[k == hc.table.code[c] for c in items[-1][1]]))
    return items[-1][0]

  def __setattr__(self, name, value):
    hc = hctx()
    self._nonnull(name)
    if name in REF_FIELDS:
      if value is None:
        v = NULL
      elif isinstance(value, SymRef):
        v = value.term
      else:
        raise Unsupported(f"non-reference stored in {name}")
      hc.heap.store(name, self.term, v)
    elif name in ID_FIELDS:
      if value is None:
        v = ID_NONE
      elif isinstance(value, SymId):
        v = value.term
      else:
        raise Unsupported(f"non-id stored in {name}")
      hc.heap.store(name, self.term, v)
    elif name in OPAQUE_FIELDS:
      if isinstance(value, SymOpaque):
        hc.heap.store(name, self.term, value.term)
      else:
        hc.heap.store(name, self.term, z3.FreshConst(Obj, "val"))
    else:
      raise Unsupported(f"assignment to unknown field {name}")

  def __iter__(self):
    hc = hctx()
    if hc.iter_stub is None:
      raise Unsupported("iteration over the children of a symbolic element (no contract installed)")
    return iter(hc.iter_stub(self))

  def __len__(self):
    raise Unsupported("len() of a symbolic element")


class vc_list(list, metaclass=core._ShimMeta):
  """`list` inside rewritten modules: list(element) of a symbolic element is its (symbolic) child list"""
  __real__ = list

  def __new__(cls, x=()):
    if isinstance(x, SymRef):
      return SymChildren(x)
    return list(x)


def vc_type(x, *a):
  if a:
    return type(x, *a)
  if isinstance(x, SymRef):
    return x.vc_type()
  if isinstance(x, Proxy):
    raise Unsupported("type() of a symbolic value")
  return type(x)


def super_call(cls, ref: SymRef, name: str):
  """what `super().name` resolves to for a proxy: the next definition after `cls` in the MRO of the proxy's class"""
  mro = (ref.cls or cls).__mro__
  i = mro.index(cls)
  for c in mro[i + 1:]:
    if name in c.__dict__:
      f = c.__dict__[name]
      return types.MethodType(getattr(f, "__func__", f), ref)
  raise AttributeError(name)
