"""Mechanical loading of the real ttconv sources for symbolic execution.

Every `ttconv.*` module is read from /repo (current working tree) on every run, parsed with `ast`, rewritten by the
purely mechanical transformations listed in REWRITES below, compiled and executed under the module name
`ttconv...` inside the verifier process.  On concrete (non-proxy) values every rewrite is the identity, which is
checked on every run by executing the rewritten functions on concrete inputs next to the untouched ones
(pyvc.crosscheck) -- so the verified text is the code that runs, not a look-alike.
"""
from __future__ import annotations

import ast
import hashlib
import importlib.abc
import importlib.util
import os
import sys
import fractions

from . import core
from . import heap as _heap

REPO = os.environ.get("TTCONV_REPO", "/repo")
SRC = os.path.join(REPO, "src", "main", "python")

REWRITES = [
  "`a is b` / `a is not b`  ->  __vc_is__(a, b) / __vc_is_not__(a, b)   (identity on non-symbolic operands)",
  "module globals `int`, `float`, `isinstance`, `list`, `set`, `dict`, `type` shadowed by shims that are the builtins on non-symbolic operands",
  "module global `Fraction` (if the module imports fractions.Fraction) replaced by a shim, identical on non-symbolic operands",
  "loops named in a contract are cut at their head (invariant/havoc) -- applied per function by pyvc.contracts, not at load time",
  "nothing is dropped: docstrings, annotations, logging calls and all other statements execute as written",
]


class _IsRewriter(ast.NodeTransformer):
  def visit_Compare(self, node: ast.Compare):
    self.generic_visit(node)
    if not any(isinstance(op, (ast.Is, ast.IsNot)) for op in node.ops):
      return node
    if len(node.ops) != 1:
      # chained comparison containing `is`: a is b is c -- keep python semantics by nesting only when all are `is`
      raise SyntaxError("chained `is` comparison not supported by the rewriter")
    fn = "__vc_is__" if isinstance(node.ops[0], ast.Is) else "__vc_is_not__"
    call = ast.Call(func=ast.Name(id=fn, ctx=ast.Load()), args=[node.left, node.comparators[0]], keywords=[])
    return ast.copy_location(call, node)


def rewrite_module(tree: ast.Module) -> ast.Module:
  tree = _IsRewriter().visit(tree)
  ast.fix_missing_locations(tree)
  return tree


SHIM_GLOBALS = {
  "__vc_is__": core.vc_is,
  "__vc_is_not__": core.vc_is_not,
  "int": core.vc_int,
  "float": core.vc_float,
  "isinstance": core.vc_isinstance,
  "list": _heap.vc_list,
  "set": core.vc_set,
  "dict": core.vc_dict,
  "type": _heap.vc_type,
}

_loaded_sources = {}   # module name -> (path, sha256)


class _Loader(importlib.abc.Loader):
  def __init__(self, path, is_pkg):
    self.path = path
    self.is_pkg = is_pkg

  def create_module(self, spec):
    return None

  def exec_module(self, module):
    with open(self.path, "rb") as f:
      data = f.read()
    _loaded_sources[module.__name__] = (self.path, hashlib.sha256(data).hexdigest())
    tree = ast.parse(data, filename=self.path)
    tree = rewrite_module(tree)
    code = compile(tree, self.path, "exec", dont_inherit=True)
    module.__dict__.update(SHIM_GLOBALS)
    module.__file__ = self.path
    exec(code, module.__dict__)
    for k, v in list(module.__dict__.items()):
      if v is fractions.Fraction:
        module.__dict__[k] = core.vc_Fraction


class _Finder(importlib.abc.MetaPathFinder):
  def find_spec(self, fullname, path=None, target=None):
    if fullname != "ttconv" and not fullname.startswith("ttconv."):
      return None
    rel = fullname.split(".")
    base = os.path.join(SRC, *rel)
    if os.path.isdir(base) and os.path.isfile(os.path.join(base, "__init__.py")):
      p = os.path.join(base, "__init__.py")
      spec = importlib.util.spec_from_loader(fullname, _Loader(p, True), origin=p, is_package=True)
      spec.submodule_search_locations = [base]
      return spec
    if os.path.isfile(base + ".py"):
      p = base + ".py"
      return importlib.util.spec_from_loader(fullname, _Loader(p, False), origin=p)
    return None


_installed = False


def install():
  """Install the import hook (idempotent).  Must run before any `import ttconv`."""
  global _installed
  if _installed:
    return
  for name in list(sys.modules):
    if name == "ttconv" or name.startswith("ttconv."):
      raise RuntimeError("ttconv was imported before pyvc.loader.install()")
  sys.meta_path.insert(0, _Finder())
  sys.dont_write_bytecode = True
  _installed = True


def loaded_sources():
  return dict(_loaded_sources)


# ---------------------------------------------------------------------------------------------------------------------
# locating functions in the real source (for evidence: file, line span, sha256 of the segment)


def locate(qualname: str):
  """qualname = 'ttconv.time_code:SmpteTimeCode.from_frames' -> dict(file, lines, sha256) from the current tree."""
  mod, _, qn = qualname.partition(":")
  path = os.path.join(SRC, *mod.split(".")) + ".py"
  if not os.path.isfile(path):
    path = os.path.join(SRC, *mod.split("."), "__init__.py")
  with open(path, "r", encoding="utf-8") as f:
    src = f.read()
  tree = ast.parse(src)
  node = tree
  for part in qn.split("."):
    if part == "<locals>":
      continue
    found = None
    for child in ast.walk(node) if isinstance(node, (ast.FunctionDef, ast.AsyncFunctionDef)) else ast.iter_child_nodes(node):
      if isinstance(child, (ast.FunctionDef, ast.AsyncFunctionDef, ast.ClassDef)) and child.name == part and child is not node:
        found = child
        break
    if found is None:
      raise LookupError(f"{qualname}: `{part}` not found in {path}")
    node = found
  seg = ast.get_source_segment(src, node) or ""
  return {"qualname": qualname, "file": os.path.relpath(path, REPO), "lines": [node.lineno, node.end_lineno],
          "sha256": hashlib.sha256(seg.encode()).hexdigest()[:16], "loops": sum(isinstance(n, (ast.For, ast.While)) for n in ast.walk(node))}
