"""Regular-expression stubs (assumption A-RE): a compiled pattern of the real module is replaced, for one placeholder
subject string, by a match object whose named groups are *symbolic digit strings*: `int(group)` is a symbolic integer ranging
over exactly the numbers the group's own sub-pattern can spell (read from the real pattern with sre_parse on every run).
Every other subject string is matched by the real pattern.  What is assumed: a group matches its own sub-pattern, and
`int()` of a string of decimal digits is the number it spells."""
from __future__ import annotations

import re
try:
  import re._parser as sre_parse      # python >= 3.11
except ImportError:                    # pragma: no cover
  import sre_parse

import z3

from . import core
from .core import Proxy, SymInt, Unsupported


class SymDigits(Proxy):
  """a string of decimal digits of symbolic content"""
  __slots__ = ("value", "name")

  def __init__(self, value: SymInt, name: str):
    self.value = value
    self.name = name

  def vc_int(self):
    return self.value

  def __bool__(self):
    return True       # the group matched at least one digit

  def __hash__(self):
    raise Unsupported("hash of a symbolic digit string")

  def __eq__(self, other):
    raise Unsupported("comparison of a symbolic digit string")


def digit_groups(pattern: str):
  """named group -> (min_digits, max_digits or None) for groups of the form [0-9]{m,n} / \\d{m,n}; other groups are absent"""
  out = {}
  parsed = sre_parse.parse(pattern)
  names = {v: k for k, v in parsed.state.groupdict.items()}

  def is_digit_class(item):
    op, av = item
    if op is sre_parse.IN:
      return all((o is sre_parse.RANGE and a == (48, 57)) or (o is sre_parse.CATEGORY and a is sre_parse.CATEGORY_DIGIT) for o, a in av)
    return False

  def walk(seq):
    for op, av in seq:
      if op is sre_parse.SUBPATTERN:
        gid, _, _, sub = av
        if gid in names and len(sub) == 1 and sub[0][0] in (sre_parse.MAX_REPEAT, sre_parse.MIN_REPEAT):
          lo, hi, body = sub[0][1]
          if len(body) == 1 and is_digit_class(body[0]):
            out[names[gid]] = (lo, None if hi == sre_parse.MAXREPEAT else hi)
        walk(sub)
      elif op in (sre_parse.MAX_REPEAT, sre_parse.MIN_REPEAT):
        walk(av[2])
      elif op is sre_parse.BRANCH:
        for alt in av[1]:
          walk(alt)
  walk(parsed)
  return out


class StubMatch:
  def __init__(self, groups):
    self._g = groups

  def group(self, *names):
    if not names:
      return self._g[0]
    if len(names) == 1:
      return self._g[names[0]]
    return tuple(self._g[n] for n in names)

  def groups(self, default=None):
    ks = sorted(k for k in self._g if isinstance(k, int) and k > 0)
    return tuple(self._g[k] if self._g[k] is not None else default for k in ks)

  def __getitem__(self, n):
    return self._g[n]

  def groupdict(self):
    return dict(self._g)


class StubRegex:
  """stands for a compiled pattern of the repository; `placeholders`: subject string -> {group: SymDigits | None}"""

  def __init__(self, real, placeholders):
    self._real = real
    self._ph = placeholders
    self.pattern = real.pattern

  def _m(self, how, s, *a):
    key = s.strip("\r\n") if isinstance(s, str) else s
    if key in self._ph:
      return StubMatch(self._ph[key])
    return getattr(self._real, how)(s, *a)

  def search(self, s, *a): return self._m("search", s, *a)
  def match(self, s, *a): return self._m("match", s, *a)
  def fullmatch(self, s, *a): return self._m("fullmatch", s, *a)

  def __getattr__(self, n):
    return getattr(self._real, n)


def symbolic_groups(real, prefix="", absent=()):
  """fresh symbolic digit strings for every digit group of the real pattern (constrained to what the group can spell)"""
  groups = {}
  info = digit_groups(real.pattern)
  for name in real.groupindex:
    if name in absent:
      groups[name] = None
      continue
    if name not in info:
      raise Unsupported(f"group {name} of {real.pattern!r} is not a digit group")
    lo, hi = info[name]
    v = core.sym_int(prefix + name)
    core.assume(v >= 0)
    if hi is not None:
      core.assume(v < 10 ** hi)
    groups[name] = SymDigits(v, prefix + name)
  return groups, info


_NOMATCH = object()


class StubReModule:
  """stands for the `re` module inside one repository module: compile(p) gives a StubRegex for the patterns listed in
  `table` = {pattern string: {subject: groups-dict | None (the pattern does not match that subject)}}"""

  def __init__(self, table):
    self._table = table

  def compile(self, pattern, flags=0):
    real = re.compile(pattern, flags)
    ph = self._table.get(pattern)
    if ph is None:
      return real
    return _StubRegex2(real, ph)

  def __getattr__(self, n):
    return getattr(re, n)


class _StubRegex2(StubRegex):
  def _m(self, how, s, *a):
    key = s.strip("\r\n") if isinstance(s, str) else s
    if key in self._ph:
      g = self._ph[key]
      return None if g is None else StubMatch(g)
    return getattr(self._real, how)(s, *a)


class TokenRegex:
  """stands for a compiled pattern of the repository when the SUBJECT may contain format tokens (text written earlier in the same
  symbolic run, e.g. a time attribute `⟦sym3⟧:⟦sym4⟧:⟦sym5⟧.⟦sym6⟧`): every token is replaced by as many `0` digits as its format's
  minimum width, the real pattern decides on that text, and the groups are returned as the corresponding pieces of the ORIGINAL
  subject (tokens intact), so that int() / Fraction() of a group go through core.number_from_text.  Assumes that a formatted value
  fills exactly its minimum width (checked where the number is read: core._token_digits) and that the pattern treats all digits
  alike.  Subjects without tokens go to the real pattern."""

  def __init__(self, real):
    self._real = real
    self.pattern = real.pattern

  def _m(self, how, s, *a):
    if not core.has_tokens(s):
      return getattr(self._real, how)(s, *a)
    pieces = re.split("(\u27e6sym[0-9]+\u27e7)", s)
    concrete, spans = "", []          # spans: (start in concrete, end in concrete, original piece)
    for p in pieces:
      if p.startswith("\u27e6sym"):
        _val, spec = core.cur().tokens[int(p[4:-1])]
        sm = re.fullmatch("0?([0-9]*)d?", spec or "")
        if sm is None:
          raise Unsupported(f"token with format {spec!r} in a matched subject")
        rep = "0" * int(sm.group(1) or "1")
      else:
        rep = p
      spans.append((len(concrete), len(concrete) + len(rep), p))
      concrete += rep
    m = getattr(self._real, how)(concrete, *a)
    if m is None:
      return None

    def original(lo, hi):
      out = ""
      for (a0, a1, p) in spans:
        if a1 <= lo or a0 >= hi:
          continue
        if p.startswith("\u27e6sym"):
          if not (lo <= a0 and a1 <= hi):
            raise Unsupported("a group boundary falls inside a formatted value")
          out += p
        else:
          out += p[max(lo, a0) - a0: min(hi, a1) - a0]
      return out

    groups = {0: original(*m.span(0))}
    for i in range(1, (self._real.groups or 0) + 1):
      groups[i] = None if m.group(i) is None else original(*m.span(i))
    for name, i in self._real.groupindex.items():
      groups[name] = groups[i]
    return StubMatch(groups)

  def search(self, s, *a): return self._m("search", s, *a)
  def match(self, s, *a): return self._m("match", s, *a)
  def fullmatch(self, s, *a): return self._m("fullmatch", s, *a)

  def __getattr__(self, n):
    return getattr(self._real, n)
