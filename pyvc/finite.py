"""Counter-examples for quantified heap obligations.

The quantified encoding is good for proofs (E-matching) and hopeless for models, so an obligation that is not discharged is
re-posed over an explicit finite universe of N objects: every quantifier over Ref is expanded over {null, o1..oN}, every
quantifier over ids over {id_none, i1..iK}, and the pre-state heap is closed (every reference field of every object points
into the universe).  A `sat` answer is then a complete concrete heap that satisfies the invariant, takes the path, and
violates the goal -- a genuine counter-example to the contract (a state the representation invariant admits), which the
replayer rebuilds with real objects.  `unsat` for this N proves nothing and is reported as undecided."""
from __future__ import annotations

import itertools
from typing import List

import z3

from .heap import Ref, IdS, Obj, NULL, ID_NONE


def _consts(fs):
  """uninterpreted constants and function declarations occurring in the formulas"""
  seen, consts, funcs = set(), {}, {}
  stack = list(fs)
  while stack:
    t = stack.pop()
    if t.get_id() in seen:
      continue
    seen.add(t.get_id())
    if z3.is_quantifier(t):
      stack.append(t.body())
      continue
    if z3.is_app(t):
      d = t.decl()
      if d.kind() == z3.Z3_OP_UNINTERPRETED:
        if d.arity() == 0:
          consts[d.name()] = t
        else:
          funcs[d.name()] = d
      stack.extend(t.children())
  return consts, funcs


def finite_query(pc: list, goal, n_objs=4, n_ids=3):
  """-> (solver, universe objects, universe ids)"""
  objs = [z3.Const(f"o{i + 1}", Ref) for i in range(n_objs)]
  ids = [z3.Const(f"i{i + 1}", IdS) for i in range(n_ids)]
  dom_ref = [NULL] + objs
  dom_id = [ID_NONE] + ids

  def dom(sort):
    if sort == Ref:
      return dom_ref
    if sort == IdS:
      return dom_id
    return None

  def expand(f):
    if z3.is_quantifier(f):
      if not f.is_forall():
        raise ValueError("unexpected existential quantifier")
      n = f.num_vars()
      doms = []
      for i in range(n):
        d = dom(f.var_sort(i))
        if d is None:
          raise ValueError("quantifier over an unsupported sort")
        doms.append(d)
      body = f.body()
      insts = []
      for combo in itertools.product(*doms):
        # var_sort(i) is the i-th bound variable in binding order; de Bruijn index 0 is the innermost (last) one
        insts.append(expand(z3.substitute_vars(body, *reversed(combo))))
      return z3.And(*insts) if insts else z3.BoolVal(True)
    if z3.is_app(f) and f.num_args() > 0 and f.sort() == z3.BoolSort():
      ch = [expand(c) if c.sort() == z3.BoolSort() else c for c in f.children()]
      return f.decl()(*ch)
    return f

  hyps = [expand(c) for c in pc]
  g = expand(goal)
  s = z3.Solver()
  s.add(z3.Distinct(*dom_ref))
  s.add(z3.Distinct(*dom_id))
  for h in hyps:
    s.add(h)
  s.add(z3.Not(g))
  consts, funcs = _consts(list(pc) + [goal])
  in_ref = lambda t: z3.Or(*[t == d for d in dom_ref])   # noqa: E731
  in_id = lambda t: z3.Or(*[t == d for d in dom_id])     # noqa: E731
  for name, c in consts.items():
    srt = c.sort()
    if srt == Ref and name != "null":
      s.add(in_ref(c))
    elif srt == IdS and name != "id_none":
      s.add(in_id(c))
    elif isinstance(srt, z3.ArraySortRef) and srt.domain() == Ref:
      rng = srt.range()
      for o in objs:
        if rng == Ref:
          s.add(in_ref(z3.Select(c, o)))
        elif rng == IdS:
          s.add(in_id(z3.Select(c, o)))
        elif isinstance(rng, z3.ArraySortRef) and rng.domain() == IdS and rng.range() == Ref:
          for i in dom_id:
            s.add(in_ref(z3.Select(z3.Select(c, o), i)))
  for name, d in funcs.items():
    if d.arity() == 1 and d.domain(0) == Ref and d.range() == Ref:
      for o in objs:
        s.add(in_ref(d(o)))
  return s, objs, ids, consts, funcs


def refute(pc: list, goal, sizes=((3, 2), (4, 3)), timeout_ms=20000):
  """-> (status, model dict) with status in {"sat", "unsat", "unknown"}"""
  last = "unknown"
  for n_objs, n_ids in sizes:
    try:
      s, objs, ids, consts, funcs = finite_query(pc, goal, n_objs, n_ids)
    except ValueError as e:
      return "unknown", {"error": str(e)}
    s.set("timeout", timeout_ms)
    r = s.check()
    if r == z3.sat:
      m = s.model()
      names = {str(m.eval(o, model_completion=True)): f"o{k + 1}" for k, o in enumerate(objs)}
      names[str(m.eval(NULL, model_completion=True))] = "null"
      idn = {str(m.eval(i, model_completion=True)): f"i{k + 1}" for k, i in enumerate(ids)}
      idn[str(m.eval(ID_NONE, model_completion=True))] = "none"

      def val(t):
        v = m.eval(t, model_completion=True)
        if t.sort() == Ref:
          return names.get(str(v), str(v))
        if t.sort() == IdS:
          return idn.get(str(v), str(v))
        return str(v)

      out = {"universe": [f"o{k + 1}" for k in range(n_objs)], "consts": {}, "objects": {}}
      for name, c in consts.items():
        if c.sort() in (Ref, IdS) and name not in ("null", "id_none"):
          out["consts"][name] = val(c)
      kind = funcs.get("kind")
      for k, o in enumerate(objs):
        d = {}
        if kind is not None:
          d["kind"] = val(kind(o))
        for name, c in consts.items():
          srt = c.sort()
          if isinstance(srt, z3.ArraySortRef) and srt.domain() == Ref and name.startswith("h0"):
            rng = srt.range()
            f = name[2:]
            if rng in (Ref, IdS):
              d[f] = val(z3.Select(c, o))
            elif isinstance(rng, z3.ArraySortRef) and rng.domain() == IdS and rng.range() == Ref:
              d[f] = {idn[str(m.eval(i, model_completion=True))]: val(z3.Select(z3.Select(c, o), i)) for i in [ID_NONE] + ids}
        out["objects"][f"o{k + 1}"] = d
      return "sat", out
    last = "unsat" if r == z3.unsat else "unknown"
  return last, {}
