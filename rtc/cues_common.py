"""Bounded tier shared by C06 and C07: run-time contracts on srt.writer.from_model / vtt.writer.from_model (and on the
SrtParagraph / VttCue text helpers) against the independent oracle specs/cues.py, over generated canonical-model documents
(rtc/docgen.py, enriched here with markup-significant text, per-span style combinations, region geometry, paragraph alignment
and sub-millisecond timing) x writer configurations.

A document is identified by its generator coordinates (seed, chunk, index, scope) -- see gen_doc -- so that every failure is
replayable (replayers/c06.py, replayers/c07.py).
"""
import difflib
import itertools
import logging
import re
from fractions import Fraction

from rtc.common import Recorder, rng, parallel
from rtc import docgen
from specs import cues as C
from specs import isd as S

import ttconv.model as m
import ttconv.style_properties as sp
from ttconv.isd import ISD
import ttconv.srt.writer as srt_writer
import ttconv.vtt.writer as vtt_writer
from ttconv.srt.config import SRTWriterConfiguration
from ttconv.vtt.config import VTTWriterConfiguration
from ttconv.srt.paragraph import SrtParagraph
from ttconv.vtt.cue import VttCue

SP = sp.StyleProperties
WHITE = (255, 255, 255, 255)

# ----------------------------------------------------------------------------------------------------------------------
# documents

SCOPES = {
  # name: (docgen scope, enrichment options)
  "full": ({}, {}),
  "multi": ({"regions": (2, 3)}, {}),
  "noregion": ({"regions": (0, 0)}, {}),
  "plain": ({"regions": (0, 1), "ruby": False, "animation": False, "display": False}, {"styles": 0.7}),
  "styled": ({"regions": (1, 3), "ruby": False, "animation": False, "display": False, "timing": True},
             {"styles": 0.8, "region_all": True, "extra_divs": True}),
  "regions": ({"regions": (2, 3), "ruby": False, "animation": False, "display": False, "timing": False}, {"region_all": True, "extra_divs": True}),
  "ruby": ({"regions": (0, 3), "animation": False, "display": False}, {"more_ruby": True}),
  "subms": ({"regions": (0, 2), "ruby": False, "animation": False}, {"subms": True}),
}

PIECES = ["x", "y", "é", "xy", " ", " ", "  ", "&", "<", ">", "-", "--", "-->", "\n", "\n\n", "\t", "x-->y", "x<y", "&&", "<<", " \n ", "<x>", "x & y",
          "&lt;", "&amp;", "&#65;", "&#x41;", "&nbsp;", "&x;", "<00:00:01.000>"]      # text that spells a character reference or a timestamp tag
# (text that spells <b>, </i> ... is not generated: SubRip has no escape mechanism, such text IS a tag there)
DELTAS = [Fraction(1, 3000), Fraction(1, 2000), Fraction(1, 4000), Fraction(1, 1000), Fraction(3, 2000), Fraction(2, 3000), Fraction(1, 1250)]


def rand_text(r):
  k = r.random()
  if k < 0.04:
    return r.choice(["x\ry", "\r", "x\r\ny", "x\n\r\ny"])
  return "".join(r.choice(PIECES) for _ in range(r.choice([1, 1, 2, 3, 4])))


def in_ruby(e):
  p = e.parent()
  while p is not None:
    if isinstance(p, m.Ruby):
      return True
    p = p.parent()
  return False


def make_ruby(doc, r, rid):
  """a ruby without timing: <ruby><rb><span>base</span></rb>[<rp>(</rp>]<rt><span>text</span></rt>[<rp>)</rp>]</ruby>"""
  def part(cls, k, text):
    e = cls(doc)
    e.set_id(f"{rid}{k}")
    s = m.Span(doc)
    s.set_id(f"{rid}{k}s")
    if r.random() < 0.3:
      s.set_style(SP.FontWeight, sp.FontWeightType.bold)
    s.push_child(m.Text(doc, text))
    e.push_child(s)
    return e

  ru = m.Ruby(doc)
  ru.set_id(rid)
  base, ann = r.choice(["BASE", "ba se", "B&B", "漢字"]), r.choice(["rt", "r t", "かん"])
  k = r.random()
  if k < 0.12:
    # an annotation without content (model API), or one that is flowed into another region: the base must still be written
    rt = m.Rt(doc)
    rt.set_id(f"{rid}t")
    ru.push_children([part(m.Rb, "b", base), rt])
  elif k < 0.24:
    rt = part(m.Rt, "t", ann)
    regs = list(doc.iter_regions())
    if regs:
      rt.set_region(r.choice(regs))
    ru.push_children([part(m.Rb, "b", base), rt])
  elif k < 0.6:
    ru.push_children([part(m.Rb, "b", base), part(m.Rt, "t", ann)])
  else:
    ru.push_children([part(m.Rb, "b", base), part(m.Rp, "p", "("), part(m.Rt, "t", ann), part(m.Rp, "q", ")")])
  return ru


def simple_div(doc, r, did, n_p):
  d = m.Div(doc)
  d.set_id(did)
  for k in range(n_p):
    p = m.P(doc)
    p.set_id(f"{did}p{k}")
    s = m.Span(doc)
    s.set_id(f"{did}p{k}s")
    s.push_child(m.Text(doc, r.choice(["Div", "extra", "later"]) + did + str(k)))
    p.push_child(s)
    d.push_child(p)
  return d


def enrich(doc, r, opts):
  """seeded post-processing of a docgen document (see module docstring); also removes what is outside the statement or already
  recorded for other properties"""
  body = doc.get_body()
  if opts.get("extra_divs") and body is not None:
    regs = list(doc.iter_regions())
    for k in range(r.choice([1, 2, 3])):
      d = simple_div(doc, r, f"x{k}", r.choice([1, 1, 2]))
      if regs and r.random() < 0.8:
        d.set_region(r.choice(regs))
      if r.random() < 0.3:
        outer = m.Div(doc)
        outer.set_id(f"x{k}o")
        outer.push_child(d)
        d = outer
      body.push_child(d)
  elements = list(doc.iter_regions()) + (list(body.dfs_iterator()) if body is not None else [])
  for e in elements:
    if isinstance(e, (m.Text, m.Br)):
      continue
    # visibility / opacity: whether hidden text is "visible text" is not decided by the statement -> not generated
    for prop in (SP.Visibility, SP.Opacity):
      if e.has_style(prop):
        e.set_style(prop, None)
    for st in list(e.iter_animation_steps()):
      if st.style_property in (SP.Visibility, SP.Opacity):
        e.remove_animation_step(st)
      elif e.get_begin() not in (None, 0):
        e.remove_animation_step(st)      # known finding of C02 (step instants of an element with a non-zero begin)
    # (ruby parts keep their timing: a ruby whose annotation or base is temporarily inactive)
    if isinstance(e, m.Rp) and not e.has_children():
      s = m.Span(doc)
      s.set_id(e.get_id() + "s")
      s.push_child(m.Text(doc, r.choice(["(", ")"])))
      e.push_child(s)
  p_style = opts.get("styles", 0.35)
  for e in elements:
    if isinstance(e, m.Text):
      if r.random() < 0.45:
        e.set_text(rand_text(r))
    elif isinstance(e, m.Span):
      if r.random() < p_style:
        if r.random() < 0.4:
          e.set_style(SP.FontWeight, r.choice([sp.FontWeightType.bold, sp.FontWeightType.bold, sp.FontWeightType.normal]))
        if r.random() < 0.4:
          e.set_style(SP.FontStyle, r.choice([sp.FontStyleType.italic, sp.FontStyleType.italic, sp.FontStyleType.normal, sp.FontStyleType.oblique]))
        if r.random() < 0.4:
          e.set_style(SP.TextDecoration, r.choice([sp.TextDecorationType(underline=True), sp.TextDecorationType(underline=True),
                                                   sp.TextDecorationType(underline=False), sp.TextDecorationType(line_through=True),
                                                   sp.TextDecorationType(underline=True, line_through=True)]))
        if r.random() < 0.4:
          e.set_style(SP.Color, r.choice([sp.NamedColors.red.value, sp.NamedColors.white.value, sp.ColorType((255, 255, 255, 255)), sp.NamedColors.lime.value,
                                          sp.ColorType((17, 34, 51, 255)), sp.ColorType((1, 2, 3, 128)), sp.NamedColors.black.value,
                                          sp.ColorType((10, 20, 30, 200))]))
        if r.random() < 0.35:
          e.set_style(SP.BackgroundColor, r.choice([sp.NamedColors.blue.value, sp.NamedColors.transparent.value, sp.NamedColors.black.value,
                                                    sp.ColorType((10, 20, 30, 200)), sp.NamedColors.white.value, sp.ColorType((17, 34, 51, 255))]))
    elif isinstance(e, m.P):
      if opts.get("more_ruby") and r.random() < 0.6:
        e.push_child(make_ruby(doc, r, e.get_id() + "r"))
      if r.random() < 0.35:
        e.set_style(SP.TextAlign, r.choice(list(sp.TextAlignType)))
      if r.random() < 0.2:
        e.set_style(SP.Direction, r.choice(list(sp.DirectionType)))
      if r.random() < 0.15 * (2 if "styles" in opts else 1):
        e.set_style(SP.FontWeight, sp.FontWeightType.bold)
      if r.random() < 0.1:
        e.set_style(SP.TextDecoration, sp.TextDecorationType(underline=True))
    elif isinstance(e, m.Region):
      if r.random() < 0.6:
        y = r.choice([0, 5, 10, Fraction(100, 3), 50, 70, Fraction(175, 2)])
        h = r.choice([10, Fraction(25, 2), 10, 5])
        e.set_style(SP.Origin, sp.CoordinateType(x=sp.LengthType(10, sp.LengthType.Units.pct), y=sp.LengthType(y, sp.LengthType.Units.pct)))
        e.set_style(SP.Extent, sp.ExtentType(height=sp.LengthType(h, sp.LengthType.Units.pct), width=sp.LengthType(80, sp.LengthType.Units.pct)))
      if r.random() < 0.5:
        e.set_style(SP.DisplayAlign, r.choice(list(sp.DisplayAlignType)))
      if e.get_begin() in (None, 0) and r.random() < 0.3:
        # the region moves: a cue setting derived from the region must be derived per interval
        b, en = r.choice([None, Fraction(1), Fraction(2)]), r.choice([None, Fraction(3), Fraction(5)])
        ext = e.get_style(SP.Extent)
        ys = [y for y in (0, 20, 60, 85) if ext is not None and ext.height.units is sp.LengthType.Units.pct and y + ext.height.value <= 100]
        if r.random() < 0.5 or not ys:
          e.add_animation_step(m.DiscreteAnimationStep(SP.DisplayAlign, b, en, r.choice(list(sp.DisplayAlignType))))
        else:
          y = r.choice(ys)      # (the region stays inside the root container)
          e.add_animation_step(m.DiscreteAnimationStep(SP.Origin, b, en, sp.CoordinateType(x=sp.LengthType(10, sp.LengthType.Units.pct),
                                                                                          y=sp.LengthType(y, sp.LengthType.Units.pct))))
      if opts.get("region_all"):
        e.set_begin(None)
        e.set_end(None)
  if opts.get("region_all") and body is not None:
    regs = list(doc.iter_regions())
    # make several regions active at the same time: every division gets a region, in rotation
    k = 0
    for d in body:
      if regs and d.get_region() is None:
        d.set_region(regs[k % len(regs)])
        k += 1
  if opts.get("subms"):
    timed = [e for e in elements if not isinstance(e, (m.Text, m.Br)) and (e.get_begin() is not None or e.get_end() is not None)]
    for e in timed:
      if r.random() < 0.3:
        d = r.choice(DELTAS)
        if e.get_end() is not None and r.random() < 0.6:
          e.set_end(e.get_end() + d)
        elif e.get_begin() is not None:
          e.set_begin(e.get_begin() + d)
  return doc


SPLITS = [("--", ">"), ("-", "->"), ("x--", "> y"), ("-", "-", ">"), ("&", "amp;"), ("&", "lt;"), ("&l", "t;"), ("<", "b>"), ("<", "/b>"), ("<b", ">"),
          ("<00:00", ":01.000>"), ("\n", "\n"), ("x\n", "\ny"), (" ", " "), ("x ", " y"), ("&#6", "5;"), ("x\r", "\ny"), ("<", "!--"), ("{", "b}"), ("--", "&gt;")]


def directed_doc(index):
  """markup-significant character sequences split over ADJACENT text nodes (no tag or line break between them in the output when
  the spans are unstyled): `--` + `>`, `&` + `amp;`, `<` + `b>`, LF + LF ...; three layouts per split"""
  if index >= N_SPLITS:
    return EXTRA_DIRECTED[index - N_SPLITS]()
  parts = SPLITS[index % len(SPLITS)]
  layout = (index // len(SPLITS)) % 3
  doc = m.ContentDocument()
  reg = m.Region("r1", doc)
  doc.put_region(reg)
  body = m.Body(doc)
  doc.set_body(body)
  div = m.Div(doc)
  body.push_child(div)
  p = m.P(doc)
  p.set_region(reg)
  p.set_begin(Fraction(0))
  p.set_end(Fraction(2))
  if layout == 1:
    p.set_space(m.WhiteSpaceHandling.PRESERVE)
  div.push_child(p)
  lead = m.Span(doc)
  lead.push_child(m.Text(doc, "left "))
  p.push_child(lead)
  for k, t in enumerate(parts):
    sp_ = m.Span(doc)
    if layout == 2 and k == 1:
      inner = m.Span(doc)        # the second part one level deeper
      inner.push_child(m.Text(doc, t))
      sp_.push_child(inner)
    else:
      sp_.push_child(m.Text(doc, t))
    p.push_child(sp_)
  tail = m.Span(doc)
  tail.push_child(m.Text(doc, " right"))
  p.push_child(tail)
  return doc


def _anim_doc(prop_value, begin):
  """p [begin, 10) with a <set> on the paragraph itself over [1, 2) of ITS OWN time line (display none or a colour)"""
  doc = m.ContentDocument()
  reg = m.Region("r1", doc)
  doc.put_region(reg)
  body = m.Body(doc)
  doc.set_body(body)
  div = m.Div(doc)
  body.push_child(div)
  p = m.P(doc)
  p.set_region(reg)
  p.set_begin(begin)
  p.set_end(Fraction(10))
  p.add_animation_step(m.DiscreteAnimationStep(prop_value[0], Fraction(1), Fraction(2), prop_value[1]))
  div.push_child(p)
  sp_ = m.Span(doc)
  sp_.push_child(m.Text(doc, "hello"))
  p.push_child(sp_)
  return doc


EXTRA_DIRECTED = [lambda: _anim_doc((SP.Display, sp.DisplayType.none), Fraction(5)), lambda: _anim_doc((SP.Color, sp.NamedColors.red.value), Fraction(5)),
                  lambda: _anim_doc((SP.Display, sp.DisplayType.none), Fraction(0)), lambda: _anim_doc((SP.FontWeight, sp.FontWeightType.bold), Fraction(3))]
N_SPLITS = 3 * len(SPLITS)
N_DIRECTED = N_SPLITS + len(EXTRA_DIRECTED)


def gen_doc(info):
  """info = (seed, chunk, index, scope): reproducible generation of one document"""
  seed, chunk, index, scope = info
  if scope == "directed":
    return directed_doc(index)
  dscope, opts = SCOPES[scope]
  r = rng(seed, f"cues/{scope}/{chunk}")
  g = docgen.Gen(r, dscope)
  doc = None
  for _ in range(index + 1):
    doc = g.document()
  return enrich(doc, rng(seed, f"cues-enrich/{scope}/{chunk}/{index}"), opts)


def iter_docs(seed, chunk, count, scope):
  dscope, opts = SCOPES[scope]
  r = rng(seed, f"cues/{scope}/{chunk}")
  g = docgen.Gen(r, dscope)
  for index in range(count):
    doc = g.document()
    yield (seed, chunk, index, scope), enrich(doc, rng(seed, f"cues-enrich/{scope}/{chunk}/{index}"), opts)


# ----------------------------------------------------------------------------------------------------------------------
# writer configurations

SRT_CONFIGS = {"srt": {"text_formatting": True}, "srt:plain": {"text_formatting": False}}
VTT_CONFIGS = {}
for _lp, _ta, _id in itertools.product((False, True), (False, True), (True, False)):
  VTT_CONFIGS["vtt" + (":line" if _lp else "") + (":align" if _ta else "") + ("" if _id else ":noid")] = \
      {"line_position": _lp, "text_align": _ta, "cue_id": _id}
ALL_CONFIGS = dict(SRT_CONFIGS, **VTT_CONFIGS)


def run_writer(doc, cfg_name):
  """-> (text, exception)"""
  opts = ALL_CONFIGS[cfg_name]
  try:
    if cfg_name.startswith("srt"):
      return srt_writer.from_model(doc, SRTWriterConfiguration(**opts)), None
    return vtt_writer.from_model(doc, VTTWriterConfiguration(**opts)), None
  except Exception as e:  # pylint: disable=broad-except
    return None, e


# ----------------------------------------------------------------------------------------------------------------------
# reference data of one document (lazy, shared by all configurations)


class Ref:
  def __init__(self, doc):
    self.doc = doc
    self.cts = S.change_times(doc)
    self._ivs = {}
    self._isd = {}
    self.has_ruby = doc.get_body() is not None and any(isinstance(e, m.Ruby) for e in doc.get_body().dfs_iterator())
    self.has_tie = any(C.is_tie(c) for c in self.cts)
    self.has_unicode_space = doc.get_body() is not None and any(
      isinstance(e, m.Text) and any(ch.isspace() and ch not in C.BLANK_CHARS for ch in e.get_text()) for e in doc.get_body().dfs_iterator())

  def intervals(self, ruby):
    if ruby not in self._ivs:
      self._ivs[ruby] = C.reference_intervals(self.doc, ruby)
    return self._ivs[ruby]

  def variants(self):
    rubies = C.RUBY_MODES if self.has_ruby else ("base",)
    roundings = ("even", "up") if self.has_tie else ("even",)
    for ruby in rubies:
      for rounding in roundings:
        for bl in ("keep", "drop"):
          yield ruby, rounding, bl
    if self.has_unicode_space:
      # second reading of `non-blank`: a cue / a line that holds nothing but Unicode space characters is blank
      for ruby in rubies:
        for rounding in roundings:
          yield ruby, rounding, "drop-wide"
          yield ruby, rounding, "keep-wide"

  def has_short_gap(self):
    return any(C.to_ms(b) <= C.to_ms(a) for a, b in zip(self.cts, self.cts[1:]))

  def time_of(self, begin_ms):
    """the latest change time that rounds to begin_ms"""
    for mode in ("even", "up"):
      ts = [c for c in self.cts if C.to_ms(c, mode) == begin_ms]
      if ts:
        return max(ts)
    return None

  def isd(self, t):
    """tuple tree of the real ISD at t: {region id: (kind, id, kids, element)}, None if from_model raises"""
    if t not in self._isd:
      try:
        isd = ISD.from_model(self.doc, t)
        self._isd[t] = {r.get_id(): isd_tree(r) for r in isd.iter_regions()}
      except Exception:  # pylint: disable=broad-except
        self._isd[t] = None
    return self._isd[t]


def isd_tree(e):
  if isinstance(e, m.Text):
    return ("Text", e.get_text(), e)
  k = "Region" if isinstance(e, ISD.Region) else type(e).__name__
  return (k, e.get_id(), [isd_tree(c) for c in e], e)


# ----------------------------------------------------------------------------------------------------------------------
# reading an output


def read_output(cfg_name, text):
  """-> (cues, problems, classes); cue = {number|id, begin, end, payload, chars, text, markup_problems, settings}"""
  if cfg_name.startswith("srt"):
    cues, problems = C.parse_srt(text)
    classes = {}
    for c in cues:
      c["chars"], c["markup_problems"] = C.srt_markup(c["payload"])
  else:
    doc, problems = C.parse_vtt(text)
    cues, classes = doc["cues"], doc["classes"]
    for c in cues:
      c["chars"], c["markup_problems"] = C.vtt_markup(c["payload"], classes)
  for c in cues:
    c["lines"] = C.line_form(c["chars"])
    c["text"] = C.text_of(c["lines"])
  return cues, problems, classes


# ----------------------------------------------------------------------------------------------------------------------
# C06


def chain_flags(chain):
  kinds = [n[0] for n in chain]
  flags = set()
  if "Ruby" in kinds:
    flags.add("ruby-base")
  if kinds.count("Div") >= 2:
    flags.add("nested-division")
  body = next((n for n in chain if n[0] == "Body"), None)
  top = next((n for n in chain if n[0] == "Div"), None)
  if body is not None and top is not None and body[2] and body[2][0] is not top:
    flags.add("division-after-first")
  return flags


def classify_text(exp_cue, act_text):
  """witness class(es) of a payload difference -> [class].  First by hypothesis: the payload is the required one without the
  characters of one (or several) of the suspect sources; otherwise from the source of the characters a diff finds missing."""
  several_regions = exp_cue.get("bodies", 1) >= 2
  lines = exp_cue["lines"]

  def flags_of(chain):
    f = chain_flags(chain)
    if not several_regions:
      f.discard("division-after-first")      # regions are merged only when there are several
    return f

  order = ("ruby-base", "division-after-first", "nested-division")
  for n in (1, 2, 3):
    for combo in itertools.combinations(order, n):
      kept = [[(ch, chain) for ch, chain in ln if not flags_of(chain) & set(combo)] for ln in lines]
      kept = [ln for ln in kept if ln]
      if C.text_of(kept) == act_text or C.text_of(C.drop_blank_lines(kept)) == act_text:
        return ["text-dropped:" + f for f in combo]
  chars = []
  for k, ln in enumerate(lines):
    if k:
      chars.append((C.NL, None))
    chars += ln
  exp_text = "".join(ch for ch, _ in chars)
  sm = difflib.SequenceMatcher(None, exp_text, act_text, autojunk=False)
  missing, extra = [], 0
  for tag, i1, i2, j1, j2 in sm.get_opcodes():
    if tag in ("delete", "replace"):
      missing += [chars[i] for i in range(i1, i2)]
    if tag in ("insert", "replace"):
      extra += j2 - j1
  real_missing = [(ch, chain) for ch, chain in missing if chain is not None and ch not in C.BLANK_CHARS]
  if real_missing and not extra or (real_missing and sorted(exp_text) != sorted(act_text)):
    flags = set()
    for _, chain in real_missing:
      flags |= flags_of(chain)
    for f in order:
      if f in flags:
        return ["text-dropped:" + f]
    return ["text-dropped:other" if not extra else "text-changed"]
  if sorted(exp_text) == sorted(act_text):
    return ["text-reordered"]
  if extra and not missing:
    return ["text-invented-or-repeated"]
  return ["text-changed"]


def check_c06_output(rec, ref, info, cfg_name, cues, problems=(), text=""):
  fmt = "srt" if cfg_name.startswith("srt") else "vtt"
  contract = f"{fmt}: cues are the non-blank intervals with exactly the visible text"
  config = {"format": fmt, "line_position": ALL_CONFIGS[cfg_name].get("line_position", False)}
  desc = {"gen": info, "config": cfg_name, "doc": docgen.describe(ref.doc)}
  ra = {"gen": list(info), "config": cfg_name}
  actual = [{"begin": c["begin"], "end": c["end"], "text": c["text"]} for c in cues if not C.is_blank(c["text"])]
  blank = [c for c in cues if C.is_blank(c["text"])]
  if blank:
    c = blank[0]
    rec.fail(f"{fmt}:blank-cue", contract, f"[{cfg_name}] cue {c['begin']}-{c['end']} ms has the payload {c['payload']!r}: no non-blank text; "
             f"document {docgen.describe(ref.doc, 700)}", desc, replayer="replayers.c06:replay", replay_args=ra)
  first = None
  primary = None
  for ruby, rounding, bl in ref.variants():
    ivs = ref.intervals(ruby)
    if ivs is None:
      return None
    exp = C.expected_cues(ref.doc, config, ruby, rounding, bl.split("-")[0], intervals=ivs, wide_blank=bl.endswith("-wide"))
    if primary is None:
      primary = exp
    d = C.timeline_diff(exp, actual)
    if d is None:
      rec.evaluated(contract, hash((info, cfg_name)) if exp else None, {"gen": info, "config": cfg_name, "cues": len(exp)} if exp else None, bool(exp))
      return True
    if first is None:
      first = d
  rec.evaluated(contract, hash((info, cfg_name)), None)
  # one failure per witness class present in this output
  classes = {}
  grouped = C.group_same_interval(actual)
  for e in _group_lines(primary):
    a = next((x for x in grouped if x["begin"] == e["begin"]), None) or next((x for x in grouped if x["begin"] <= e["begin"] < x["end"]), None)
    act_text = a["text"] if a is not None else ""
    if a is None and primary[-1]["unbounded"] and grouped and e["begin"] >= grouped[-1]["end"] and e["text"] == grouped[-1]["text"] \
        and grouped[-1]["end"] == actual[-1]["begin"] + 10000:
      continue      # the unbounded tail: ends 10 s after the begin of the last cue written (see timeline_diff)
    if act_text != e["text"] and C.text_of(C.drop_blank_lines(e["lines"])) != act_text:
      for k in classify_text(e, act_text):
        classes.setdefault(k, f"{e['begin']}-{e['end']} ms: payload {act_text!r}, required {e['text']!r}")
  if not classes:
    kind, msg = first
    if kind == "text":
      kind = "text-changed"
    classes[kind] = msg
  if any(code == "stray-text-after-blank-line" for code, _ in problems):
    # an empty line inside a payload ends the cue for a reader: what follows it is lost (the grammar defect itself is C07's)
    lost = "text-lost-after-empty-line" + (":cr" if "\r" in text else "")
    classes = {lost: next(iter(classes.values()))}
  for k, msg in sorted(classes.items()):
    rec.fail(f"{fmt}:{k}", contract, f"[{cfg_name}] {msg}; document {docgen.describe(ref.doc, 700)}", desc,
             observed=[(a["begin"], a["end"], a["text"]) for a in actual][:12], required=[(e["begin"], e["end"], e["text"]) for e in primary][:12],
             replayer="replayers.c06:replay", replay_args=ra)
  return False


def _group_lines(cues):
  out = []
  for c in cues:
    if out and (out[-1]["begin"], out[-1]["end"]) == (c["begin"], c["end"]):
      out[-1] = dict(out[-1], text=out[-1]["text"] + C.NL + c["text"], lines=out[-1]["lines"] + c["lines"])
    else:
      out.append(dict(c))
  return out


def exception_key(ref, err):
  msg = str(err)
  if isinstance(err, ValueError) and "greater than the begin" in msg:
    return "interval-shorter-than-1ms" if ref.has_short_gap() else "begin-not-before-end"
  if isinstance(err, ValueError) and ("ruby" in msg.lower() or "rtc" in msg.lower()):
    return "partial-ruby"
  return re.sub(r"[^A-Za-z]+", "-", msg)[:40].strip("-").lower()


# ----------------------------------------------------------------------------------------------------------------------
# C07


def rgba(v):
  return tuple(v.components) if v is not None else None


def expected_style(chain):
  """computed style of the characters of a text node from the ISD elements around it (chain of tuple nodes, region first)"""
  el = chain[-1][3]
  fw = el.get_style(SP.FontWeight)
  fs = el.get_style(SP.FontStyle)
  td = el.get_style(SP.TextDecoration)
  col = el.get_style(SP.Color)
  bg = None
  for n in chain:
    if n[0] == "Span":
      v = n[3].get_style(SP.BackgroundColor)
      if v is not None and v.components[3] != 0:
        bg = tuple(v.components)
  return {
    "b": fw is sp.FontWeightType.bold,
    "i": True if fs is sp.FontStyleType.italic else (False if fs is sp.FontStyleType.normal else None),   # oblique: either
    "u": bool(td is not None and getattr(td, "underline", False)),
    "color": rgba(col) if col is not None else WHITE,
    "bg": bg,
  }


def style_diffs(fmt, exp_lines, act_lines):
  """-> {class: message}"""
  out = {}
  for el, al in zip(exp_lines, act_lines):
    for (ch, chain), (ach, att) in zip(el, al):
      want = expected_style(chain)
      for name, attr in (("bold", "b"), ("italic", "i"), ("underline", "u")):
        if want[attr] is None or want[attr] == att[attr]:
          continue
        out.setdefault(f"{name}:{'missing' if want[attr] else 'extra'}",
                       f"character {ch!r} of {''.join(c for c, _ in el)!r}: computed {name} is {want[attr]}, tags say {att[attr]}")
      got = att["color"]
      if want["color"] == WHITE:
        if got not in (None, WHITE):
          out.setdefault("color:extra", f"character {ch!r}: computed colour is the default (white), tags give {got}")
        elif got == WHITE and all(c == WHITE for c in att.get("color_stack", ())[:-1]):
          # the default colour may be tagged only where it has to override a colour tag around it; witness class: whether an
          # ancestor of the text computes another colour (the writers tag every text node by its own computed colour, so no
          # enclosing tag exists even then)
          anc = any(n[0] != "Region" and n[3].get_style(SP.Color) is not None and rgba(n[3].get_style(SP.Color)) != WHITE for n in chain[:-1])
          out.setdefault("color:default-tagged" + (":under-coloured-ancestor" if anc else ""),
                         f"character {ch!r} of {''.join(c for c, _ in el)!r}: computed colour is the default (white) and "
                         f"no enclosing tag sets another colour, yet a tag sets white")
      elif got != want["color"]:
        out.setdefault("color:missing" if got is None else "color:wrong", f"character {ch!r} of {''.join(c for c, _ in el)!r}: computed colour {want['color']}, tags give {got}")
      if fmt == "vtt":
        gb = att["bg"] if att["bg"] is not None and att["bg"][3] != 0 else None
        if gb != want["bg"]:
          kind = "missing" if gb is None else ("extra" if want["bg"] is None else "wrong")
          out.setdefault("background:" + kind, f"character {ch!r}: span background {want['bg']}, classes give {gb}")
  return out


def isd_lines(ref, t, ruby, per_region):
  """line forms of the real ISD at t: [(region node, lines)] (per region) or [(None, lines)]"""
  tree = ref.isd(t)
  if tree is None:
    return None
  per = [(node, C.line_form(C.region_tokens(node, ruby))) for node in tree.values()]
  if per_region:
    return per
  lines = []
  for _, ls in per:
    lines += ls
  return [(None, lines)]


def paragraphs_of(lines):
  ps = []
  for ln in lines:
    for _, chain in ln:
      p = next((n for n in chain if n[0] == "P"), None)
      if p is not None and all(p is not q for q in ps):
        ps.append(p)
  return ps


def all_paragraphs(node):
  if isinstance(node, list):
    return [p for n in node for p in all_paragraphs(n)]
  if node[0] == "P":
    return [node]
  if node[0] in ("Region", "Body", "Div"):
    return [p for c in node[2] for p in all_paragraphs(c)]
  return []


def expected_align(ps):
  """alignment keyword(s) a cue made of the paragraphs ps may carry; None when the paragraphs disagree"""
  vals = {(p[3].get_style(SP.TextAlign), p[3].get_style(SP.Direction)) for p in ps}
  if len(vals) != 1:
    return None
  ta, di = next(iter(vals))
  rtl = di is sp.DirectionType.rtl
  if ta is sp.TextAlignType.center:
    return {"center", None}
  if ta is sp.TextAlignType.start:
    return {"start", "right" if rtl else "left"}
  if ta is sp.TextAlignType.end:
    return {"end", "left" if rtl else "right"}
  return None


def expected_line(region_node):
  """(value in percent of the video height, line alignment) from the computed position of a region; None for vertical modes"""
  el = region_node[3]
  wm = el.get_style(SP.WritingMode)
  if wm not in (sp.WritingModeType.lrtb, sp.WritingModeType.rltb):
    return None
  pos = el.get_style(SP.Position)
  ext = el.get_style(SP.Extent)
  if pos is None or ext is None or pos.v_offset.units is not sp.LengthType.Units.rh or ext.height.units is not sp.LengthType.Units.rh:
    return None
  top, h = Fraction(pos.v_offset.value), Fraction(ext.height.value)
  da = el.get_style(SP.DisplayAlign)
  if da is sp.DisplayAlignType.before:
    return top, "start"
  if da is sp.DisplayAlignType.after:
    return top + h, "end"
  return top + h / 2, "center"


def check_c07_output(rec, ref, info, cfg_name, text, cues, problems):
  fmt = "srt" if cfg_name.startswith("srt") else "vtt"
  opts = ALL_CONFIGS[cfg_name]
  desc = {"gen": info, "config": cfg_name, "doc": docgen.describe(ref.doc)}
  ra = {"gen": list(info), "config": cfg_name}

  def fail(key, contract, msg):
    rec.fail(f"{fmt}:{key}", contract, f"[{cfg_name}] {msg}; document {docgen.describe(ref.doc, 600)}", desc, observed=text[:800],
             replayer="replayers.c07:replay", replay_args=ra)

  # grammar
  contract = f"{fmt}: the output parses under the strict grammar"
  per_region = fmt == "vtt" and opts["line_position"]
  numbering = "required" if fmt == "srt" or opts["cue_id"] else "absent"
  probs = list(problems) + C.sequence_problems(cues, numbering, same_interval_ok=per_region)
  broken = any(code == "stray-text-after-blank-line" for code, _ in problems)
  for c in cues:
    if not broken:       # a payload cut short by an empty line leaves tags open: reported once, as the empty line
      probs += c["markup_problems"]
    if fmt == "srt" and any(C._SRT_TIMING.fullmatch(ln) for ln in c["payload"].split(C.NL)):
      probs.append(("timing-line-in-payload", c["payload"]))
  if fmt == "srt" and text and not text.endswith("\n"):
    probs.append(("no-final-eol", text[-20:]))
  rec.evaluated(contract, hash((info, cfg_name)) if cues else None, {"gen": info, "config": cfg_name, "cues": len(cues)} if cues else None, bool(cues))
  seen = set()
  for code, detail in probs:
    if code == "stray-text-after-blank-line":
      code = "empty-line-in-payload"
      if "\r" in text:
        code += ":cr"
    if code in seen:
      continue
    seen.add(code)
    fail("grammar:" + code, contract, f"{code}: {detail}")
  # no tags when formatting is disabled
  if fmt == "srt" and not opts["text_formatting"]:
    contract = "srt: no tags when text formatting is disabled"
    rec.evaluated(contract, hash((info, cfg_name)) if cues else None, None, bool(cues))
    if any(C._SRT_TAG.search(c["payload"]) for c in cues):
      fail("tags-when-formatting-disabled", contract, "tags in " + repr(next(c["payload"] for c in cues if C._SRT_TAG.search(c["payload"]))))
  # styles and settings, cue by cue
  c_style = f"{fmt}: tags enclose exactly the characters with non-default computed style"
  c_set = "vtt: line / align settings agree with the region position and the paragraph alignment"
  k = 0
  while k < len(cues):
    j = k
    while j + 1 < len(cues) and (cues[j + 1]["begin"], cues[j + 1]["end"]) == (cues[k]["begin"], cues[k]["end"]):
      j += 1
    group = [c for c in cues[k:j + 1] if not C.is_blank(c["text"])]
    k = j + 1
    if not group:
      continue
    t = ref.time_of(group[0]["begin"])
    if t is None:
      continue
    matched = None
    rubies = C.RUBY_MODES if ref.has_ruby else ("base",)
    for ruby in rubies:
      per = isd_lines(ref, t, ruby, per_region)
      if per is None:
        break
      for drop in (False, True):
        cand = [(node, C.drop_blank_lines(ls) if drop else ls) for node, ls in per]
        cand = [(node, ls) for node, ls in cand if not C.is_blank(C.text_of(ls))]
        if len(cand) == len(group) and all(C.text_of(ls) == c["text"] for (_, ls), c in zip(cand, group)):
          matched = cand
          break
      if matched:
        break
    if matched is None:
      continue      # the text differs (reported by C06): the cues cannot be paired with regions / characters
    pairs = list(zip(matched, group))
    text_ok = True
    for (node, ls), c in pairs:
      if text_ok and (fmt == "vtt" or opts["text_formatting"]):
        rec.evaluated(c_style, hash((info, cfg_name, c["begin"])), None)
        for cls, msg in sorted(style_diffs(fmt, ls, c["lines"]).items()):
          fail("style:" + cls, c_style, f"cue at {c['begin']} ms {c['payload']!r}: {msg}")
      if fmt != "vtt":
        continue
      st = c["settings"]
      rec.evaluated(c_set, hash((info, cfg_name, c["begin"], "set")), None, opts["line_position"] or opts["text_align"])
      if not opts["line_position"]:
        if "line" in st:
          fail("line:present-when-disabled", c_set, f"cue at {c['begin']} ms carries line:{st['line']} although line_position is off")
      else:
        want = expected_line(node)
        if want is not None:
          v, al = want
          if "line" not in st or st.get("line_value") is None:
            fail("line:missing", c_set, f"cue at {c['begin']} ms has no percentage line setting; region {node[1]} requires line:{float(v):g}%,{al}")
          else:
            if abs(st["line_value"] - v) > Fraction(1, 2):
              fail("line:value", c_set, f"cue at {c['begin']} ms: line:{st['line']}, region {node[1]} computes {float(v):g}% ({al})")
            if st.get("line_align") != al and not (st.get("line_align") is None and al == "start"):
              fail("line:alignment", c_set, f"cue at {c['begin']} ms: line:{st['line']}, region {node[1]} is aligned {al}")
      if not opts["text_align"]:
        if "align" in st:
          fail("align:present-when-disabled", c_set, f"cue at {c['begin']} ms carries align:{st['align']} although text_align is off")
      else:
        # all paragraphs that went into the cue must agree (which one lends its alignment to a merged cue is not stated)
        ps = all_paragraphs(node if node is not None else list((ref.isd(t) or {}).values()))
        want = expected_align(ps) if ps and paragraphs_of(ls) else None
        if want is not None and st.get("align") not in want:
          kind = "missing" if "align" not in st else "wrong"
          merged = ":merged-paragraphs" if len(ps) > 1 and kind == "missing" else ""
          fail(f"align:{kind}{merged}", c_set, f"cue at {c['begin']} ms has align {st.get('align')!r}; its {len(ps)} paragraph(s) compute "
               f"textAlign {ps[0][3].get_style(SP.TextAlign).value} direction {ps[0][3].get_style(SP.Direction).value}: one of {sorted(x or 'none' for x in want)}")


# ----------------------------------------------------------------------------------------------------------------------
# unit contracts on the text helpers of SrtParagraph / VttCue (exhaustive over short strings)


def check_text_helpers(rec, max_len, alphabet="a \n\r"):
  for cls, blank in ((SrtParagraph, "is_only_whitespace"), (VttCue, "is_only_whitespace_or_empty")):
    name = cls.__name__
    contract = f"{name}.normalize_eol leaves no empty line and keeps every other character"
    for n in range(max_len + 1):
      for tup in itertools.product(alphabet, repeat=n):
        s = "".join(tup)
        p = cls(1)
        p.append_text(s)
        is_blank = getattr(p, blank)()
        p.normalize_eol()
        out = p._text      # pylint: disable=protected-access
        rec.evaluated(contract, (name, s), {"text": s, "normalized": out} if n == 4 else None)
        lines = C.split_lines(out)
        want = C.text_of(C.line_form([(c, None) for c in s]))
        got = C.text_of(C.line_form([(c, None) for c in out]))
        if want != got:
          rec.fail(f"{name}.normalize_eol:text-changed", contract, f"normalize_eol({s!r}) = {out!r}: text lines {got!r}, required {want!r}", {"text": s},
                   replayer="replayers.c07:helpers", replay_args={"cls": name, "text": s})
        elif out and "" in lines:
          cr = ":cr" if "\r" in s else ""
          rec.fail(f"{name}.normalize_eol:empty-line{cr}", contract, f"normalize_eol({s!r}) = {out!r} has an empty line (lines {lines})", {"text": s},
                   replayer="replayers.c07:helpers", replay_args={"cls": name, "text": s})
        if bool(is_blank) != C.is_blank(s):
          rec.fail(f"{name}.{blank}", contract, f"{blank}({s!r}) = {is_blank}", {"text": s}, replayer="replayers.c07:helpers",
                   replay_args={"cls": name, "text": s})


def time_grid(r, quick):
  grid = [Fraction(k, 1000) for k in range(0, 3000, 1 if not quick else 7)]
  grid += [Fraction(k, 2000) for k in range(1, 4000, 2 if not quick else 26)]                     # ties
  grid += [Fraction(h * 3600 + mi * 60 + s) + f for h in (0, 1, 9, 10, 99, 100) for mi in (0, 59) for s in (0, 59)
           for f in (Fraction(0), Fraction(1, 2000), Fraction(999, 1000), Fraction(1999, 2000), Fraction(9995, 10000))]
  grid += [Fraction(r.randrange(0, 400000 * 3000), 3000) for _ in range(200 if quick else 3000)]
  return grid


def check_default_end(rec, quick, seed):
  """an unbounded last cue ends 10 s after it begins: one paragraph that begins at b and never ends, through the public writers"""
  contract = "the unbounded last cue ends 10 s after it begins"
  for b in time_grid(rng(seed, "cues-default-end"), quick):
    doc = m.ContentDocument()
    body = m.Body(doc)
    div = m.Div(doc)
    p = m.P(doc)
    p.set_begin(b)
    span = m.Span(doc)
    span.push_child(m.Text(doc, "x"))
    p.push_child(span)
    div.push_child(p)
    body.push_child(div)
    doc.set_body(body)
    for cfg_name in ("srt", "vtt"):
      text, err = run_writer(doc, cfg_name)
      rec.evaluated(contract, (cfg_name, b), {"begin": str(b), "config": cfg_name} if b == 1 else None)
      got = None
      if err is None:
        cues, _, _ = read_output(cfg_name, text)
        got = [(c["begin"], c["end"], c["text"]) for c in cues]
      want = [(C.to_ms(b, mode), C.to_ms(b, mode) + 10000, "x") for mode in ("even", "up")]
      if got is None or not any(got == [w] for w in want):
        rec.fail(f"{cfg_name}:default-end", contract, f"[{cfg_name}] a paragraph that begins at {b} s and never ends gives {got if err is None else repr(err)}, "
                 f"required {want[0]}", {"begin": str(b)}, replayer="replayers.c06:default_end", replay_args={"begin": str(b), "config": cfg_name})


def check_to_string(rec, quick, seed):
  """SrtParagraph / VttCue.to_string raise exactly when the rounded times coincide or are reversed (the equality half is
  not carried by the proof tier: float determinism); the serialised timing line is begin < end"""
  contract = "to_string raises iff the rounded end is not after the rounded begin"
  r = rng(seed, "cues-to-string")
  deltas = [Fraction(0), Fraction(1, 4000), Fraction(1, 2500), Fraction(-1, 2500), Fraction(1, 2000), Fraction(1, 1000), Fraction(-1, 1000),
            Fraction(3, 2000), Fraction(7, 3), Fraction(1, 999)]
  for b in time_grid(r, quick):
    for d in deltas:
      e = b + d
      if e < 0:
        continue
      for cls, fmt in ((SrtParagraph, "srt"), (VttCue, "vtt")):
        p = cls(1)
        p.set_begin(b)
        p.set_end(e)
        p.append_text("x")
        rec.evaluated(contract, (fmt, b, d), {"begin": str(b), "end": str(e)} if (b, d) == (1, Fraction(1, 2000)) else None)
        try:
          out = p.to_string()
        except ValueError:
          out = None
        except Exception as err:  # pylint: disable=broad-except
          out = err
        want_raise = round(e * 1000) <= round(b * 1000)
        ok = (out is None) == want_raise and not isinstance(out, Exception)
        if ok and out is not None:
          text = out if fmt == "srt" else "WEBVTT\n\n" + out
          cues, probs, _ = read_output(fmt, text)
          ok = not probs and len(cues) == 1 and (cues[0]["begin"], cues[0]["end"]) == (round(b * 1000), round(e * 1000))
        if not ok:
          rec.fail(f"{cls.__name__}.to_string", contract, f"{cls.__name__}: begin {b} end {e} (rounded {round(b * 1000)}, {round(e * 1000)} ms) -> "
                   f"{'ValueError' if out is None else repr(out)}", {"begin": str(b), "end": str(e)},
                   replayer="replayers.c07:to_string", replay_args={"kind": fmt, "model": {"b": str(b), "e": str(e)}})


# ----------------------------------------------------------------------------------------------------------------------
# driver

PROP, QUICK, SEED = "C06", True, 0


def check_doc(rec, prop, doc, info, cfg_names):
  return check_doc_on(rec, prop, doc, info, cfg_names)


def check_doc_on(rec, prop, doc, info, cfg_names):
  ref = Ref(doc)
  if ref.intervals("base") is None:
    return "outside"
  for cfg_name in cfg_names:
    fmt = "srt" if cfg_name.startswith("srt") else "vtt"
    text, err = run_writer(doc, cfg_name)
    contract = f"{fmt}: the writer returns"
    if err is not None:
      key = exception_key(ref, err)
      if key == "partial-ruby":
        return "outside"
      rec.evaluated(contract, hash((info, cfg_name)), None)
      rec.fail(f"{fmt}:writer-raises:{type(err).__name__}:{key}", contract,
               f"[{cfg_name}] from_model raised {err!r} on {docgen.describe(doc, 700)}", {"gen": info, "config": cfg_name, "doc": docgen.describe(doc)},
               replayer=f"replayers.{prop.lower()}:replay", replay_args={"gen": list(info), "config": cfg_name})
      continue
    rec.evaluated(contract, hash((info, cfg_name)), None)
    cues, problems, _ = read_output(cfg_name, text)
    sub = Recorder(prop, "", {})
    if prop == "C06":
      check_c06_output(sub, ref, info, cfg_name, cues, problems, text)
    else:
      check_c07_output(sub, ref, info, cfg_name, text, cues, problems)
    if sub.failures and _classify and _passes_without_offset_steps(prop, info, cfg_name):
      # witness class of the known sig-times defect (animation steps of an element with a non-zero begin are resolved against the
      # parent's interval, known_findings.txt C02): the same document without those steps satisfies every contract
      for k in list(sub.failures):
        v = sub.failures.pop(k)
        v["key"] = k + ":animation-step-boundary"
        sub.failures[k + ":animation-step-boundary"] = v
    rec.merge(sub)
  return "ok"


_classify = True


def _passes_without_offset_steps(prop, info, cfg_name):
  global _classify
  doc = gen_doc(tuple(info))
  n = 0
  for e in docgen.all_elements(doc):
    if not isinstance(e, (m.Text, m.Region)) and e.get_begin() not in (None, 0):
      for st in list(e.iter_animation_steps()):
        e.remove_animation_step(st)
        n += 1
  if n == 0:
    return False
  rec2 = Recorder(prop, "", {})
  _classify = False
  try:
    check_doc_on(rec2, prop, doc, info, [cfg_name])
  except Exception:  # pylint: disable=broad-except
    return False
  finally:
    _classify = True
  return not rec2.failures


def configs_for(r, quick):
  names = list(SRT_CONFIGS)
  vtt = sorted(VTT_CONFIGS)
  names += r.sample(vtt, 3) if quick else vtt
  return names


def chunk(job):
  logging.disable(logging.CRITICAL)
  prop, seed, ch, count, scope, quick = job
  rec = Recorder(prop, "", {})
  rc = rng(seed, f"cues-config/{scope}/{ch}")
  skipped = 0
  for info, doc in iter_docs(seed, ch, count, scope):
    names = configs_for(rc, quick)
    if check_doc(rec, prop, doc, info, names) == "outside":
      skipped += 1
  rec.skipped = skipped
  return rec


def units_job(job):
  logging.disable(logging.CRITICAL)
  prop, quick, seed, part = job
  rec = Recorder(prop, "", {})
  if part == "directed":
    for index in range(N_DIRECTED):
      joined = "".join(SPLITS[index % len(SPLITS)]) if index < N_SPLITS else ""
      # SubRip has no escape mechanism: text that spells a tag IS a tag there, so those splits go to the WebVTT writer only
      names = list(VTT_CONFIGS) if joined in ("<b>", "</b>", "{b}") else list(ALL_CONFIGS)
      check_doc(rec, prop, directed_doc(index), (seed, 0, index, "directed"), names)
  elif part == "helpers":
    check_text_helpers(rec, 5 if quick else 7)
  elif part == "default-end":
    check_default_end(rec, quick, seed)
  else:
    check_to_string(rec, quick, seed)
  return rec


def main(prop, per_scope):
  from rtc.common import parse_args
  args = parse_args()
  quick = args.tier == "quick"
  per = {k: v * (1 if quick else 10) for k, v in per_scope.items()}
  rec = Recorder(prop, "seeded random canonical-model documents (rtc/docgen.py + rtc/cues_common.enrich: 0-3 regions, several div/p per region, "
                 "nested spans, br, ruby, xml:space both, text over an alphabet with & < > - --> LF CR TAB and spaces, per-span "
                 "fontWeight/fontStyle/textDecoration/color/backgroundColor, paragraph textAlign/direction, region origin/extent/displayAlign, "
                 "sub-millisecond timing offsets) x writer configurations (SRT text_formatting on/off; WebVTT line_position x text_align x "
                 "cue_id: 3 of 8 per document in the quick tier, all 8 in the thorough tier); a case is non-trivial when the output has cues",
                 {"documents_per_scope": {k: v * CHUNKS for k, v in per.items()}, "scopes": list(per), "chunks_per_scope": CHUNKS,
                  "unit_contracts": "default end over a grid of begin times (ms grid, ties, hour/minute boundaries, random thirds of ms)" if prop == "C06"
                  else "normalize_eol / blank test over all strings up to length 5 (quick) / 7 over {a, space, LF, CR}; to_string over the same grid of "
                       "begin times x 10 interval lengths around 0, 0.5 and 1 ms"})
  jobs = [(prop, args.seed, ch, per[scope], scope, quick) for scope in per for ch in range(CHUNKS)]
  units = [(prop, quick, args.seed, part) for part in (("default-end", "directed") if prop == "C06" else ("helpers", "to-string", "directed"))]
  parts = parallel(job, jobs + units)
  skipped = 0
  for part in parts:
    rec.merge(part)
    skipped += getattr(part, "skipped", 0)
  rec.scope["documents_outside_the_statement_skipped"] = skipped
  return rec.dump(args.out)


CHUNKS = 8


def job(j):
  return units_job(j) if len(j) == 4 else chunk(j)
