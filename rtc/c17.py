"""C17: run-time contracts on the real SccWord / code tables / disassembly / SccLine.process, evaluated on EVERY value of the
finite input domain (all 65,536 words, both show_channel values, all three channel states) -- complete for that domain.
The oracle is specs/cea608.py (bit fields and ranges of CEA-608, not an enumeration of ttconv's tables)."""
import itertools
import logging
import sys
from fractions import Fraction

from rtc.common import Recorder, parse_args, rng
from specs import cea608 as S

from ttconv.scc.word import SccWord
from ttconv.scc.line import SccLine
from ttconv.scc.codes import SccChannel
from ttconv.scc.codes.attribute_codes import SccAttributeCode
from ttconv.scc.codes.control_codes import SccControlCode
from ttconv.scc.codes.extended_characters import SccExtendedCharacter
from ttconv.scc.codes.mid_row_codes import SccMidRowCode
from ttconv.scc.codes.preambles_address_codes import SccPreambleAddressCode
from ttconv.scc.codes.special_characters import SccSpecialCharacter
from ttconv.scc.disassembly import get_scc_word_disassembly
from ttconv.style_properties import FontStyleType
from ttconv.time_code import SmpteTimeCode, FPS_30


def real_class(w: SccWord):
  code = w.get_code()
  if code is None:
    if w.value == 0:
      return S.PADDING
    if w.byte_1 >= 0x20:
      return S.PRINTABLE
    return S.UNKNOWN
  return {SccPreambleAddressCode: S.PAC, SccMidRowCode: S.MIDROW, SccControlCode: S.CONTROL, SccAttributeCode: S.ATTRIBUTE,
          SccSpecialCharacter: S.SPECIAL, SccExtendedCharacter: S.EXTENDED}[type(code)]


def chan(c):
  return {None: None, SccChannel.CHANNEL_1: 1, SccChannel.CHANNEL_2: 2}[c]


def rgb(color):
  return None if color is None else tuple(color.components[:3])


def describe(w: SccWord):
  """everything observable about a decoded word (used for the parity-independence contract)"""
  code = w.get_code()
  d = [real_class(w), chan(w.get_channel()), w.to_text() if code is None else None]
  if isinstance(code, SccPreambleAddressCode):
    d += [code.get_row(), code.get_indent(), rgb(code.get_color()), code.get_font_style(), code.get_text_decoration()]
  elif code is not None:
    d += [code.name]
  return d


class MockContext:
  """records every call SccLine.process makes on the decoder context"""

  def __init__(self, channel):
    self.previous_word = None
    self.previous_word_type = None
    self.current_channel = channel
    self.calls = []

  def __getattr__(self, name):
    if name.startswith("process_") or name == "backspace":
      def rec(*a, **k):
        self.calls.append(name)
      return rec
    raise AttributeError(name)


def words_chunk(chunk):
  lo, hi = chunk
  logging.disable(logging.CRITICAL)
  rec = Recorder("C17", "", {})
  reps = {}
  _words(rec, reps, range(lo, hi))
  rec.reps = reps
  return rec


def main():
  args = parse_args()
  quick = args.tier == "quick"
  logging.disable(logging.CRITICAL)
  rec = Recorder("C17", "every 16-bit word value (with and without parity bits) x every contract below; lines of 2-4 words over one "
                 "representative word per class; a case is non-trivial when it is a distinct (contract, word) pair",
                 {"words": 65536, "line_words": "one per class, all lines of length 1..4" if quick else "two per class, all lines of length 1..4"})
  from rtc.common import parallel
  reps = {}
  for part in parallel(words_chunk, [(i * 4096, (i + 1) * 4096) for i in range(16)]):
    rec.merge(part)
    for k_, v_ in part.reps.items():
      reps.setdefault(k_, []).extend(v_)
  rec.exhaustive = True
  _lines(rec, reps, quick, args.seed)
  _pairs(rec, reps)
  return rec.dump(args.out)


def _words(rec, reps, values):
  finders = [SccControlCode.find, SccAttributeCode.find, SccMidRowCode.find, None, SccSpecialCharacter.find, SccExtendedCharacter.find]
  for v in values:
    raw1, raw2 = v >> 8, v & 0xFF
    b1, b2 = raw1 & 0x7F, raw2 & 0x7F
    try:
      w = SccWord.from_value(v)
    except Exception as e:  # pylint: disable=broad-except
      rec.fail("decode-total", "decode total", f"SccWord.from_value({v:#06x}) raised {e!r}", {"word": f"{v:04x}"})
      continue
    cls, ch, field, det = S.classify(b1, b2)
    got = real_class(w)
    rec.evaluated("class==CEA-608 class", v, {"word": f"{v:04x}", "class": got})
    key_w = {"word": f"{v:04x}"}
    if got != cls:
      rec.fail(f"class:{cls}->{got}", "class==CEA-608 class", f"word {v:04x} decoded as {got}, CEA-608: {cls}", key_w,
               observed=got, required=cls, replayer="replayers.c17:word", replay_args=key_w)
      continue
    reps.setdefault(cls, []).append(v)
    # exactly one table claims the word
    n = 0
    if 0x10 <= b1 <= 0x1F:
      val = b1 * 256 + b2
      for f in finders:
        r = SccPreambleAddressCode.find(b1, b2) if f is None else f(val)
        n += r is not None
    rec.evaluated("exactly one code table matches", v)
    want_n = 1 if cls in (S.PAC, S.MIDROW, S.CONTROL, S.ATTRIBUTE, S.SPECIAL, S.EXTENDED) else 0
    if n != want_n:
      rec.fail("ambiguous-lookup", "exactly one code table matches", f"word {v:04x}: {n} tables match, expected {want_n}", key_w,
               replayer="replayers.c17:word", replay_args=key_w)
    # parity independence
    rec.evaluated("parity bits ignored", v)
    if describe(w) != describe(SccWord.from_bytes(b1, b2)) or describe(w) != describe(SccWord.from_str(f"{v:04x}")):
      rec.fail("parity", "parity bits ignored", f"word {v:04x} decodes differently from {b1:02x}{b2:02x}", key_w,
               replayer="replayers.c17:word", replay_args=key_w)
    # channel
    rec.evaluated("channel==CEA-608 channel", v)
    if chan(w.get_channel()) != ch:
      rec.fail(f"channel:{cls}", "channel==CEA-608 channel", f"word {v:04x} ({cls}) attributed to channel {chan(w.get_channel())}, CEA-608: {ch} (field {field})",
               key_w, replayer="replayers.c17:word", replay_args=key_w)
    code = w.get_code()
    # attributes and characters
    if cls == S.PAC:
      rec.evaluated("PAC attributes", v)
      ok = code.get_row() == det["row"] and code.get_indent() == det["indent"] and \
          (code.get_font_style() is FontStyleType.italic) == det["italic"] and \
          ((code.get_text_decoration() is not None and code.get_text_decoration().underline is True) == det["underline"]) and \
          ((code.get_color() is not None and S.rgb_ok(det["color"], rgb(code.get_color()))) or (det["indent"] is not None and code.get_color() is None))
      if not ok:
        rec.fail("pac-attributes", "PAC attributes", f"PAC {v:04x}: row {code.get_row()} indent {code.get_indent()} color {rgb(code.get_color())} "
                 f"style {code.get_font_style()} deco {code.get_text_decoration()}; CEA-608: {det}", key_w, replayer="replayers.c17:word", replay_args=key_w)
    elif cls == S.MIDROW:
      rec.evaluated("mid-row attributes", v)
      ok = ((code.get_color() is None) if det["color"] is None else (code.get_color() is not None and S.rgb_ok(det["color"], rgb(code.get_color())))) and \
          ((code.get_font_style() is FontStyleType.italic) == det["italic"]) and \
          ((code.get_text_decoration() is not None and code.get_text_decoration().underline is True) == det["underline"])
      if not ok:
        rec.fail("midrow-attributes", "mid-row attributes", f"mid-row {v:04x}: {rgb(code.get_color())} {code.get_font_style()} {code.get_text_decoration()}; CEA-608: {det}",
                 key_w, replayer="replayers.c17:word", replay_args=key_w)
    elif cls == S.CONTROL:
      rec.evaluated("control code identity", v)
      if code.get_name() != det["name"]:
        rec.fail("control-name", "control code identity", f"control {v:04x} decoded as {code.get_name()}, CEA-608: {det['name']}", key_w,
                 replayer="replayers.c17:word", replay_args=key_w)
    elif cls == S.ATTRIBUTE:
      rec.evaluated("attribute code", v)
      comps = tuple(code.get_color().components)
      underlined = code.get_text_decoration() is not None and code.get_text_decoration().underline is True
      if det["color"] == "transparent":
        ok = comps[3] == 0 and code.is_background() and not underlined        # background codes carry no underline bit (bit 0 = semi-transparent)
      elif det["background"]:
        ok = code.is_background() and S.rgb_ok(det["color"], comps[:3]) and (comps[3] == 0xFF) == (not det["semi"]) and comps[3] in (0xFF, 0x88) and not underlined
      else:
        ok = (not code.is_background()) and comps[:3] == S.RGB["black"] and \
            ((code.get_text_decoration() is not None and code.get_text_decoration().underline is True) == det["underline"])
      if not ok:
        rec.fail("attribute-code", "attribute code", f"attribute {v:04x}: {code.name} {comps} bg={code.is_background()} decoration={code.get_text_decoration()}; CEA-608: {det}", key_w,
                 replayer="replayers.c17:word", replay_args=key_w)
    elif cls == S.SPECIAL:
      rec.evaluated("special character", v)
      if code.get_unicode_value() not in S.accept(S.SPECIAL_CHARS[det["index"]]):
        rec.fail("special-char", "special character", f"special {v:04x} -> {code.get_unicode_value()!r}, CEA-608: {S.SPECIAL_CHARS[det['index']]!r}", key_w,
                 replayer="replayers.c17:word", replay_args=key_w)
    elif cls == S.EXTENDED:
      rec.evaluated("extended character", v)
      if code.get_unicode_value() not in S.accept(S.EXTENDED_CHARS[det["index"]]):
        rec.fail("extended-char", "extended character", f"extended {v:04x} -> {code.get_unicode_value()!r}, CEA-608: {S.EXTENDED_CHARS[det['index']]!r}", key_w,
                 replayer="replayers.c17:word", replay_args=key_w)
    elif cls == S.PRINTABLE:
      rec.evaluated("standard characters", v)
      txt = w.to_text()
      want = [S.standard_char(b) for b in (b1, b2) if b != 0]
      if len(txt) != len(want) or any(c not in a for c, a in zip(txt, want)):
        rec.fail("standard-char", "standard characters", f"word {v:04x} -> {txt!r}, CEA-608: {want}", key_w, replayer="replayers.c17:word", replay_args=key_w)
    # disassembly renders every word
    for show in (False, True):
      rec.evaluated("disassembly renders the word", (v, show))
      try:
        dis = get_scc_word_disassembly(w, show)
      except Exception as e:  # pylint: disable=broad-except
        dis = None
        rec.fail("disassembly-raises", "disassembly renders the word", f"get_scc_word_disassembly({v:04x}, {show}) raised {e!r}", key_w,
                 replayer="replayers.c17:word", replay_args=key_w)
      if dis is not None and (not isinstance(dis, str) or dis == ""):
        rec.fail("disassembly-empty", "disassembly renders the word", f"empty disassembly for {v:04x} (show_channel={show})", key_w,
                 replayer="replayers.c17:word", replay_args=key_w)
      if dis and show and cls in (S.PAC, S.MIDROW, S.ATTRIBUTE, S.SPECIAL, S.EXTENDED) and f"CC{ch}" not in dis:
        rec.fail("disassembly-channel", "disassembly renders the word", f"disassembly of {v:04x} is {dis!r}, expected channel CC{ch}", key_w,
                 replayer="replayers.c17:word", replay_args=key_w)
      if dis and show and cls == S.CONTROL:
        # a control code of field 1 is labelled with its channel; a field-2 control code belongs to neither channel and must not be given one
        named = [c for c in ("CC1", "CC2") if c in dis]
        if (ch is not None and named != [f"CC{ch}"]) or (ch is None and named):
          rec.fail("disassembly-channel", "disassembly renders the word", f"disassembly of control code {v:04x} is {dis!r}, "
                   f"expected {'channel CC%d' % ch if ch is not None else 'no channel (field-2 code)'}", key_w, replayer="replayers.c17:word", replay_args=key_w)
    # only channel-1 field-1 data reaches the decoder
    for state in (None, SccChannel.CHANNEL_1, SccChannel.CHANNEL_2):
      ctx = MockContext(state)
      line = SccLine(SmpteTimeCode(0, 0, 0, 0, FPS_30), [w])
      try:
        line.process(ctx)
      except Exception as e:  # pylint: disable=broad-except
        rec.fail("process-raises", "only CC1 field-1 data is decoded", f"SccLine.process raised {e!r} on {v:04x}", key_w,
                 replayer="replayers.c17:word", replay_args=key_w)
        continue
      rec.evaluated("only CC1 field-1 data is decoded", (v, chan(state)))
      if cls == S.PADDING:
        want_call = False
      elif cls == S.PRINTABLE:
        want_call = state is SccChannel.CHANNEL_1
      elif cls == S.UNKNOWN:
        want_call = False
      else:
        want_call = ch == 1 and field == 1
      if bool(ctx.calls) != want_call:
        rec.fail(f"channel-filter:{cls}", "only CC1 field-1 data is decoded",
                 f"word {v:04x} ({cls}, channel {ch}, field {field}) with current channel {chan(state)}: decoder calls {ctx.calls}, expected {'some' if want_call else 'none'}",
                 key_w, replayer="replayers.c17:word", replay_args=key_w)
      # the channel state afterwards follows the word's channel (codes) or is unchanged (text, padding)
      if cls in (S.PAC, S.MIDROW, S.CONTROL, S.ATTRIBUTE, S.SPECIAL, S.EXTENDED) and chan(ctx.current_channel) != ch:
        rec.fail("channel-state", "only CC1 field-1 data is decoded", f"after {v:04x} current channel is {chan(ctx.current_channel)}, expected {ch}", key_w,
                 replayer="replayers.c17:word", replay_args=key_w)


def _lines(rec, reps, quick, seed):
  # lines: disassembly of a line is the time code, a tab, and the concatenation of the word renderings
  r = rng(seed, "c17")
  k = 0 if quick else 2
  words = []
  for cls, vs in sorted(reps.items()):
    words += [vs[0]] + [r.choice(vs) for _ in range(k)]
  words = sorted(set(words))
  tc = SmpteTimeCode(1, 2, 3, 4, FPS_30)
  for n in range(0, 5):
    for combo in itertools.product(words, repeat=n):
      ws = [SccWord.from_value(v) for v in combo]
      for show in (False, True):
        got = SccLine(tc, ws).to_disassembly(show)
        want = str(tc) + "\t" + "".join(get_scc_word_disassembly(w, show) for w in ws)
        rec.evaluated("line disassembly renders every word", (combo, show), {"words": [f"{v:04x}" for v in combo], "text": got} if n == 3 else None)
        if got != want:
          rec.fail("line-disassembly", "line disassembly renders every word", f"line {[f'{v:04x}' for v in combo]}: {got!r} != {want!r}",
                   {"words": [f"{v:04x}" for v in combo]})


def _pairs(rec, reps):
  """every channel-1 field-1 code word followed by each word that carries the SAME code for channel 2 or for field 2 (parity bits clear):
  the second word is not a redundant copy of the first -- it is rendered with its own channel attribution, it is not decoded, and the
  channel-1 text that follows it is not decoded either (exhaustive over the code words: a few thousand pairs)"""
  tc = SmpteTimeCode(1, 2, 3, 4, FPS_30)
  by_det = {}
  for cls in (S.PAC, S.MIDROW, S.CONTROL, S.ATTRIBUTE, S.SPECIAL, S.EXTENDED):
    for v in reps.get(cls, []):
      if v & 0x8080:
        continue          # parity variants are covered by the per-word contracts
      c, ch, field, det = S.classify(v >> 8, v & 0xFF)
      by_det.setdefault((cls, repr(det)), []).append((v, ch, field))
  n = 0
  for (cls, _), ws in sorted(by_det.items()):
    firsts = [v for v, ch, field in ws if ch == 1 and field == 1]
    others = [v for v, ch, field in ws if not (ch == 1 and field == 1)]
    for v1 in firsts:
      for v2 in others:
        n += 1
        key = {"words": [f"{v1:04x}", f"{v2:04x}"]}
        w1, w2 = SccWord.from_value(v1), SccWord.from_value(v2)
        got = SccLine(tc, [w1, w2]).to_disassembly(True)
        want = str(tc) + "\t" + get_scc_word_disassembly(w1, True) + get_scc_word_disassembly(w2, True)
        rec.evaluated("line disassembly renders every word", ("pair", v1, v2))
        if got != want:
          rec.fail("line-disassembly:same-code-other-channel", "line disassembly renders every word", f"line {key['words']}: {got!r} != {want!r}", key)
        ctx = MockContext(SccChannel.CHANNEL_1)
        text = SccWord.from_value(0x4142)
        try:
          SccLine(tc, [w1, w2, text]).process(ctx)
        except Exception as e:  # pylint: disable=broad-except
          rec.fail("process-raises", "only CC1 field-1 data is decoded", f"SccLine.process raised {e!r} on {key['words']} + text", key)
          continue
        rec.evaluated("only CC1 field-1 data is decoded", ("pair", v1, v2))
        c2, ch2, field2, _d = S.classify(v2 >> 8, v2 & 0xFF)
        # the first word is decoded; the second is not; the text after it belongs to the channel / field of that code: not decoded
        base = MockContext(SccChannel.CHANNEL_1)
        SccLine(tc, [SccWord.from_value(v1)]).process(base)      # (the text after the other channel's / field's code is that channel's text)
        if ctx.calls != base.calls:
          rec.fail(f"channel-filter:pair:{cls}", "only CC1 field-1 data is decoded",
                   f"line {key['words']} + 'AB': decoder calls {ctx.calls}, expected {base.calls} (the {'field-2' if field2 == 2 else 'channel-2'} copy of a "
                   f"channel-1 code is neither decoded nor a redundant copy; text after a channel-2 code is channel-2 text)", key)
  rec.scope["code_pairs"] = n


if __name__ == "__main__":
  sys.exit(main())
