"""C07 bounded tier: srt/vtt writer outputs parse under the strict grammars of specs/cues.py, tags == computed styles,
cue settings == computed region position / paragraph alignment, writers do not raise; normalize_eol / is_only_whitespace
exhaustively over short strings.

  python -m rtc.c07 --tier quick|thorough --seed N --out FILE.json        (logic in rtc/cues_common.py)
"""
import sys

from rtc import cues_common

PER_SCOPE = {"full": 20, "multi": 20, "noregion": 12, "plain": 30, "styled": 36, "regions": 16, "ruby": 12, "subms": 16}

if __name__ == "__main__":
  sys.exit(cues_common.main("C07", PER_SCOPE))
