"""C19 bounded tier: `tt convert` equals the library composition, honours its options, and is deterministic.

Contracts (all evaluated on the real `ttconv.tt.main`, the real configuration classes and, for some, the real command line in
fresh interpreters):

  cli==composition            bytes written by tt.main([...]) == specs.ttcli.compose(...) for every (input format, output format)
                              pair x type-selection variants (extension / --itype / --otype, any case, option over extension)
                              x every documented value of the reader / writer / filter configuration in use; malformed inputs:
                              the command fails iff the library composition fails
  config-file-precedence      --config_file wins over --config
  document_lang               general.document_lang overrides the language of the document (and is applied before the filters)
  filters-in-order            named document filters run in command-line order, each with its own configuration section
  errors-leave-no-file        unsupported types / unknown sub-commands: error status and no output file
  config-parse                tt.read_config_from_json / ModuleConfiguration.parse of every documented module over value tables:
                              documented values accepted and decoded to the documented meaning, others rejected; `general`
                              (no decoders) is judged on the command line, incl. "progress bar displayed iff progress_bar is
                              true and log_level is INFO"
  config-reject-cli           an undocumented value of a module in use makes the command fail (or is read as a value it can stand for)
  deterministic-hashseed      same bytes in fresh interpreters under several PYTHONHASHSEED values
  log-settings-independent    same bytes whatever general.progress_bar / general.log_level (nothing silenced)
  history-independent         same bytes whatever was converted (or failed) before in the same interpreter
  real-command-line           `python -m ttconv.tt` and the `tt` script: same bytes, exit status

Run:  PYTHONPATH=/verif /venv/bin/python -m rtc.c19 --tier quick --seed 0 --out /tmp/x.json
"""
from __future__ import annotations

import contextlib
import re as _re
import io
import itertools
import json
import os
import shutil
import struct
import subprocess
import sys
import tempfile
from dataclasses import dataclass

from rtc.common import Recorder, parse_args, rng
from specs import ttcli as S

REPO = os.environ.get("TTCONV_REPO", "/repo")
RES = os.path.join(REPO, "src", "test", "resources")
VERIF = os.path.dirname(os.path.dirname(os.path.abspath(__file__)))
SCOPE_RULE = ("a case is one command line (input document, type-selection variant, output type, filter list, configuration) or one "
              "(module, key, JSON value) triple; it is non-trivial when its fingerprint (all of these) is distinct")

# ---------------------------------------------------------------------------------------------------------------------
# additional document filters (the library has a single one, "lcd": ordering and per-filter configuration sections can only
# be observed with more).  They register themselves through DocumentFilter.__init_subclass__, like any third-party filter.

from ttconv.config import ModuleConfiguration                      # noqa: E402
from ttconv.filters.document_filter import DocumentFilter          # noqa: E402
import ttconv.model as model                                       # noqa: E402


def _append_tag(doc, tag):
  body = doc.get_body()
  if body is None:
    return
  for e in list(body.dfs_iterator()):
    if isinstance(e, model.P):
      s = model.Span(doc)
      s.push_child(model.Text(doc, tag))
      e.push_child(s)


@dataclass
class TagAConfig(ModuleConfiguration):
  tag: str = "[a]"

  @classmethod
  def name(cls):
    return "c19_a"


@dataclass
class TagBConfig(ModuleConfiguration):
  tag: str = "[b]"

  @classmethod
  def name(cls):
    return "c19_b"


class TagAFilter(DocumentFilter):
  @classmethod
  def get_config_class(cls):
    return TagAConfig

  def process(self, doc):
    # depends on the language of the document: shows whether document_lang was applied before the filters ran
    _append_tag(doc, f"{self.config.tag}{doc.get_lang()}")


class TagBFilter(DocumentFilter):
  @classmethod
  def get_config_class(cls):
    return TagBConfig

  def process(self, doc):
    # not commutative with TagAFilter: upper-cases what is there, then appends
    body = doc.get_body()
    if body is not None:
      for e in list(body.dfs_iterator()):
        if isinstance(e, model.Text):
          e.set_text(e.get_text().upper())
    _append_tag(doc, self.config.tag)


EXTRA_FILTERS = {
  "c19_a": (TagAFilter, lambda sec: TagAConfig(**({"tag": sec["tag"]} if sec and "tag" in sec else {}))),
  "c19_b": (TagBFilter, lambda sec: TagBConfig(**({"tag": sec["tag"]} if sec and "tag" in sec else {}))),
}

# ---------------------------------------------------------------------------------------------------------------------
# input documents

TTML_RICH = """<?xml version="1.0" encoding="UTF-8"?>
<tt xml:lang="en" xmlns="http://www.w3.org/ns/ttml" xmlns:tts="http://www.w3.org/ns/ttml#styling"
    xmlns:ttp="http://www.w3.org/ns/ttml#parameter" ttp:frameRate="25">
 <head>
  <styling><style xml:id="s1" tts:color="yellow" tts:fontWeight="bold"/></styling>
  <layout>
   <region xml:id="top" tts:origin="10% 5%" tts:extent="80% 20%" tts:displayAlign="before" tts:textAlign="start"/>
   <region xml:id="bottom" tts:origin="10% 75%" tts:extent="80% 20%" tts:displayAlign="after" tts:textAlign="end"/>
  </layout>
 </head>
 <body><div>
  <p xml:id="p1" region="top" begin="00:00:01.000" end="00:00:02.500">Hello <span tts:fontStyle="italic">italic</span> and <span style="s1">bold yellow</span></p>
  <p xml:id="p2" region="bottom" begin="75f" end="100f"><span tts:textDecoration="underline">under</span><br/>second line</p>
  <p region="bottom" begin="5s" end="6.04s" tts:color="#ff000080">caf&#233; &amp; &lt;tags&gt;</p>
 </div></body>
</tt>
"""

TTML_PLAIN = """<?xml version="1.0" encoding="UTF-8"?>
<tt xml:lang="fr" xmlns="http://www.w3.org/ns/ttml">
 <body><div>
  <p begin="1s" end="2s">un</p>
  <p begin="2s" end="3.5s">deux<br/>trois</p>
 </div></body>
</tt>
"""

SRT_RICH = """1
00:00:01,000 --> 00:00:02,500
Hello <b>bold</b> and <i>italic</i>

2
00:00:03,000 --> 00:00:04,040
<font color="#ff0000">red</font> line
second <u>under</u> line

3
01:00:05,120 --> 01:00:06,000
café & co
"""

SRT_PLAIN = """1
00:00:00,500 --> 00:00:01,000
one

2
00:00:01,000 --> 00:00:02,000
two
"""

VTT_RICH = """WEBVTT

first
00:00:01.000 --> 00:00:02.500 align:left line:10%
top left <b>bold</b>

second
00:00:03.000 --> 00:00:04.040 align:right
right <i>italic</i>
two lines

00:00:05.000 --> 00:00:06.000 line:50%
middle café
"""

VTT_PLAIN = """WEBVTT

00:01.000 --> 00:02.000
one

00:02.000 --> 00:03.000
two
"""

SCC_POPON = """Scenarist_SCC V1.0

00:00:01:00	9420 9420 9454 9454 c8e5 ecec ef80 942c 942c 942f 942f

00:00:03:00	9420 9420 1370 1370 d7ef f2ec 6480 9470 9470 e162 e380 942c 942c 942f 942f

00:00:05:00	942c 942c
"""


def _stl(dsc: bytes, mnr: bytes, tcp: bytes, subtitles):
  """a small EBU Tech 3264 file: GSI block + one TTI block per subtitle (sn, tci, tco, vp, jc, text bytes)"""
  def fld(b, n):
    return b + b" " * (n - len(b))
  gsi = b"".join([
    b"850", b"STL25.01", dsc, b"00", b"09", fld(b"C19 programme", 32), fld(b"", 32), fld(b"", 32), fld(b"", 32), fld(b"", 32),
    fld(b"", 32), fld(b"", 16), b"200101", b"200101", b"00", b"%05d" % len(subtitles), b"%05d" % len(subtitles), b"001", b"40", mnr,
    b"1", tcp, tcp, b"1", b"1", b"GBR", fld(b"", 32), fld(b"", 32), fld(b"", 32), b" " * 75, b" " * 576])
  assert len(gsi) == 1024, len(gsi)
  out = [gsi]
  for sn, tci, tco, vp, jc, text in subtitles:
    tf = text + b"\x8f" * (112 - len(text))
    out.append(struct.pack("<BHBB4s4sBBB112s", 0, sn, 0xFF, 0, bytes(tci), bytes(tco), vp, jc, 0, tf))
    assert len(out[-1]) == 128
  return b"".join(out)


STL_OPEN = _stl(b"0", b"11", b"10000000", [
  (0, (10, 0, 1, 0), (10, 0, 2, 12), 9, 2, b"\x0b\x0bOpen subtitle\x8a\x8a\x0b\x0b\x03yellow line"),
  (1, (10, 0, 3, 0), (10, 0, 4, 0), 2, 1, b"\x0b\x0bTop row"),
])
STL_TELETEXT = _stl(b"1", b"23", b"00000000", [
  (0, (0, 0, 1, 0), (0, 0, 2, 12), 20, 2, b"\x0d\x0b\x0bDouble height\x8a\x8a\x0d\x0b\x0b\x06cyan row"),
  (1, (0, 0, 3, 0), (0, 0, 4, 0), 18, 3, b"\x0b\x0bRight\x0a\x0a"),
])

RESOURCE_INPUTS = [
  ("ttml", "ttml/body_only.ttml"), ("ttml", "ttml/referential_styling.ttml"),
  ("scc", "scc/pop-on.scc"), ("scc", "scc/paint-on.scc"), ("scc", "scc/mix-rows-roll-up.scc"),
  ("stl", "stl/sandflow/test_tcp_processing.stl"), ("stl", "stl/sandflow/multi_tti_subtitle.stl"),
  ("stl", "stl/irt/requirement-0061-001.stl"),
  ("vtt", "vtt/alignment.vtt"), ("vtt", "vtt/position.vtt"),
]


# style elements that reference several styles which set the same property differently (which one wins must not depend on a set's
# iteration order), and documents that share rate-dependent time expressions under different ttp:frameRate / ttp:tickRate (a value
# derived from one document must not be reused for another)
TTML_STYLEORDER = """<?xml version="1.0" encoding="UTF-8"?>
<tt xml:lang="en" xmlns="http://www.w3.org/ns/ttml" xmlns:tts="http://www.w3.org/ns/ttml#styling">
<head><styling>
<style xml:id="speakerA" tts:color="red" tts:fontWeight="bold" tts:textAlign="start"/>
<style xml:id="speakerB" tts:color="blue" tts:fontStyle="italic" tts:textAlign="end"/>
<style xml:id="speakerC" tts:color="lime" tts:textDecoration="underline" tts:textAlign="center"/>
<style xml:id="narrator" style="speakerA speakerB"/>
<style xml:id="chorus" style="speakerC speakerB speakerA narrator"/>
<style xml:id="aside" style="chorus speakerC"/>
</styling><layout><region xml:id="r1" style="narrator" tts:origin="10% 70%" tts:extent="80% 20%"/></layout></head>
<body><div><p region="r1" begin="1s" end="3s" style="narrator">narrator <span style="chorus">chorus</span> <span style="aside speakerA">aside</span></p>
<p region="r1" begin="4s" end="6s" style="speakerB speakerA speakerC">three <span style="speakerC narrator">two</span></p></div></body></tt>
"""
TTML_FRAMES = """<?xml version="1.0" encoding="UTF-8"?>
<tt xml:lang="en" xmlns="http://www.w3.org/ns/ttml" xmlns:ttp="http://www.w3.org/ns/ttml#parameter" ttp:frameRate="{fps}" ttp:tickRate="{tick}">
<body><div><p begin="48f" end="00:00:05:12">frames</p><p begin="144f" dur="36f">more frames</p><p begin="9000t" end="00:00:12:06">ticks</p></div></body></tt>
"""


def input_documents(quick=True):
  """-> [(name, type, bytes)]"""
  docs = [
    ("rich", "ttml", TTML_RICH.encode("utf-8")), ("plain", "ttml", TTML_PLAIN.encode("utf-8")),
    ("rich", "srt", SRT_RICH.encode("utf-8")), ("plain", "srt", SRT_PLAIN.encode("utf-8")),
    ("rich", "vtt", VTT_RICH.encode("utf-8")), ("plain", "vtt", VTT_PLAIN.encode("utf-8")),
    ("popon", "scc", SCC_POPON.encode("ascii")),
    ("open", "stl", STL_OPEN), ("teletext", "stl", STL_TELETEXT),
  ]
  docs += [("styleorder", "ttml", TTML_STYLEORDER.encode("utf-8")), ("fps24", "ttml", TTML_FRAMES.format(fps=24, tick=1000).encode("utf-8")),
           ("fps30", "ttml", TTML_FRAMES.format(fps=30, tick=90000).encode("utf-8"))]
  for typ, rel in RESOURCE_INPUTS:
    p = os.path.join(RES, rel)
    if os.path.isfile(p):
      with open(p, "rb") as f:
        docs.append(("res-" + os.path.splitext(os.path.basename(rel))[0], typ, f.read()))
  # malformed inputs: whatever the library does with them (reject or read as an empty document), the command does the same
  docs += [("broken", "ttml", b"<tt xmlns='http://www.w3.org/ns/ttml'><body><div><p begin='1s'>unclosed</div></body></tt>"),
           ("notimsc", "ttml", b"<?xml version='1.0'?><html><body>not timed text</body></html>"),
           ("broken", "srt", b"\xff\xfe1\n00:00:01,000 --> 00:00:02,000\nbad bytes\n"),
           ("broken", "vtt", b"NOT A WEBVTT FILE\n\n00:01.000 --> 00:02.000\ntext\n"),
           ("broken", "scc", b"not an scc file\n\n00:00:01:00\t94zz 9420\n"),
           ("broken", "stl", STL_OPEN[:700]), ("truncated", "stl", STL_OPEN[:1024 + 60])]
  return docs


# ---------------------------------------------------------------------------------------------------------------------
# one command line


@dataclass
class Case:
  doc: int                      # index into input_documents()
  in_name: str                  # file name given to the input document (relative, may contain a directory)
  out_name: str
  itype: str = None
  otype: str = None
  filters: tuple = ()
  config: str = None            # --config
  config_file: str = None       # content of the file given with --config_file
  contract: str = "cli==composition"
  note: str = ""
  subcommand: str = "convert"
  alts: tuple = ()              # configurations (--config texts) any of which the command line may be read as (documentation open)
  key_hint: str = None          # failure key when this case fails by accepting / misreading its configuration

  def fingerprint(self):
    return (self.subcommand, self.doc, self.in_name, self.out_name, self.itype, self.otype, self.filters, self.config, self.config_file)

  def describe(self, docs):
    return {"document": f"{docs[self.doc][0]}.{docs[self.doc][1]}", "input_name": self.in_name, "output_name": self.out_name,
            "itype": self.itype, "otype": self.otype, "filters": list(self.filters), "config": self.config,
            "config_file": self.config_file, "note": self.note, "subcommand": self.subcommand, "alts": list(self.alts),
            "contract": self.contract, "key_hint": self.key_hint}

  def replay_args(self, docs):
    d = self.describe(docs)
    d["document_hex"] = docs[self.doc][2].hex() if len(docs[self.doc][2]) < 6000 else None
    d["document_index"] = self.doc
    return {"case": d}


def materialise(case: Case, docs, workdir):
  """write the input (and the configuration file) of a case into workdir; -> (argv, input path, output path)"""
  os.makedirs(workdir, exist_ok=True)
  inp = os.path.join(workdir, case.in_name)
  os.makedirs(os.path.dirname(inp), exist_ok=True)
  with open(inp, "wb") as f:
    f.write(docs[case.doc][2])
  outp = os.path.join(workdir, "out", case.out_name)
  os.makedirs(os.path.dirname(outp), exist_ok=True)
  if os.path.exists(outp):
    os.unlink(outp)
  argv = [case.subcommand, "-i", inp, "-o", outp]
  if case.itype is not None:
    argv += ["--itype", case.itype]
  if case.otype is not None:
    argv += ["--otype", case.otype]
  for f_ in case.filters:
    argv += ["--filter", f_]
  if case.config is not None:
    argv += ["--config", case.config]
  if case.config_file is not None:
    cf = os.path.join(workdir, "config.json")
    with open(cf, "w", encoding="ascii") as f:
      f.write(case.config_file)
    argv += ["--config_file", cf]
  return argv, inp, outp


class _Sink(io.StringIO):
  pass


_SINK = _Sink()
_TT = None


def tt_module():
  """ttconv.tt with its console handler writing into a buffer instead of the real stderr"""
  global _TT
  if _TT is None:
    import ttconv.tt as tt
    tt.progress.setStream(_SINK)
    _TT = tt
  return _TT


def run_main(argv, outp):
  """call the real ttconv.tt.main in this interpreter; -> (status, detail, output bytes or None, console text)"""
  tt = tt_module()
  _SINK.seek(0)
  _SINK.truncate()
  so, se = io.StringIO(), io.StringIO()
  status, detail = "ok", None
  try:
    with contextlib.redirect_stdout(so), contextlib.redirect_stderr(se):
      tt.main(argv)
  except SystemExit as e:
    if e.code not in (0, None):
      status, detail = "error", f"SystemExit({e.code!r})"
  except Exception as e:  # pylint: disable=broad-except
    status, detail = "error", f"{type(e).__name__}: {e}"
  data = None
  if os.path.isfile(outp):
    with open(outp, "rb") as f:
      data = f.read()
  return status, detail, data, _SINK.getvalue() + so.getvalue()


def reference(case: Case, inp):
  """-> ("ok", bytes) | ("error", why) | ("unspecified", why) | ("library-error", exception text)"""
  if case.subcommand != "convert":
    return "error", "unsupported sub-command"
  try:
    return S.compose(inp, case.out_name, case.itype, case.otype, case.filters, case.config, case.config_file, EXTRA_FILTERS)
  except S.Unspecified as e:
    return "unspecified", str(e)
  except Exception as e:  # pylint: disable=broad-except
    return "library-error", f"{type(e).__name__}: {e}"


def _short(b, n=300):
  if b is None:
    return None
  t = b.decode("utf-8", "replace")
  return t if len(t) <= n else t[:n] + f"... ({len(b)} bytes)"


def first_difference(a: bytes, b: bytes):
  k = next((i for i in range(min(len(a), len(b))) if a[i] != b[i]), min(len(a), len(b)))
  lo = max(0, k - 60)
  return f"first difference at byte {k}: written ...{a[lo:k + 60]!r}, library composition ...{b[lo:k + 60]!r}"


def judge(case: Case, inp, status, detail, data):
  """-> None when the observed behaviour of one run of the command line is acceptable, else (key, text, required)"""
  if case.alts:
    # the documentation leaves the reading of this configuration open: an error, or any of the listed readings
    if status != "ok":
      return None
    refs = [reference(Case(case.doc, case.in_name, case.out_name, case.itype, case.otype, case.filters, config=a), inp) for a in case.alts]
    if any(r[0] == "ok" and r[1] == data for r in refs):
      return None
    want = next((r for r in refs if r[0] == "ok"), None)
    return (case.key_hint or "undocumented-value-accepted", "an undocumented configuration value is accepted and is read as none of the values it "
            f"could stand for ({', '.join(case.alts)})" + ("; " + first_difference(data or b"", want[1]) if want else ""),
            {"error or the output for": list(case.alts)})
  ref = reference(case, inp)
  kind = ref[0]
  required = {"kind": kind, "expected": _short(ref[1]) if isinstance(ref[1], bytes) else ref[1]}
  if kind == "ok":
    if status != "ok":
      return ("cli-fails-where-library-succeeds", f"tt.main ended with {detail} but the library composition succeeds", required)
    if data is None:
      return ("no-output-file", "tt.main returned normally without writing the output file", required)
    if data != ref[1]:
      return (_mismatch_key(case), "output file differs from the library composition: " + first_difference(data, ref[1]), required)
  elif kind == "error":
    if status == "ok":
      return (_accept_key(case, ref[1]), f"the command succeeded although it must be rejected ({ref[1]})", required)
    if data is not None and "unsupported" in ref[1]:
      return ("output-file-left-after-error", f"the command ended with {detail} but left an output file", required)
  elif kind == "library-error":
    if status == "ok":
      return ("cli-succeeds-where-library-fails", f"the command succeeded but the library composition raises {ref[1]}", required)
  return None


def check_case(rec: Recorder, case: Case, docs, workdir):
  """evaluate one command line in-process (real ttconv.tt.main) against the composition"""
  argv, inp, outp = materialise(case, docs, workdir)
  status, detail, data, _console = run_main(argv, outp)
  rec.evaluated(case.contract, case.fingerprint(), case.describe(docs))
  bad = judge(case, inp, status, detail, data)
  if not bad and case.contract == "document_lang" and status == "ok" and data:
    bad = _lang_check(case, data)
  if bad and (case.alts or case.key_hint):
    # control: the same command line with a documented configuration; if that one is wrong too, the failure is not about this value
    control = Case(case.doc, case.in_name, case.out_name, case.itype, case.otype, case.filters,
                   config=case.alts[0] if case.alts else None, contract=case.contract, note="control for " + case.note)
    cargv, cinp, coutp = materialise(control, docs, os.path.join(workdir, "control"))
    cstatus, cdetail, cdata, _ = run_main(cargv, coutp)
    cbad = judge(control, cinp, cstatus, cdetail, cdata)
    if cbad:
      case, argv, status, detail, data, bad = control, cargv, cstatus, cdetail, cdata, cbad
  if bad:
    rec.fail(bad[0], case.contract, f"{bad[1]}; command line: tt {' '.join(_show_argv(argv, workdir))}", case.describe(docs),
             {"status": status, "detail": detail, "output": _short(data)}, bad[2], "replayers.c19:command_line", case.replay_args(docs))
  return status, data


def _lang_check(case: Case, data: bytes):
  """TTML output: the language of the document is the xml:lang of the root element"""
  cfg = S.select_config(case.config, case.config_file) or {}
  lang = (cfg.get("general") or {}).get("document_lang")
  if lang is None or S.resolve_type(case.otype, case.out_name, S.OUTPUT_TYPES) != "ttml":
    return None
  import xml.etree.ElementTree as et
  try:
    got = et.fromstring(data).get("{http://www.w3.org/XML/1998/namespace}lang")
  except et.ParseError as e:
    return ("ttml-output-not-well-formed", f"the TTML output is not well-formed XML: {e}", "well-formed XML")
  if got != lang:
    return ("document_lang-not-applied", f"document_lang is {lang!r} but the output document has xml:lang={got!r}", {"xml:lang": lang})
  return None


def _show_argv(argv, workdir):
  return [a.replace(workdir + os.sep, "") if isinstance(a, str) else a for a in argv]


def _mismatch_key(case: Case):
  c = case.contract
  if c == "cli==composition":
    return "bytes-differ-from-composition"
  return "bytes-differ:" + c


def _accept_key(case: Case, why):
  if "sub-command" in why:
    return "unknown-sub-command-accepted"
  if "unsupported" in why:
    return "unsupported-type-accepted"
  return case.key_hint or "invalid-config-accepted"


# ---------------------------------------------------------------------------------------------------------------------
# documented configuration keys: JSON values to try (classification comes from specs.ttcli)

BOOL_VALUES = [True, False, "true", "false", "False", "TRUE", "yes", "no", "", "0", "1", 0, 1, 2, -1, 0.0, 1.5, None, [], [False], {}]
COLOR_VALUES = sorted(S.NAMED_COLORS) + [
  "#FFFFFF", "#ffffff", "#FF0000", "#00ff0080", "#12345678", "#000000", "#00000000", "#AbCdEf", "rgb(255,0,0)", "rgb(0, 128, 255)",
  "rgb( 1 , 2 , 3 )", "rgba(255,0,0,128)", "rgba(0, 0, 0, 0)", "rgba(1,2,3,255)", None,
  "WHITE", "White", "#FFF", "#GGGGGG", "#12345", "#1234567", "#FFFFFFFFFF", "notacolor", "", "rgb(255,0)", "rgb(a,b,c)", "rgb(1,2,3,4)",
  "rgba(1,2,3)", "hsl(0,0%,0%)", "ff0000", "0xff0000", "red ", " red", "rgb(256,0,0)", "redd", "re", 5, 0, 16711680, True, ["red"],
  {"r": 255}, 1.0]
VALUES = {
  ("general", "progress_bar"): BOOL_VALUES,
  ("general", "log_level"): ["INFO", "WARN", "ERROR", "DEBUG", "WARNING", "info", "BOGUS", "", "INFO ", 20, None, True, [], {"level": "INFO"}, 1.5],
  ("general", "document_lang"): ["es-419", "en", "fr-CA", "zh-Hant-TW", "de", "", None, 5, ["en"], True, {"lang": "en"}, 1.5],
  ("imsc_writer", "time_format"): ["frames", "clock_time", "clock_time_with_frames", "Frames", "CLOCK_TIME", "clock-time", "clocktime",
                                   "clock_time_with_frame", "smpte", "media", "", "frames ", None, 1, 0, True, ["frames"], {"f": 1}],
  ("imsc_writer", "fps"): ["25/1", "24/1", "30/1", "30000/1001", "24000/1001", "60000/1001", "50/1", "1/1", "120/1", "25/2", "1001/30000",
                           "0/1", "25/0", "0/0", "25", "25/1/1", "/", "a/b", "25/", "/1", "", "25.0/1", "25/1.0", "-25/1", " 25/1",
                           "25 / 1", "25:1", "25\\1", "25 1", "1_0/1", 25, 25.0, 0, None, True, ["25", "1"], [25, 1], {"num": 25}],
  ("scc_reader", "text_align"): ["auto", "left", "center", "right", "LEFT", "Center", "AUTO", "start", "end", "middle", "justify", "",
                                 "left ", "lef", "leftt", None, 0, 1, True, ["left"], {"a": "left"}],
  ("stl_reader", "disable_fill_line_gap"): BOOL_VALUES,
  ("stl_reader", "disable_line_padding"): BOOL_VALUES,
  ("stl_reader", "program_start_tc"): ["TCP", "tcp", "Tcp", "00:00:00:00", "10:00:00:00", "01:02:03:04", "23:59:59:24", "10:00:00;00",
                                       "10:00:00", "1:00:00:00", "10:00:00:0", "10:00:0:00", "abc", "", "10.00.00.00", "TCP ", "TC", "TCPP",
                                       "10:00:00:00:00", "aa:bb:cc:dd", "10000000", None, 0, 10000000, True, ["TCP"], {"tc": "TCP"}, 1.5],
  ("stl_reader", "font_stack"): ["Verdana, Arial, Tiresias, sansSerif", "monospace", "Arial", "proportionalSansSerif, Arial", "default",
                                 "Arial,Helvetica", "serif", "monospaceSerif,Courier", "", None, 5, True, ["Arial"], {"f": "Arial"}, 1.5],
  ("stl_reader", "max_row_count"): ["MNR", "mnr", "Mnr", 23, 11, 1, 2, 99, 15, 0, -1, "23", "abc", "", "MN", "MNRR", "MNR ", 2.5, 23.0, None, True,
                                    [23], {"a": 1}],
  ("srt_writer", "text_formatting"): BOOL_VALUES,
  ("vtt_writer", "line_position"): BOOL_VALUES,
  ("vtt_writer", "text_align"): BOOL_VALUES,
  ("vtt_writer", "cue_id"): BOOL_VALUES,
  ("lcd", "safe_area"): list(range(-3, 35)) + [-100, -31, -30, -29, 50, 100, 101, 1000, 2 ** 31, -2 ** 31, 2 ** 63, "10", "0", "30", "31", "-1", "abc",
                                               "", "ten", 10.0, 10.5, 30.0, 30.5, 31.0, -0.5, -1.0, 31.5, 1e9, -1e9, None, True, False, [10], {"v": 10}],
  ("lcd", "preserve_text_align"): BOOL_VALUES,
  ("lcd", "color"): COLOR_VALUES,
  ("lcd", "bg_color"): COLOR_VALUES,
}
BOOL_KEYS = {mk for mk, vs in VALUES.items() if vs is BOOL_VALUES}


def config_class(module):
  if module == "general":
    from ttconv.config import GeneralConfiguration as C
  elif module == "imsc_writer":
    from ttconv.imsc.config import IMSCWriterConfiguration as C
  elif module == "stl_reader":
    from ttconv.stl.config import STLReaderConfiguration as C
  elif module == "srt_writer":
    from ttconv.srt.config import SRTWriterConfiguration as C
  elif module == "vtt_writer":
    from ttconv.vtt.config import VTTWriterConfiguration as C
  elif module == "scc_reader":
    from ttconv.scc.config import SccReaderConfiguration as C
  elif module == "lcd":
    from ttconv.filters.doc.lcd import LCDDocFilterConfig as C
  else:
    raise KeyError(module)
  return C


def _defaults(module):
  return {k: d for k, (_f, d) in S.SCHEMA[module].items() if d != "<none>"}


def _expected_instances(module, key, alts):
  """configuration instances for the acceptable normalised values of one key (all other keys at their documented default)"""
  out = []
  for n in alts:
    norm = _defaults(module)
    if n == "<default>":
      pass
    else:
      norm[key] = n
    try:
      out.append(S.lib_config(module, norm))
    except Exception:   # an alternative that the constructors cannot express (e.g. a numeric string): compare raw below
      out.append(("raw", key, n))
  return out


def _same_config(got, want, key):
  if isinstance(want, tuple) and want and want[0] == "raw":
    return getattr(got, key, object()) == want[2] and type(getattr(got, key)) is type(want[2])
  if type(got) is not type(want):
    return False
  for name in vars(want):
    g, w = getattr(got, name, object()), getattr(want, name)
    if g != w:
      return False
    if isinstance(w, bool) != isinstance(g, bool):     # True == 1 but a boolean field must hold a boolean
      return False
  return True


_NOVALUE = object()


def failure_key(module, key, what, value=_NOVALUE):
  """one key per distinct defect (witness class), not per witness"""
  if (module, key) in BOOL_KEYS and what == "accepted":
    return "bool-field-not-validated" if module != "general" else "general.progress_bar-not-validated"
  if (module, key) == ("lcd", "safe_area") and what == "accepted":
    num = value
    if isinstance(value, str) and _re.match(r"\s*[+-]?[0-9]+\s*\Z", value):
      num = int(value)
    if isinstance(num, (int, float)) and not isinstance(num, bool) and not 0 <= num <= 30:
      return "lcd.safe_area-out-of-range-accepted"
  return {"accepted": "undocumented-value-accepted", "rejected": "documented-value-rejected",
          "decoded": "value-decoded-wrongly"}[what] + f":{module}.{key}"


def check_config_value(rec: Recorder, module, key, value):
  """contract config-parse on one (module, key, JSON value): tt.read_config_from_json -> ModuleConfiguration.parse"""
  tt = tt_module()
  cls = config_class(module)
  contract = "config-parse"
  c = S.classify(module, key, value)
  data = json.loads(json.dumps({module: {key: value}, "other": {key: value}}))     # what json.loads gives the command line
  try:
    got = tt.read_config_from_json(cls, data)
    accepted, err = True, None
  except Exception as e:  # pylint: disable=broad-except
    got, accepted, err = None, False, f"{type(e).__name__}: {e}"
  rec.evaluated(contract, (module, key, json.dumps(value)), {"module": module, "key": key, "value": value, "class": c[0]})
  ra = {"module": module, "key": key, "value_json": json.dumps(value)}
  inp = {"module": module, "key": key, "value": value}

  def fail(what, text, required):
    rec.fail(failure_key(module, key, what, value), contract, f"{module}.{key} = {json.dumps(value)}: {text}", inp,
             {"accepted": accepted, "result": repr(got), "error": err}, required, "replayers.c19:config_value", ra)

  if c[0] == "valid":
    want = _expected_instances(module, key, [c[1]])[0]
    if not accepted:
      fail("rejected", f"documented value rejected with {err}", f"accepted as {want!r}")
    elif got is None or not _same_config(got, want, key):
      fail("decoded", f"parsed to {got!r}", f"{want!r}")
    elif (module, key) == ("scc_reader", "text_align") and value != "auto":
      # README: "Specifies the text alignment": left / center / right are the TTML alignments start / center / end
      means = getattr(getattr(got.text_align, "text_align", None), "value", None)
      if means != {"left": "start", "center": "center", "right": "end"}[value] or getattr(got.text_align, "label", None) != value:
        fail("decoded", f"parsed to {got.text_align!r} which stands for tts:textAlign={means!r}", f"{value} alignment")
  elif c[0] == "invalid":
    if accepted:
      fail("accepted", f"a value outside the documented set is accepted and becomes {getattr(got, key, None)!r}", "an error")
  else:
    if accepted and c[1] is not None:
      wants = _expected_instances(module, key, c[1])
      if not any(_same_config(got, w, key) for w in wants):
        fail("accepted", f"an undocumented value is accepted and becomes {getattr(got, key, None)!r}",
             f"an error, or one of {[getattr(w, key, w) if not isinstance(w, tuple) else w[2] for w in wants]!r}")


def check_config_plumbing(rec: Recorder):
  """read_config_from_json: a section is read under the documented name of its module only; without data or without the
  section the result stands for "not configured" (None or the documented defaults)"""
  tt = tt_module()
  contract = "config-parse"
  for module in S.SCHEMA:
    cls = config_class(module)
    if module == "general":
      dflt = S.lib_config(module, {})
    else:
      dflt = S.lib_config(module, _defaults(module))
    foreign = {m: {k: v for k in S.SCHEMA[m] for v in [_valid_values(m, k)[1]]} for m in S.SCHEMA if m != module}
    probes = [("no-data", None, True), ("no-section", {"zzz": {}}, True), ("other-sections-only", foreign, True), ("empty-section", {module: {}}, False)]
    for name, data, none_ok in probes:
      rec.evaluated(contract, ("plumbing", module, name), None)
      try:
        got = tt.read_config_from_json(cls, data)
      except Exception as e:  # pylint: disable=broad-except
        got = f"{type(e).__name__}: {e}"
      ok = (got is None and none_ok) or (got is not None and not isinstance(got, str) and _same_config(got, dflt, None))
      if not ok:
        rec.fail(f"read_config_from_json:{name}", contract, f"read_config_from_json({cls.__name__}, {data!r}) -> {got!r}",
                 {"module": module, "data": data}, repr(got), ("None or " if none_ok else "") + "the documented defaults",
                 "replayers.c19:plumbing", {"module": module, "probe": name})
    if cls.name() != module:
      rec.fail("module-name", contract, f"{cls.__name__}.name() = {cls.name()!r}, documented section name {module!r}", {"module": module}, cls.name(), module,
               "replayers.c19:plumbing", {"module": module, "probe": "name"})


def check_config_combinations(rec: Recorder, r, count):
  """several documented keys at once: every key is decoded independently of the others"""
  for module in S.SCHEMA:
    if module == "general":
      continue
    keys = list(S.SCHEMA[module])
    valid = {k: [v for v in VALUES[(module, k)] if S.classify(module, k, v)[0] == "valid"] for k in keys}
    for _ in range(count):
      chosen = {k: r.choice(valid[k]) for k in keys if r.random() < 0.7}
      norm = _defaults(module)
      for k, v in chosen.items():
        norm[k] = S.classify(module, k, v)[1]
      want = S.lib_config(module, norm)
      try:
        got = tt_module().read_config_from_json(config_class(module), {module: dict(chosen)})
      except Exception as e:  # pylint: disable=broad-except
        got = f"{type(e).__name__}: {e}"
      rec.evaluated("config-parse", (module, json.dumps(chosen, sort_keys=True)), None)
      if isinstance(got, str) or not _same_config(got, want, None):
        rec.fail(f"section-decoded-wrongly:{module}", "config-parse", f"{module} = {json.dumps(chosen)} parsed to {got!r}", chosen, repr(got),
                 repr(want), "replayers.c19:config_section", {"module": module, "section_json": json.dumps(chosen)})


_PROGRESS = _re.compile(r"(Reading|Writing): \|")


def check_general_value(rec: Recorder, key, value, docs, workdir):
  """the `general` section has no decoders: its values take effect inside `convert`, so it is judged on the command line"""
  contract = "config-parse"
  c = S.classify("general", key, value)
  di = next(i for i, d in enumerate(docs) if d[:2] == ("plain", "srt"))
  section = {key: value}
  case = Case(di, "in.srt", "out.ttml", config=json.dumps({"general": section}), contract=contract)
  # the console handler of tt.py keeps an unfinished progress line of an earlier (failed) conversion and prints it again with the
  # next message: first run a conversion that displays its progress up to 100 %, so that what is seen below belongs to this run
  neutral = Case(di, "in.srt", "out.srt", config=json.dumps({"general": {"progress_bar": True, "log_level": "INFO"}}))
  nargv, _ninp, noutp = materialise(neutral, docs, os.path.join(workdir, "neutral"))
  run_main(nargv, noutp)
  argv, inp, outp = materialise(case, docs, workdir)
  status, detail, data, console = run_main(argv, outp)
  rec.evaluated(contract, ("general", key, json.dumps(value)), {"module": "general", "key": key, "value": value, "class": c[0]})
  ra = {"module": "general", "key": key, "value_json": json.dumps(value)}
  shown = bool(_PROGRESS.search(console))

  def fail(what, text, required):
    rec.fail(failure_key("general", key, what, value), contract, f"general.{key} = {json.dumps(value)}: {text}",
             {"module": "general", "key": key, "value": value}, {"status": status, "detail": detail, "progress_bar_shown": shown},
             required, "replayers.c19:config_value", ra)

  if c[0] == "invalid":
    if status == "ok":
      fail("accepted", "a value outside the documented set is accepted" + (f" (progress bar shown: {shown})" if key == "progress_bar" else ""),
           "an error")
    return
  if c[0] == "valid" and status != "ok":
    fail("rejected", f"documented value rejected with {detail}", "accepted")
    return
  if status != "ok":
    return
  alts = [c[1]] if c[0] == "valid" else c[1]
  if alts is None:
    return
  if key == "progress_bar":
    want = [(True if a == "<default>" else a) for a in alts]
    if shown not in want:
      fail("accepted" if c[0] == "either" else "decoded", f"progress bar shown: {shown}", f"progress bar shown: {want}")
  elif key == "log_level":
    want = [(a in ("INFO", "<default>")) for a in alts]
    if shown not in want:
      fail("decoded", f"progress bar shown: {shown} (it is displayed iff log_level is INFO)", f"progress bar shown: {want}")
  elif key == "document_lang" and c[0] == "valid":
    ref = reference(case, inp)
    if ref[0] == "ok" and data != ref[1]:
      fail("decoded", "output differs from the library composition with the language set: " + first_difference(data or b"", ref[1]), "equal bytes")


# ---------------------------------------------------------------------------------------------------------------------
# command lines for the in-process contracts

OTHER_TYPE = {"ttml": "srt", "scc": "stl", "stl": "scc", "srt": "vtt", "vtt": "srt"}


def _mixed(s):
  return "".join(ch.upper() if i % 2 == 0 else ch.lower() for i, ch in enumerate(s))


def selection_variants(typ, ot):
  """(label, in_name, out_name, itype, otype)"""
  return [
    ("ext", f"in.{typ}", f"out.{ot}", None, None),
    ("EXT", f"in.{typ.upper()}", f"out.{ot.upper()}", None, None),
    ("eXt", f"in.{_mixed(typ)}", f"out.{_mixed(ot)}", None, None),
    ("opt", "in.dat", "out.bin", typ, ot),
    ("OPT", "in", "out", typ.upper(), ot.upper()),
    ("oPt", "in.x.y", "out.x.y", _mixed(typ), _mixed(ot)),
    ("opt-over-ext", f"in.{OTHER_TYPE[typ]}", f"out.{'srt' if ot != 'srt' else 'vtt'}", typ, ot),
    ("OPT-over-EXT", f"in.{OTHER_TYPE[typ].upper()}", f"out.{('ttml' if ot != 'ttml' else 'vtt').upper()}", typ.upper(), ot),
    ("multi-dot", f"in.{OTHER_TYPE[typ]}.{typ}", f"out.{'srt' if ot != 'srt' else 'vtt'}.{ot}", None, None),
    ("dotted-dir", f"d.{OTHER_TYPE[typ]}/in.{typ}", f"o.srt/out.{ot}", None, None),
    ("mixed", f"in.{typ}", "out.bin", None, ot.upper()),
    ("mixed2", "in.dat", f"out.{ot}", typ, None),
  ]


def _cfg(**sections):
  return json.dumps(sections, sort_keys=True)


def _valid_values(module, key):
  return [v for v in VALUES[(module, key)] if S.classify(module, key, v)[0] == "valid"]


def _docs_of(docs, typ, names=None):
  return [i for i, d in enumerate(docs) if d[1] == typ and (names is None or d[0] in names)]


def build_cases(docs, quick, r):
  cases = []
  rich = {t: _docs_of(docs, t, {"rich", "popon", "open"})[0] for t in S.INPUT_TYPES}

  # G1: every pair x every way of selecting the types
  for i, (name, typ, _) in enumerate(docs):
    for ot in S.OUTPUT_TYPES:
      vs = selection_variants(typ, ot)
      if quick and name.startswith("res-"):
        vs = [vs[0], vs[r.randrange(1, len(vs))]]
      for label, inn, outn, it, o in vs:
        cases.append(Case(i, inn, outn, it, o, note="types:" + label))

  # G2: every documented value of every key of the reader / writer / filter in use
  def add(i, ot, sections, filters=(), contract="cli==composition", note=""):
    text = _cfg(**sections)
    k = len(cases)
    if k % 3 == 0:
      cases.append(Case(i, f"in.{docs[i][1]}", f"out.{ot}", filters=tuple(filters), config=text, contract=contract, note=note))
    elif k % 3 == 1:
      cases.append(Case(i, f"in.{docs[i][1]}", f"out.{ot}", filters=tuple(filters), config_file=text, contract=contract, note=note))
    else:   # both given, the inline one says something else
      cases.append(Case(i, f"in.{docs[i][1]}", f"out.{ot}", filters=tuple(filters), config_file=text, config=_cfg(general={"document_lang": "xx"}),
                        contract=contract, note=note))

  for i in _docs_of(docs, "scc"):
    for v in _valid_values("scc_reader", "text_align"):
      for ot in ("ttml", "vtt"):
        add(i, ot, {"scc_reader": {"text_align": v}, "vtt_writer": {"text_align": True, "line_position": True}}, note="scc_reader.text_align")
  for i in _docs_of(docs, "stl"):
    for key in S.SCHEMA["stl_reader"]:
      for v in _valid_values("stl_reader", key):
        add(i, "ttml", {"stl_reader": {key: v}}, note="stl_reader." + key)
    for _ in range(3 if quick else 12):
      sec = {k: r.choice(_valid_values("stl_reader", k)) for k in S.SCHEMA["stl_reader"] if r.random() < 0.7}
      add(i, r.choice(S.OUTPUT_TYPES), {"stl_reader": sec}, note="stl_reader.*")
  imsc = [{}, {"time_format": "clock_time"}, {"time_format": "clock_time", "fps": "25/1"}, {"time_format": "frames", "fps": "25/1"},
          {"time_format": "frames", "fps": "30000/1001"}, {"time_format": "frames", "fps": "24/1"},
          {"time_format": "clock_time_with_frames", "fps": "25/1"}, {"time_format": "clock_time_with_frames", "fps": "30/1"},
          {"time_format": "clock_time_with_frames", "fps": "30000/1001"}, {"time_format": "frames"}, {"time_format": "clock_time_with_frames"},
          {"fps": "24/1"}, {"fps": "30000/1001"}, {"fps": "50/1"}, {"fps": "60000/1001"}, {"fps": "24000/1001"}, {"fps": "25/2"}]
  for t in S.INPUT_TYPES:
    for sec in imsc:
      add(rich[t], "ttml", {"imsc_writer": sec}, note="imsc_writer")
  for t in S.INPUT_TYPES:
    for i in _docs_of(docs, t)[:2 if quick else None]:
      for v in (True, False):
        add(i, "srt", {"srt_writer": {"text_formatting": v}}, note="srt_writer.text_formatting")
      for a, b, c in itertools.product((True, False), repeat=3):
        add(i, "vtt", {"vtt_writer": {"line_position": a, "text_align": b, "cue_id": c}}, note="vtt_writer")
      for k in S.SCHEMA["vtt_writer"]:
        for v in (True, False):
          add(i, "vtt", {"vtt_writer": {k: v}}, note="vtt_writer." + k)
  # LCD filter
  colors = [v for v in _valid_values("lcd", "color")]
  for t in S.INPUT_TYPES:
    for i in _docs_of(docs, t)[:2 if quick else None]:
      for sa in (_valid_values("lcd", "safe_area") if not quick or i == rich[t] else (0, 10, 30)):
        add(i, "ttml", {"lcd": {"safe_area": sa}}, ["lcd"], note="lcd.safe_area")
      add(i, "ttml", {}, ["lcd"], note="lcd defaults")
      add(i, "vtt", {"vtt_writer": {"line_position": True, "text_align": True}}, ["lcd"], note="lcd defaults")
      for v in (True, False):
        add(i, "ttml", {"lcd": {"preserve_text_align": v}}, ["lcd"], note="lcd.preserve_text_align")
        add(i, "vtt", {"lcd": {"preserve_text_align": v}, "vtt_writer": {"text_align": True}}, ["lcd"], note="lcd.preserve_text_align")
      for col in (colors if not quick else r.sample(colors, 6)):
        add(i, "ttml", {"lcd": {"color": col}}, ["lcd"], note="lcd.color")
        add(i, r.choice(("ttml", "srt", "vtt")), {"lcd": {"bg_color": col}}, ["lcd"], note="lcd.bg_color")
      for _ in range(4 if quick else 20):
        sec = {k: r.choice(_valid_values("lcd", k)) for k in S.SCHEMA["lcd"] if r.random() < 0.75}
        add(i, r.choice(S.OUTPUT_TYPES), {"lcd": sec, "vtt_writer": {"line_position": True, "text_align": r.random() < 0.5}}, ["lcd"], note="lcd.*")

  # G3: precedence of the configuration file
  for t in S.INPUT_TYPES:
    i = rich[t]
    a = {"lcd": {"safe_area": 3, "color": "red"}, "general": {"document_lang": "aa"}, "srt_writer": {"text_formatting": False},
         "vtt_writer": {"cue_id": False, "line_position": True}, "imsc_writer": {"time_format": "frames", "fps": "24/1"}}
    b = {"lcd": {"safe_area": 21, "bg_color": "blue"}, "general": {"document_lang": "bb"}, "srt_writer": {"text_formatting": True},
         "vtt_writer": {"cue_id": True, "text_align": True}, "imsc_writer": {"time_format": "clock_time_with_frames", "fps": "30/1"}}
    for ot in S.OUTPUT_TYPES:
      for inline, file_ in ((a, b), (b, a), (a, {}), ({}, a), (a, {"general": {}}), (a, None), (None, a), (b, {"scc_reader": {"text_align": "left"}})):
        cases.append(Case(i, f"in.{t}", f"out.{ot}", filters=("lcd",), config=None if inline is None else _cfg(**inline),
                          config_file=None if file_ is None else _cfg(**file_), contract="config-file-precedence"))

  # G4: document_lang
  for i, (name, typ, _) in enumerate(docs):
    for lang in ("es-419", "fr", "zh-Hant-TW", "", None):
      for filters in ((), ("lcd",), ("c19_a",)):
        if quick and name.startswith("res-") and filters:
          continue
        cases.append(Case(i, f"in.{typ}", "out.ttml", filters=filters, config=_cfg(general={"document_lang": lang, "progress_bar": False}),
                          contract="document_lang"))
    cases.append(Case(i, f"in.{typ}", "out.vtt", config=_cfg(general={"document_lang": "pt-BR"}), contract="document_lang"))

  # G5: filters in order, each with its own configuration section
  lists = [("c19_a", "c19_b"), ("c19_b", "c19_a"), ("c19_a", "c19_a"), ("lcd", "c19_a"), ("c19_a", "lcd"), ("c19_b", "lcd", "c19_a"),
           ("c19_a", "c19_b", "lcd"), ("lcd", "lcd"), ("c19_b",), ("c19_a", "c19_b", "c19_a", "c19_b")]
  cfgs = [None, {"c19_a": {"tag": "(x)"}}, {"c19_b": {"tag": "(y)"}, "lcd": {"color": "lime", "safe_area": 7}},
          {"c19_a": {"tag": "(p)"}, "c19_b": {"tag": "(q)"}, "lcd": {"preserve_text_align": True}}]
  for t in S.INPUT_TYPES:
    for i in _docs_of(docs, t)[:1 if quick else 3]:
      for fl in lists:
        for cfg in cfgs:
          ot = S.OUTPUT_TYPES[(len(cases)) % 3]
          cases.append(Case(i, f"in.{t}", f"out.{ot}", filters=fl, config=None if cfg is None else _cfg(**cfg), contract="filters-in-order"))

  # G6: unsupported types and unknown sub-commands
  bad = ["pdf", "ttm", "ttmlx", "xttml", "sccs", "txt", "doc", "ass", "cap", "mp4", "tt ml", "ttml ", "s", "."]
  for t in S.INPUT_TYPES:
    i = rich[t]
    for b in bad:
      cases.append(Case(i, f"in.{t}", "out.ttml", itype=b, contract="errors-leave-no-file", note="itype"))
      cases.append(Case(i, f"in.{t}", "out.srt", otype=b, contract="errors-leave-no-file", note="otype"))
      if "." not in b:
        cases.append(Case(i, f"in.{b}", "out.vtt", contract="errors-leave-no-file", note="input extension"))
        cases.append(Case(i, f"in.{t}", f"out.{b}", contract="errors-leave-no-file", note="output extension"))
    for b in ("scc", "stl", "SCC", "Stl"):    # input-only formats
      cases.append(Case(i, f"in.{t}", "out.ttml", otype=b, contract="errors-leave-no-file", note="otype input-only"))
      cases.append(Case(i, f"in.{t}", f"out.{b}", contract="errors-leave-no-file", note="output extension input-only"))
      cases.append(Case(i, f"in.{t}", f"out.{b}", filters=("lcd",), config=_cfg(general={"document_lang": "en"}), contract="errors-leave-no-file",
                        note="output extension input-only"))
    cases.append(Case(i, "in", "out.ttml", contract="errors-leave-no-file", note="no input extension"))
    cases.append(Case(i, f"in.{t}", "out", contract="errors-leave-no-file", note="no output extension"))
    cases.append(Case(i, f"in.{t}.bak", "out.ttml", contract="errors-leave-no-file", note="input extension"))
    cases.append(Case(i, f"in.{t}", "out.ttml.bak", contract="errors-leave-no-file", note="output extension"))
    cases.append(Case(i, f"{t}", "out.ttml", contract="errors-leave-no-file", note="no input extension"))
    cases.append(Case(i, f"in.{t}", "srt", contract="errors-leave-no-file", note="no output extension"))

  # G7: undocumented configuration values of a module in use make the command fail (or, where the documentation is open, are
  # read as one of the values they can reasonably stand for)
  target = {"scc_reader": ("scc", "ttml", ()), "stl_reader": ("stl", "ttml", ()), "imsc_writer": ("ttml", "ttml", ()),
            "srt_writer": ("ttml", "srt", ()), "vtt_writer": ("vtt", "vtt", ()), "lcd": ("ttml", "ttml", ("lcd",))}
  for (module, key), values in VALUES.items():
    if module == "general":
      continue
    t, ot, fl = target[module]
    extra = {"vtt_writer": {"line_position": True, "text_align": True}} if module == "lcd" else {}
    pool = []
    for v in values:
      c = S.classify(module, key, v)
      if c[0] == "invalid":
        pool.append((v, (), True))
      elif c[0] == "either" and c[1]:
        alts = []
        for n in c[1]:
          if n == "<default>":
            alts.append(_cfg(**{module: {}}, **extra))
          elif (isinstance(n, (bool, int, str)) or n is None) and S.classify(module, key, n)[0] == "valid":
            alts.append(_cfg(**{module: {key: n}}, **extra))
        if alts:
          pool.append((v, tuple(alts), True))
    if quick and len(pool) > 6:
      keep = [p for p in pool if p[0] in (-1, 31, "false", "true", 2)]
      pool = keep + r.sample([p for p in pool if p not in keep], 6 - min(6, len(keep)))
    for v, alts, _ in pool:
      cases.append(Case(rich[t], f"in.{t}", f"out.{ot}", filters=fl, config=_cfg(**{module: {key: v}}, **extra), contract="config-reject-cli",
                        note=f"{module}.{key}", alts=alts, key_hint=failure_key(module, key, "accepted", v)))
  # unknown sub-commands (with an otherwise valid command line)
  for t in S.INPUT_TYPES:
    for sub in ("covert", "validate", "convertt", "unconvert", "convert_", "tt"):
      cases.append(Case(rich[t], f"in.{t}", "out.ttml", contract="errors-leave-no-file", subcommand=sub, note="sub-command"))
  return cases


# ---------------------------------------------------------------------------------------------------------------------
# fresh interpreters


def _env(hashseed):
  env = dict(os.environ)
  env["PYTHONHASHSEED"] = str(hashseed)
  env["PYTHONDONTWRITEBYTECODE"] = "1"
  pp = [VERIF, os.path.join(REPO, "src", "main", "python")]
  env["PYTHONPATH"] = os.pathsep.join(pp)
  return env


def worker_main(jobfile):
  """`python -m rtc.c19 --worker job.json`: run the listed command lines one after the other through ttconv.tt.main in this
  (fresh) interpreter; the console handler keeps writing to the real stderr."""
  with open(jobfile, encoding="utf-8") as f:
    job = json.load(f)
  import ttconv.tt as tt
  res = []
  for argv in job["argvs"]:
    status, detail = "ok", None
    try:
      tt.main(argv)
    except SystemExit as e:
      if e.code not in (0, None):
        status, detail = "error", f"SystemExit({e.code!r})"
    except Exception as e:  # pylint: disable=broad-except
      status, detail = "error", f"{type(e).__name__}: {e}"
    res.append([status, detail])
  with open(job["result"], "w", encoding="utf-8") as f:
    json.dump(res, f)
  return 0


def run_worker(cases, docs, workdir, hashseed):
  """-> [(status, detail, bytes|None, input path)] of the cases run in this order in ONE fresh interpreter; None if it crashed"""
  argvs, outs, inps = [], [], []
  for k, case in enumerate(cases):
    argv, inp, outp = materialise(case, docs, os.path.join(workdir, f"c{k}"))
    argvs.append(argv)
    outs.append(outp)
    inps.append(inp)
  job = {"argvs": argvs, "result": os.path.join(workdir, "result.json")}
  jf = os.path.join(workdir, "job.json")
  with open(jf, "w", encoding="utf-8") as f:
    json.dump(job, f)
  p = subprocess.run([sys.executable, "-m", "rtc.c19", "--worker", jf], capture_output=True, text=True, env=_env(hashseed), cwd=VERIF,
                     timeout=600)
  if not os.path.isfile(job["result"]):
    return None, (p.stderr or p.stdout)[-600:]
  with open(job["result"], encoding="utf-8") as f:
    res = json.load(f)
  out = []
  for (status, detail), outp, inp in zip(res, outs, inps):
    data = None
    if os.path.isfile(outp):
      with open(outp, "rb") as f:
        data = f.read()
    out.append((status, detail, data, inp))
  return out, p.stderr


def run_command(case, docs, workdir, hashseed, how):
  """the real command line: `python -m ttconv.tt ...` or the installed `tt` script; -> (status, detail, bytes|None, input path)"""
  argv, inp, outp = materialise(case, docs, workdir)
  if how == "script":
    cmd = [os.path.join(os.path.dirname(sys.executable), "tt")] + argv
  else:
    cmd = [sys.executable, "-m", "ttconv.tt"] + argv
  p = subprocess.run(cmd, capture_output=True, text=True, env=_env(hashseed), cwd=workdir, timeout=600)
  data = None
  if os.path.isfile(outp):
    with open(outp, "rb") as f:
      data = f.read()
  status = "ok" if p.returncode == 0 else "error"
  return status, f"exit status {p.returncode}: {(p.stderr or '').strip().splitlines()[-1:] }", data, inp


def determinism_cases(docs):
  """one richly configured command line per (input format, output format) pair"""
  out = []
  rich = {t: _docs_of(docs, t, {"rich", "popon", "open"})[0] for t in S.INPUT_TYPES}
  for t in S.INPUT_TYPES:
    for ot in S.OUTPUT_TYPES:
      cfg = {"general": {"progress_bar": False, "log_level": "WARN", "document_lang": "es-419"},
             "lcd": {"safe_area": 5, "color": "#ffff00", "bg_color": "rgba(0,0,0,128)", "preserve_text_align": True},
             "c19_a": {"tag": "(z)"}, "scc_reader": {"text_align": "center"},
             "stl_reader": {"program_start_tc": "TCP", "font_stack": "Arial, sansSerif", "max_row_count": "MNR", "disable_line_padding": True},
             "imsc_writer": {"time_format": "clock_time_with_frames", "fps": "25/1"}, "srt_writer": {"text_formatting": True},
             "vtt_writer": {"line_position": True, "text_align": True, "cue_id": True}}
      out.append(Case(rich[t], f"in.{t}", f"out.{ot}", filters=("lcd", "c19_a", "c19_b"), config=_cfg(**cfg), contract="deterministic-hashseed"))
  # without any filter (the lcd filter would replace colours and alignment): style reference order, rate-dependent time expressions
  for name in ("styleorder", "fps24", "fps30"):
    for i in _docs_of(docs, "ttml", {name}):
      for ot in S.OUTPUT_TYPES:
        out.append(Case(i, "in.ttml", f"out.{ot}", config=_cfg(general={"progress_bar": False, "log_level": "WARN"}), contract="deterministic-hashseed"))
  return out


def _fresh_job(args):
  kind, payload, docs, workdir, hashseed = args
  if kind == "worker":
    return run_worker(payload, docs, workdir, hashseed)
  return run_command(payload[0], docs, workdir, hashseed, kind), ""


def subprocess_contracts(rec: Recorder, docs, quick, seed, root):
  from multiprocessing.pool import ThreadPool
  r = rng(seed, "c19-sub")
  dcases = determinism_cases(docs)
  seeds = [0, 1, 2, 3, 7, 42, 12345, 4294967295] if quick else [0, 1, 2, 3, 4, 5, 7, 11, 42, 99, 1000, 12345, 65535, 2 ** 31, 4294967295,
                                                                r.randrange(2 ** 32)]
  jobs = []      # (label, kind, cases, hashseed)
  # fresh interpreters: every command line alone (hash seed 0: the reference "fresh" output), then per hash seed either one
  # interpreter per command line (thorough) or one interpreter for all pairs (quick)
  for ci, c in enumerate(dcases):
    jobs.append((("hashseed", ci, 0), "worker", [c], 0))
  for hs in seeds[1:]:
    if quick:
      order = list(dcases)
      r.shuffle(order)
      jobs.append((("hashseed", "all", hs), "worker", order, hs))
    else:
      for ci, c in enumerate(dcases):
        jobs.append((("hashseed", ci, hs), "worker", [c], hs))
  # log / progress settings (their effect on stderr is real here: nothing is silenced); the settings of one conversion stay in
  # force in the interpreter, so all six combinations run one after the other in one interpreter per command line
  for ci, c in enumerate(dcases):
    base = json.loads(c.config)
    combos = [(pb, lv) for pb in (True, False) for lv in ("INFO", "WARN", "ERROR")]
    r.shuffle(combos)
    seq = []
    for pb, lv in combos:
      cfg = dict(base)
      cfg["general"] = {"progress_bar": pb, "log_level": lv, "document_lang": "es-419"}
      seq.append(Case(c.doc, c.in_name, c.out_name, filters=c.filters, config=_cfg(**cfg), contract="log-settings-independent"))
    seq.append(Case(c.doc, c.in_name, c.out_name, filters=c.filters, config=_cfg(**{k: v for k, v in base.items() if k != "general"}),
                    contract="log-settings-independent"))
    jobs.append((("log", ci, 0), "worker", seq, r.choice(seeds)))
  # histories: the same command lines in different orders inside one interpreter, interleaved with failing ones
  hist = []
  pool = dcases + [Case(c.doc, c.in_name, c.out_name, contract="history-independent") for c in dcases] + \
      [Case(c.doc, c.in_name, c.out_name, filters=("lcd",), config=_cfg(general={"log_level": "ERROR"}, lcd={"safe_area": 0}),
            contract="history-independent") for c in dcases]
  failing = [Case(dcases[0].doc, "in.ttml", "out.pdf"), Case(dcases[0].doc, "in.ttml", "out.ttml", filters=("lcd",), config='{"lcd": {"color": "nocolor"}}'),
             Case(dcases[0].doc, "in.ttml", "out.ttml", config='{"imsc_writer": {"time_format": "frames"}}')]
  ntriples = 6 if quick else 60
  for k in range(ntriples):
    trio = r.sample(pool, 3)
    if k % 2 == 0:
      trio[r.randrange(3)] = r.choice(failing)
    perms = list(itertools.permutations(range(3)))
    for perm in (perms if not quick else r.sample(perms, 4)):
      seq = [trio[j] for j in perm]
      hist.append(seq)
      jobs.append((("history", len(hist) - 1, 0), "worker", seq, r.choice(seeds)))
  # a long history: every pair one after the other, twice, second time in reverse order
  longseq = dcases + list(reversed(dcases))
  hist.append(longseq)
  jobs.append((("history", len(hist) - 1, 0), "worker", longseq, 5))
  # the real command line
  real = []
  script = os.path.join(os.path.dirname(sys.executable), "tt")
  hows = ["module"] + (["script"] if os.path.isfile(script) else [])
  realcases = [Case(c.doc, c.in_name, c.out_name, filters=("lcd",), config=c.config, contract="real-command-line") for c in dcases]
  realcases += [Case(c.doc, c.in_name.upper(), "out.bin", otype=c.out_name.split(".")[1].upper(), config_file=c.config, config='{"lcd": 1}',
                     contract="real-command-line") for c in dcases[::4]]
  realcases += [Case(dcases[0].doc, "in.ttml", "out.pdf", contract="real-command-line"),
                Case(dcases[0].doc, "in.ttml", "out.ttml", itype="pdf", contract="real-command-line"),
                Case(dcases[0].doc, "in.ttml", "out.ttml", subcommand="covert", contract="real-command-line"),
                Case(dcases[0].doc, "in.ttml", "out.ttml", filters=("lcd",), config='{"lcd": {"color": "nocolor"}}', contract="real-command-line")]
  if quick:
    realcases = realcases[0:15:2] + realcases[15:]
  for k, c in enumerate(realcases):
    how = hows[k % len(hows)]
    real.append((c, how))
    jobs.append((("real", k, 0), how, [c], r.choice(seeds)))

  args = [(kind, cases, docs, os.path.join(root, "sub", "_".join(str(x) for x in label)), hs) for label, kind, cases, hs in jobs]
  with ThreadPool(16) as tp:
    results = tp.map(_fresh_job, args)

  fresh = {}      # fingerprint -> bytes written by a fresh interpreter (hash seed 0)
  for (label, kind, cases, hs), (res, stderr) in zip(jobs, results):
    if res is None:
      rec.errors.append(f"fresh interpreter for {label} produced no result: {stderr}")
      continue
    if kind != "worker":
      res = [res]
    for pos, (case, (status, detail, data, inp)) in enumerate(zip(cases, res)):
      contract = {"hashseed": "deterministic-hashseed", "log": "log-settings-independent", "history": "history-independent",
                  "real": "real-command-line"}[label[0]]
      rec.evaluated(contract, (label, pos) + case.fingerprint(), {"label": list(label), "position": pos, "hash_seed": hs, **case.describe(docs)})
      bad = judge(Case(**{**case.__dict__, "contract": contract}), inp, status, detail, data)
      ra = {"cases": [c.replay_args(docs)["case"] for c in cases], "position": pos, "hash_seed": hs, "how": kind}
      if bad:
        key = {"hashseed": "fresh-interpreter:", "log": "log-settings:", "history": "history:", "real": "real-command-line:"}[label[0]] + bad[0]
        rec.fail(key, contract, f"{bad[1]} (PYTHONHASHSEED={hs}, {len(cases)} command line(s) in the interpreter, this one at position {pos}; "
                 f"{'tt script' if kind == 'script' else 'python -m ttconv.tt' if kind == 'module' else 'tt.main in a fresh interpreter'})",
                 case.describe(docs), {"status": status, "detail": detail, "output": _short(data)}, bad[2], "replayers.c19:fresh", ra)
      if label[0] == "hashseed" and status == "ok":
        fp = case.fingerprint()
        if fp in fresh and fresh[fp][0] != data:
          rec.fail("hash-seed-dependent-output", contract, f"PYTHONHASHSEED={hs} and PYTHONHASHSEED={fresh[fp][1]} give different output files: "
                   + first_difference(data or b"", fresh[fp][0] or b""), case.describe(docs), _short(data), _short(fresh[fp][0]),
                   "replayers.c19:fresh", ra)
        fresh.setdefault(fp, (data, hs))
      if label[0] == "history" and status == "ok":
        fp = case.fingerprint()
        if fp in fresh and fresh[fp][0] != data:
          rec.fail("history-dependent-output", contract, f"the output at position {pos} of a sequence of {len(cases)} conversions differs from the "
                   "output of the same command line in a fresh interpreter: " + first_difference(data or b"", fresh[fp][0] or b""),
                   case.describe(docs), _short(data), _short(fresh[fp][0]), "replayers.c19:fresh", ra)
  return len(jobs)


# ---------------------------------------------------------------------------------------------------------------------

_G = {}


def _chunk(idx):
  docs, chunks, seed, root = _G["docs"], _G["chunks"], _G["seed"], _G["root"]
  rec = Recorder("C19", "", {})
  wd = os.path.join(root, f"chunk{idx}")
  for k, item in enumerate(chunks[idx]):
    if isinstance(item, Case):
      check_case(rec, item, docs, os.path.join(wd, str(k)))
      shutil.rmtree(os.path.join(wd, str(k)), ignore_errors=True)
    elif item[0] == "general":
      check_general_value(rec, item[1], item[2], docs, os.path.join(wd, str(k)))
    else:
      check_config_value(rec, *item)
  return rec


def main():
  if len(sys.argv) >= 3 and sys.argv[1] == "--worker":
    return worker_main(sys.argv[2])
  args = parse_args()
  quick = args.tier == "quick"
  docs = input_documents(quick)
  r = rng(args.seed, "c19")
  cases = build_cases(docs, quick, r)
  items = list(cases)
  nvalues = 0
  for (module, key), values in VALUES.items():
    for v in values:
      items.append((module, key, v))
      nvalues += 1
  r.shuffle(items)            # every chunk is also a history: the order of conversions inside an interpreter changes with the seed
  nchunks = 16
  chunks = [items[i::nchunks] for i in range(nchunks)]
  root = tempfile.mkdtemp(prefix="c19-")
  rec = Recorder("C19", SCOPE_RULE, {})
  try:
    _G.update(docs=docs, chunks=chunks, seed=args.seed, root=root)
    sub_rec = Recorder("C19", "", {})
    box = {}

    def _sub():
      try:
        box["n"] = subprocess_contracts(sub_rec, docs, quick, args.seed, root)
      except Exception:  # pylint: disable=broad-except
        import traceback
        sub_rec.errors.append("subprocess contracts: harness exception: " + traceback.format_exc(limit=8))

    # the canonical witnesses of the suspected defects first, so that they are the ones kept in the replay files
    for module, key, v in (("srt_writer", "text_formatting", "false"), ("lcd", "safe_area", 31), ("lcd", "safe_area", -1)):
      check_config_value(rec, module, key, v)
    check_general_value(rec, "progress_bar", "false", docs, os.path.join(root, "flagship"))
    # the in-process chunks run in forked workers while this process drives the fresh interpreters
    import multiprocessing as mp
    with mp.get_context("fork").Pool(nchunks) as pool:
      pending = pool.map_async(_chunk, list(range(nchunks)))
      _sub()
      for part in pending.get():
        rec.merge(part)
    rec.merge(sub_rec)
    check_config_plumbing(rec)
    check_config_combinations(rec, rng(args.seed, "c19-combo"), 40 if quick else 1000)
  finally:
    shutil.rmtree(root, ignore_errors=True)
  rec.scope = {
    "input_documents": [f"{n}.{t}" for n, t, _ in docs], "pairs": "5 input formats x 3 output formats",
    "command_lines_in_process": len(cases), "configuration_values": nvalues,
    "type_selection_variants": [v[0] for v in selection_variants("ttml", "srt")],
    "fresh_interpreters": box.get("n"), "hash_seeds": 8 if quick else 16,
    "bound": "generated documents of 2-3 subtitles plus the listed test resources; value tables in rtc/c19.py VALUES",
  }
  return rec.dump(args.out)


if __name__ == "__main__":
  sys.exit(main())
