"""C12 bounded tier: the clauses the proof tier does not carry.

  * print/parse: parse(str(tc)) == tc for labels over a stated grid (f-string formatting and `re` are not modelled symbolically);
  * float arguments of ClockTime.from_seconds and SmpteTimeCode.from_seconds (CPython round(float, 3) is not modelled);
  * an independent cross-check of the symbolic encoding: from_frames/to_frames against the SMPTE oracle on a range of counts.
"""
import math
import sys
from fractions import Fraction

from rtc.common import Recorder, parse_args, rng
from specs import smpte
from ttconv.time_code import SmpteTimeCode, ClockTime


QUICK = True
SEED = 0


def _rec():
  return Recorder("C12", "", {})


def per_rate(name):
  rate = smpte.RATES[name]
  quick = QUICK
  rec = _rec()
  r = rng(SEED, "c12" + name)
  hours = [0, 9, 10, 99] if quick else list(range(100))
  nom = smpte.nominal(rate)
  # print / parse
  for h in hours:
    for m in range(60):
      for s in (range(60) if (not quick or h == 0) else (0, 1, 30, 59)):
        for f in range(nom):
          if not smpte.valid(h, m, s, f, rate):
            continue
          tc = SmpteTimeCode(h, m, s, f, rate)
          txt = str(tc)
          back = SmpteTimeCode.parse(txt, rate)
          ok = (back == tc) and back.get_frame_rate() == rate and \
              (back.get_hours(), back.get_minutes(), back.get_seconds(), back.get_frames()) == (h, m, s, f)
          rec.evaluated("smpte.parse(str(tc))==tc", (name, h, m, s, f), {"rate": name, "label": [h, m, s, f], "text": txt})
          if not ok:
            rec.fail(f"print-parse@{name}", "smpte.parse(str(tc))==tc", f"parse(str({(h, m, s, f)}@{name})) -> {back!r} via {txt!r}",
                     {"rate": name, "label": [h, m, s, f]})
  # encoding cross-check: counts (quick: a little over 30 minutes, thorough: 24 h exhaustively)
  n_max = 60000 if quick else 24 * 3600 * nom
  for n in range(0, n_max):
    tc = SmpteTimeCode.from_frames(n, rate)
    lab = (tc.get_hours(), tc.get_minutes(), tc.get_seconds(), tc.get_frames())
    ok = lab == smpte.label(n, rate) and tc.to_frames() == n
    rec.evaluated("from_frames==SMPTE label; round trip", (name, n), {"rate": name, "n": n, "label": list(lab)})
    if not ok:
      rec.fail(f"frames-label@{name}", "from_frames==SMPTE label; round trip",
               f"from_frames({n}, {name}) = {lab}, SMPTE label {smpte.label(n, rate)}, to_frames {tc.to_frames()}", {"rate": name, "n": n},
               replayer="replayers.c12:frames_label", replay_args={"rate": name, "model": {"n": str(n)}})
  # the factories return fresh, independent objects: mutating one result (add_frames) must not change what the factory returns later
  for i in range(300 if quick else 5000):
    k = r.randrange(0, 24 * 3600 * nom)
    n = r.choice([1, 2, 10, 1799, 17982, r.randrange(1, 100000)])
    a = SmpteTimeCode.from_frames(k, rate)
    b = SmpteTimeCode.from_frames(k, rate)
    a.add_frames(n)
    c = SmpteTimeCode.from_frames(k, rate)
    d = SmpteTimeCode.from_seconds(Fraction(k) / rate, rate)
    d.add_frames(n)
    e = SmpteTimeCode.from_seconds(Fraction(k) / rate, rate)
    ok = a is not b and a is not c and d is not e and a.to_frames() == k + n and b.to_frames() == k and c.to_frames() == k and \
        e.to_frames() == k and d.to_frames() == k + n and \
        (c.get_hours(), c.get_minutes(), c.get_seconds(), c.get_frames()) == smpte.label(k, rate)
    rec.evaluated("factory results are fresh and independent of earlier mutation", (name, k, n), {"rate": name, "k": k, "n": n})
    if not ok:
      rec.fail(f"factory-result-aliased@{name}", "factory results are fresh and independent of earlier mutation",
               f"from_frames({k}, {name}) after add_frames({n}) on an earlier result: frames a={a.to_frames()} b={b.to_frames()} c={c.to_frames()} "
               f"(expected {k + n}, {k}, {k}); from_seconds twice: {d.to_frames()}, {e.to_frames()}; same object: {a is b or a is c or d is e}",
               {"rate": name, "k": k, "n": n})
  # n single additions equal one addition of n (natively, as a cross-check of the lemma used by the proof tier)
  for i in range(60 if quick else 600):
    k = r.randrange(0, 3 * 3600 * nom)
    n = r.randrange(0, 400)
    a = SmpteTimeCode.from_frames(k, rate)
    b = SmpteTimeCode.from_frames(k, rate)
    a.add_frames(n)
    for _ in range(n):
      b.add_frames()
    rec.evaluated("n single additions == one addition of n", (name, k, n), None)
    if not a == b or a.to_frames() != k + n:
      rec.fail(f"add-frames-n-vs-singles@{name}", "n single additions == one addition of n", f"k={k} n={n}: {a} vs {b}", {"rate": name, "k": k, "n": n})
  # float arguments of from_seconds: a float is a rational, the frame that contains it is floor(Fraction(x) * rate)
  pts = 3000 if quick else 40000
  for i in range(pts):
    k = r.randrange(0, 100 * 3600 * nom)
    for x in (k / float(rate), float(Fraction(k) / rate), r.uniform(0, 360000.0)):
      tc = SmpteTimeCode.from_seconds(x, rate)
      want = math.floor(Fraction(x) * rate)
      rec.evaluated("from_seconds(float)==floor(exact*rate)", (name, x), {"rate": name, "seconds": x})
      if tc.to_frames() != want:
        rec.fail(f"from-seconds-float@{name}", "from_seconds(float)==floor(exact*rate)",
                 f"from_seconds({x!r}, {name}) = frame {tc.to_frames()}, expected {want}", {"rate": name, "seconds": x})
  return rec


def clock(_):
  quick = QUICK
  rec = _rec()
  r = rng(SEED, "c12clock")
  n_pts = 30000 if quick else 400000
  xs = sorted([i * 0.0005 for i in range(0, 20000)] + [r.uniform(0, 360000.0) for _ in range(n_pts)] +
              [k / 1000 for k in range(0, 5000)] + [k / 1000 + 0.0005 for k in range(0, 5000)])
  prev = None
  for x in xs:
    c = ClockTime.from_seconds(x)
    total = ((c.get_hours() * 60 + c.get_minutes()) * 60 + c.get_seconds()) * 1000 + c.get_milliseconds()
    fields = c.get_hours() >= 0 and 0 <= c.get_minutes() < 60 and 0 <= c.get_seconds() < 60 and 0 <= c.get_milliseconds() < 1000
    err = abs(Fraction(total, 1000) - Fraction(x))
    rec.evaluated("ClockTime.from_seconds(float)", x, {"seconds": x, "text": str(c)})
    # 0.5 ms plus the representation error of the float itself
    if not fields or err > Fraction(1, 2000) + Fraction(abs(x)) / 2 ** 52:
      rec.fail("clocktime-float", "ClockTime.from_seconds(float)", f"ClockTime.from_seconds({x!r}) = {c} (fields ok: {fields}, error {float(err)})",
               {"seconds": x})
    if prev is not None and total < prev[1]:
      rec.fail("clocktime-float-monotone", "ClockTime.from_seconds(float)", f"not monotone: {prev} then ({x!r}, {total})", {"seconds": [prev[0], x]})
    prev = (x, total)
    txt = str(c)
    back = ClockTime.parse(txt)
    rec.evaluated("ClockTime.parse(str(c))==c", txt, None)
    if not back == c:
      rec.fail("clocktime-print-parse", "ClockTime.parse(str(c))==c", f"{txt!r} parses to {back}", {"seconds": x})
  return rec


def _job(item):
  return clock(None) if item == "clock" else per_rate(item)


def main():
  global QUICK, SEED
  args = parse_args()
  QUICK = args.tier == "quick"
  SEED = args.seed
  rec = Recorder("C12", "labels on a grid (all m,s,f x selected h) for print/parse; frame counts 0..N and float seconds on a dense "
                 "grid plus seeded random points; a case is non-trivial when it is a distinct (rate, input) pair",
                 {"print_parse_hours": "0 (all m,s,f), 9,10,99 (s in 0,1,30,59)" if QUICK else "0..99",
                  "counts_per_rate": 60000 if QUICK else "24h", "float_points_per_rate": 9000 if QUICK else 120000})
  from rtc.common import parallel
  for part in parallel(_job, list(smpte.RATES) + ["clock"]):
    rec.merge(part)
  return rec.dump(args.out)


if __name__ == "__main__":
  sys.exit(main())
