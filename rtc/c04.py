"""C04: run-time contracts on the IMSC reader (ttconv.imsc.reader.to_model) observed through ISD.from_model, against the
independent XML-level TTML2/IMSC 1.1 interpreter specs/ttml.py.

Contracts
  snapshot==TTML          for generated documents and the local .ttml files: at every interval boundary, every midpoint and
                          after the last boundary, the visible text per region (document order) and the computed values of
                          color, backgroundColor, fontWeight, fontStyle, textDecoration, textAlign, display, visibility and
                          xml:lang per text run equal what the oracle computes from the XML; no exception escapes
  time-expression         every syntax x frame rate / multiplier / tick rate, bounded-exhaustive over a catalogue
  inline-value            catalogue of attribute values read back through the model getters (lengths, positions, font families,
                          padding shorthand, ...) against values written down from the TTML2 syntax
  document-parameters     cell / pixel resolution, language, active area, aspect ratio of the tt element through the model getters
  corrupt-one-attribute   the same documents with ONE attribute made unknown / malformed / an unknown token: no exception, the
                          snapshots equal those of the document with that attribute removed, a log record is emitted

Failure keys: exceptions are keyed by type, innermost ttconv function and a slug of the message; snapshot differences by the
kind of difference and the feature set of the *minimised* failing document (greedy delta debugging), so that one defect gives
one key whatever random document exposed it.
"""
import copy
import hashlib
import logging
import os
import re
import sys
import time
import traceback
import xml.etree.ElementTree as et
from fractions import Fraction

from rtc.common import Recorder, parse_args, rng, parallel
from specs import ttml as S

import ttconv.model as m
import ttconv.style_properties as sp
from ttconv.imsc.reader import to_model
from ttconv.isd import ISD

SP = sp.StyleProperties
TT, TTS, TTP, XML = S.NS_TT, S.NS_TTS, S.NS_TTP, S.NS_XML
EBUTTS = "urn:ebu:tt:style"
ITTS = "http://www.w3.org/ns/ttml/profile/imsc1#styling"
ITTP = "http://www.w3.org/ns/ttml/profile/imsc1#parameter"
for _p, _u in (("tts", TTS), ("ttp", TTP), ("ebutts", EBUTTS), ("itts", ITTS), ("ittp", ITTP)):
  et.register_namespace(_p, _u)
et.register_namespace("", TT)
q = S.q

RESOURCES = os.path.join(os.environ.get("TTCONV_REPO", "/repo"), "src", "test", "resources", "ttml")


# ---------------------------------------------------------------------------------------------------------------------
# observing ttconv


class LogCapture(logging.Handler):
  def __init__(self):
    super().__init__(logging.WARNING)
    self.records = []

  def emit(self, record):
    if record.name.startswith("ttconv.imsc") or record.name == "ttconv.utils":
      self.records.append((record.levelname, record.getMessage()))


_CAPTURE = LogCapture()


def install_capture():
  root = logging.getLogger()
  if _CAPTURE not in root.handlers:
    root.addHandler(_CAPTURE)
  root.setLevel(logging.WARNING)
  logging.disable(logging.NOTSET)
  # keep the console quiet: ttconv's records only go to the capture
  for h in list(root.handlers):
    if h is not _CAPTURE:
      root.removeHandler(h)
  logging.lastResort = None


def read(xml_text):
  """-> (doc, log records); exceptions propagate"""
  del _CAPTURE.records[:]
  tree = et.ElementTree(et.fromstring(xml_text))
  doc = to_model(tree)
  return doc, list(_CAPTURE.records)


def _val(v):
  if v is None:
    return None
  if isinstance(v, sp.ColorType):
    return tuple(v.components)
  if isinstance(v, sp.TextDecorationType):
    return (v.underline, v.line_through, v.overline)
  if hasattr(v, "value"):
    return v.value
  return v


_SPAN_GET = {"color": SP.Color, "backgroundColor": SP.BackgroundColor, "fontWeight": SP.FontWeight, "fontStyle": SP.FontStyle,
             "textDecoration": SP.TextDecoration, "visibility": SP.Visibility, "display": SP.Display, "opacity": SP.Opacity}
_ROLE = {m.Rb: "base", m.Rt: "text", m.Rp: "delimiter"}


def observe(doc, t):
  """-> {region id: [Run]} read from ISD.from_model(doc, t): text runs in document order with the computed styles of the
  span that carries the text and the paragraph's textAlign (the reader does not keep xml:id of content elements, so
  elements are matched by document order only)"""
  isd = ISD.from_model(doc, t)
  out = {}
  for region in isd.iter_regions():
    runs = []

    def walk(e, p, role):
      if isinstance(e, m.Text):
        if not e.get_text():
          return
        span = e.parent()
        props = {}
        for k, prop in _SPAN_GET.items():
          props[k] = _val(span.get_style(prop))
        props["textAlign"] = _val(p.get_style(SP.TextAlign)) if p is not None else None
        runs.append(S.Run((e.get_text(), role, span.get_lang(), props, False)))
        return
      if isinstance(e, m.Br):
        runs.append(S.Run(("\n", "br", None, None, False)))
        return
      if isinstance(e, m.P):
        p = e
      role = _ROLE.get(type(e), role)
      for c in e:
        walk(c, p, role)

    for c in region:
      walk(c, None, "")
    if any(r.role != "br" for r in runs):
      out[region.get_id()] = runs
  return out


def normalise(runs, loose):
  """merge adjacent runs that differ only by where the text was split; `loose`: ignore white space altogether"""
  out = []
  for r in runs:
    text = r.text
    if loose and r.role != "br":
      text = re.sub(r"[ \t\r\n]+", "", text)
      if not text:
        continue
    key = (r.role, r.lang, None if r.props is None else tuple(sorted(r.props.items())))
    if out and out[-1][1] == key and r.role != "br":
      out[-1][0] += text
    else:
      out.append([text, key])
  return [(a, b) for a, b in out]


def diff_kind(want, got):
  """None when equal, else a short classification of the first difference between two snapshots"""
  if sorted(want) != sorted(got):
    extra = sorted(set(got) - set(want))
    missing = sorted(set(want) - set(got))
    return "text-shown-but-inactive" if extra and not missing else ("text-not-shown" if missing and not extra else "regions-differ")
  for rid in sorted(want):
    loose = any(r.loose for r in want[rid])
    wr, gr = want[rid], got[rid]
    skip = sorted({k for r in wr if r.props for k, v in r.props.items() if v is None and k != "textAlign"})
    if skip:      # properties the oracle does not assert in this region
      wr = [S.Run((r.text, r.role, r.lang, None if r.props is None else {k: v for k, v in r.props.items() if k not in skip}, r.loose)) for r in wr]
      gr = [S.Run((r.text, r.role, r.lang, None if r.props is None else {k: v for k, v in r.props.items() if k not in skip}, r.loose)) for r in gr]
    a, b = normalise(wr, loose), normalise(gr, loose)
    if a == b:
      continue
    ta, tb = [x[0] for x in a], [x[0] for x in b]
    if "".join(ta) != "".join(tb):
      sa, sb = re.sub(r"\s+", "", "".join(ta)), re.sub(r"\s+", "", "".join(tb))
      if sa == sb:
        return "white-space"
      if len(sb) > len(sa):
        return "text-shown-but-inactive"
      if len(sb) < len(sa):
        return "text-not-shown"
      return "text-differs"
    if ta != tb:
      # same text, different run boundaries: some property differs on part of the text -> find it per character
      pass
    ka, kb = _per_char(a), _per_char(b)
    for (ra, la, pa), (rb, lb, pb) in zip(ka, kb):
      if ra != rb:
        return "ruby-role"
      if la != lb:
        return "xml:lang"
      if pa != pb:
        da, db = dict(pa or ()), dict(pb or ())
        for k in sorted(set(da) | set(db)):
          if da.get(k) != db.get(k):
            return "style:" + k
    return "runs-differ"
  return None


def _per_char(norm):
  out = []
  for text, key in norm:
    out.extend([key] * len(text))
  return out


def show(snap):
  return {rid: [(r.text, r.role, r.lang, r.props) for r in runs] for rid, runs in snap.items()}


# ---------------------------------------------------------------------------------------------------------------------
# one evaluation of snapshot==TTML


def _slug(s, n=60):
  return re.sub(r"[^A-Za-z0-9]+", "-", str(s)).strip("-")[:n]


def _where(tb):
  """innermost function of ttconv in a traceback"""
  fn = "?"
  for fs in traceback.extract_tb(tb):
    if "ttconv" in fs.filename.replace("\\", "/").split("/"):
      fn = os.path.basename(fs.filename)[:-3] + "." + fs.name
  return fn


def sample_times(odoc, doc):
  from specs import isd as ISDSPEC
  ts = set(odoc.times())
  try:
    ts |= set(x for x in ISDSPEC.change_times(doc) if x is not None)
  except Exception:  # pylint: disable=broad-except
    pass
  ts = sorted(x for x in ts if x >= 0)
  out = set(ts)
  for a, b in zip(ts, ts[1:]):
    out.add((a + b) / 2)
  out.add((ts[-1] if ts else Fraction(0)) + 1)
  out.add(Fraction(0))
  return sorted(out)


class Result:
  """status: ok | oos (out of the oracle's scope) | fail"""

  def __init__(self, status, kind=None, summary=None, t=None, observed=None, required=None, n=0):
    self.status, self.kind, self.summary, self.t, self.observed, self.required, self.n = status, kind, summary, t, observed, required, n


def evaluate(xml_text, only_t=None, deviations=()):
  try:
    root = et.fromstring(xml_text)
    odoc = S.interpret(root, deviations=deviations)
  except S.OutOfScope as e:
    return Result("oos", summary=str(e))
  try:
    doc, _ = read(xml_text)
  except Exception as e:  # pylint: disable=broad-except
    kind = f"to_model-raises:{type(e).__name__}:{_where(e.__traceback__)}:{_slug(e)}"
    return Result("fail", kind, f"to_model raised {type(e).__name__}: {e}", observed=repr(e), required="a document (no exception)")
  if doc is None:
    return Result("fail", "to_model-returns-None", "to_model returned None for a tt document")
  times = sample_times(odoc, doc) if only_t is None else [only_t]
  n = 0
  has_ruby = any(nd.kind == "ruby" for nd in odoc.nodes())
  for t in times:
    try:
      want = odoc.snapshot(t)
    except S.OutOfScope as e:
      return Result("oos", summary=str(e))
    try:
      got = observe(doc, t)
    except ValueError as e:
      if has_ruby and ("ruby" in str(e) or "rtc" in str(e)):
        continue           # known (C01): from_model raises on a ruby with an inactive / pruned part
      return Result("fail", f"from_model-raises:ValueError:{_where(e.__traceback__)}:{_slug(e)}", f"ISD.from_model(t={t}) raised {e!r}", t)
    except Exception as e:  # pylint: disable=broad-except
      return Result("fail", f"from_model-raises:{type(e).__name__}:{_where(e.__traceback__)}:{_slug(e)}",
                    f"ISD.from_model(t={t}) raised {type(e).__name__}: {e}", t, repr(e), "a snapshot")
    n += 1
    k = diff_kind(want, got)
    if k is not None:
      return Result("fail", "snapshot:" + k, f"at t={t}: {k}", t, show(got), show(want), n)
  return Result("ok", n=n)


# ---------------------------------------------------------------------------------------------------------------------
# minimisation of a failing document -> feature set -> key

_KEEP_TAGS = {q(TT, "tt"), q(TT, "body")}


def _serialise(root):
  return et.tostring(root, encoding="unicode")


def minimise(xml_text, kind, budget=400, fails=None):
  """greedy reduction keeping the failure kind; -> minimal xml text"""
  if fails is None:
    def fails(x):
      # same kind of failure, and not one that an already-described deviation explains (the reduction must not drift
      # from the defect at hand into a witness of a known one)
      r = evaluate(x)
      return r.status == "fail" and r.kind == kind and explain(x) is None
  root = et.fromstring(xml_text)
  used = [0]

  def test(cand):
    used[0] += 1
    return fails(_serialise(cand))

  # joint step: drop the layout together with every region reference
  cand = copy.deepcopy(root)
  for e in cand.iter():
    e.attrib.pop("region", None)
    for c in list(e):
      if c.tag == q(TT, "layout"):
        e.remove(c)
  if test(cand):
    root = cand
  changed = True
  while changed and used[0] < budget:
    changed = False
    # remove elements (largest first: document order of parents)
    for parent in list(root.iter()):
      for child in list(parent):
        if child.tag in _KEEP_TAGS or used[0] >= budget:
          continue
        idx = list(parent).index(child)
        tail = child.tail
        parent.remove(child)
        # keep the tail text where it was
        if tail:
          if idx == 0:
            parent.text = (parent.text or "") + tail
          else:
            prev = list(parent)[idx - 1]
            prev.tail = (prev.tail or "") + tail
        if test(root):
          changed = True
        else:
          # undo
          if tail:
            if idx == 0:
              parent.text = parent.text[:len(parent.text) - len(tail)] or None
            else:
              prev = list(parent)[idx - 1]
              prev.tail = prev.tail[:len(prev.tail) - len(tail)] or None
          parent.insert(idx, child)
    for e in list(root.iter()):
      for a in list(e.attrib):
        if used[0] >= budget:
          break
        v = e.attrib.pop(a)
        if test(root):
          changed = True
        else:
          e.set(a, v)
      for a in ("begin", "end", "dur"):
        v = e.get(a)
        if v is not None and used[0] < budget:
          try:
            simple = dec(S.parse_time(v, S.read_params(root))) + "s"
          except (ValueError, S.OutOfScope):
            continue
          if simple != v:
            e.set(a, simple)
            if test(root):
              changed = True
            else:
              e.set(a, v)
      for fld in ("text", "tail"):
        v = getattr(e, fld)
        if v and v != "x" and used[0] < budget:
          for repl in (None, "x"):
            setattr(e, fld, repl)
            if test(root):
              changed = True
              break
            setattr(e, fld, v)
  return _serialise(root)


_TIME_SYNTAX = [("clock-frames", re.compile(r"\d+:\d\d:\d\d:\d+$")), ("clock", re.compile(r"\d+:\d\d:\d\d")), ("ms", re.compile(r".*ms$")),
                ("f", re.compile(r".*f$")), ("t", re.compile(r".*t$")), ("h", re.compile(r".*h$")), ("m", re.compile(r".*m$")),
                ("s", re.compile(r".*s$"))]


def features(xml_text):
  """compact description of what a (minimised) document uses"""
  root = et.fromstring(xml_text)
  fs = set()
  for e in root.iter():
    tag = e.tag.split("}")[-1]
    if tag in ("set", "br", "region", "initial", "style"):
      fs.add(tag)
    for a, v in e.attrib.items():
      name = a.split("}")[-1]
      if name in ("id", "lang") or (name == "region" and False):
        if name == "lang" and tag != "tt":
          fs.add("lang")
        continue
      if name in ("begin", "end", "dur"):
        fs.add(name)
        for sname, rx in _TIME_SYNTAX:
          if rx.match(v):
            if sname not in ("s", "clock"):
              fs.add("time-" + sname)
            break
      elif name == "timeContainer":
        fs.add(v)
      elif name == "ruby":
        fs.add("ruby")
      elif name == "space":
        fs.add("space-" + v)
      elif name in ("frameRate", "frameRateMultiplier", "tickRate"):
        fs.add(name)
      elif name == "style":
        fs.add("style-ref")
      elif name == "region":
        fs.add("region-ref")
      else:
        fs.add(name)
  return ",".join(sorted(fs))


# ---------------------------------------------------------------------------------------------------------------------
# building documents


def mk(tag, attrs=None, kids=(), ns=TT):
  e = et.Element(q(ns, tag))
  for k, v in (attrs or {}).items():
    if v is not None:
      e.set(k, v)
  last = None
  for k in kids:
    if k is None:
      continue
    if isinstance(k, str):
      if last is None:
        e.text = (e.text or "") + k
      else:
        last.tail = (last.tail or "") + k
    else:
      e.append(k)
      last = k
  return e


def tt(head_kids, body, attrs=None):
  a = {q(XML, "lang"): "en"}
  a.update(attrs or {})
  kids = []
  if head_kids:
    styling = [k for k in head_kids if k.tag in (q(TT, "style"), q(TT, "initial"))]
    layout = [k for k in head_kids if k.tag == q(TT, "region")]
    hk = []
    if styling:
      hk.append(mk("styling", {}, styling))
    if layout:
      hk.append(mk("layout", {}, layout))
    kids.append(mk("head", {}, hk))
  if body is not None:
    kids.append(body)
  return mk("tt", a, kids)


def dec(v):
  """shortest decimal string of a Fraction with a terminating expansion (else 4 decimals)"""
  v = Fraction(v)
  if v.denominator == 1:
    return str(v.numerator)
  s = f"{float(v):.4f}".rstrip("0")
  return s + "0" if s.endswith(".") else s


def clock(v, frac=True):
  v = Fraction(v)
  whole = int(v)
  h, mi, s = whole // 3600, whole // 60 % 60, whole % 60
  out = f"{h:02d}:{mi:02d}:{s:02d}"
  f = v - whole
  if frac and f:
    out += "." + dec(f).split(".")[1]
  return out


class Timebase:
  def __init__(self, frame_rate=None, mult=None, tick=None):
    self.frame_rate, self.mult, self.tick = frame_rate, mult, tick
    self.params = S.Params(frame_rate or 30, Fraction(*[int(x) for x in mult.split()]) if mult else Fraction(1), tick)

  def attrs(self):
    return {q(TTP, "frameRate"): None if self.frame_rate is None else str(self.frame_rate), q(TTP, "frameRateMultiplier"): self.mult,
            q(TTP, "tickRate"): None if self.tick is None else str(self.tick)}

  def syntaxes(self):
    return ["s", "s", "ms", "m", "h", "clock", "clock", "clockf", "f", "f"] + (["t", "t"] if self.tick else [])

  def expr(self, r, v, syntax=None):
    v = Fraction(v)
    syntax = syntax or r.choice(self.syntaxes())
    eff = self.params.effective_frame_rate
    if syntax == "s":
      return dec(v) + "s"
    if syntax == "ms":
      return dec(v * 1000) + "ms"
    if syntax == "m":
      return dec(v / 60) + "m"
    if syntax == "h":
      return f"{float(v / 3600):.6f}".rstrip("0").rstrip(".") + "h" if v else "0h"
    if syntax == "clock":
      return clock(v)
    if syntax == "clockf":
      limit = min(Fraction(self.params.frame_rate), eff)
      ff = int((v - int(v)) * limit)
      if ff >= limit:
        ff = int(limit) - 1
      return clock(int(v), False) + f":{ff:02d}"
    if syntax == "f":
      n = v * eff
      return (str(round(n)) if r.random() < 0.7 else dec(Fraction(round(n * 2), 2))) + "f"
    return str(round(v * self.tick)) + "t"


TIMEBASES = [Timebase(), Timebase(25), Timebase(30, "1000 1001"), Timebase(24, "1000 1001", 90000), Timebase(50, None, 10000000),
             Timebase(60, "1 1", 1), Timebase(None, None, 1000), Timebase(30, "2 1"), Timebase(30, "1 2", 48000)]

COLORS = ["red", "#00ff00", "#0000ff80", "rgb(1,2,3)", "rgba(10,20,30,40)", "white", "transparent", "#FFFF00", "black"]
COMPARED = {
  "color": COLORS, "backgroundColor": COLORS, "fontWeight": ["normal", "bold"], "fontStyle": ["normal", "italic", "oblique"],
  "textDecoration": ["none", "underline", "noUnderline", "lineThrough", "underline lineThrough", "noUnderline overline",
                     "underline noLineThrough noOverline", "overline", "noLineThrough"],
  "textAlign": ["left", "center", "right", "start", "end"], "display": ["auto", "none"], "visibility": ["visible", "hidden"],
  "opacity": ["0", "0.5", "1", "0"],
}
FULL_TD = ["none", "underline noLineThrough noOverline", "noUnderline lineThrough overline"]
OTHER = {
  (TTS, "fontSize"): ["100%", "1.5em", "2c", "80%"], (TTS, "fontFamily"): ["default", "monospaceSerif, Arial", "'Times New Roman', serif"],
  (TTS, "lineHeight"): ["normal", "125%"], (TTS, "wrapOption"): ["wrap", "noWrap"],
  (TTS, "direction"): ["ltr", "rtl"], (TTS, "unicodeBidi"): ["normal", "embed", "bidiOverride"], (TTS, "textOutline"): ["none", "red 5%", "10%"],
  (TTS, "textShadow"): ["none", "1px 1px", "1px 1px 2px red", "1% 1% blue"], (TTS, "textEmphasis"): ["none", "auto", "filled circle before", "open sesame red"],
  (TTS, "textCombine"): ["none", "all"], (TTS, "rubyAlign"): ["center", "spaceAround"], (TTS, "rubyPosition"): ["before", "after", "outside"],
  (TTS, "shear"): ["0%", "16.67%"], (TTS, "luminanceGain"): ["1.0", "2"], (EBUTTS, "multiRowAlign"): ["start", "center", "end", "auto"],
  (EBUTTS, "linePadding"): ["0.5c"], (ITTS, "fillLineGap"): ["true", "false"],
}
REGION_OTHER = {
  (TTS, "origin"): ["10% 10%", "0% 80%"], (TTS, "extent"): ["80% 20%", "50% 50%"], (TTS, "padding"): ["1%", "1% 2%", "1% 2% 3%", "1% 2% 3% 4%"],
  (TTS, "showBackground"): ["always", "whenActive"], (TTS, "overflow"): ["hidden", "visible"], (TTS, "displayAlign"): ["before", "center", "after"],
  (TTS, "writingMode"): ["lrtb", "rltb", "lr", "rl"], (TTS, "position"): ["center", "left 10% top 10%", "10% 20%"],
}
TEXTS = ["Hello", "a b", " lead", "trail ", "  two  spaces  ", "x\ny", "\n   ", " ", "tab\tbed", "été", "&<>", "  \n  deep  \n ", "Z",
         # characters that Python calls white space but XML / TTML do not (only TAB, LF, CR, SPACE are): ordinary text
         "a\u00a0\u00a0b", "\u3000lead", "trail\u3000", "x\u2003 y", " \u00a0 ", "p\u2028q", "n\u0085m\u2029", "\u3000", "\u202f9", "\U0001f600 \U00020000"]
GRID = [Fraction(x, 2) for x in range(0, 13)]
DURS = [Fraction(1, 2), Fraction(1), Fraction(3, 2), Fraction(2), Fraction(3), Fraction(5)]

DEFAULT_CFG = dict(p_timing=0.6, p_seq=0.25, p_seq_indef=0.03, p_set=0.2, regions=(0, 3), styles=(0, 5), p_style_ref=0.35, p_inline=0.3,
                   p_other=0.1, p_space=0.15, p_lang=0.15, p_ruby=0.08, p_br=0.15, p_initial=0.3, p_region_attr=0.5, max_div_depth=2,
                   max_span_depth=2, texts=TEXTS, zero=0.08, p_nested=0.4, p_missing_ref=0.15)


class Gen:
  def __init__(self, r, cfg=None, tb=None):
    self.r = r
    self.cfg = dict(DEFAULT_CFG)
    self.cfg.update(cfg or {})
    self.tb = tb or r.choice(TIMEBASES)
    self.n = 0
    self.style_ids = []
    self.region_ids = []

  def nid(self):
    self.n += 1
    return f"e{self.n}"

  def chance(self, key):
    return self.r.random() < self.cfg[key]

  # ---- attributes

  def timing(self, attrs, parent_seq, force_finite=False):
    r = self.r
    if parent_seq:
      force_finite = force_finite or not self.chance("p_seq_indef")
    if not force_finite and not self.chance("p_timing"):
      return
    combo = r.choice(["b", "d", "e", "bd", "be", "de", "bde", "d", "be"])
    if force_finite and combo == "b":
      combo = "bd"
    b = r.choice(GRID[:9]) if "b" in combo else Fraction(0)
    if "b" in combo:
      attrs["begin"] = self.tb.expr(r, b)
    if "d" in combo:
      d = Fraction(0) if self.chance("zero") else r.choice(DURS)
      attrs["dur"] = self.tb.expr(r, d)
    if "e" in combo:
      e = b if self.chance("zero") else b + r.choice(DURS)
      syn = None
      if b and e == b and "begin" in attrs:
        # same expression => exactly zero duration
        attrs["end"] = attrs["begin"]
      else:
        ex = self.tb.expr(r, e, syn)
        # keep end >= begin under the real values of the expressions
        if "begin" in attrs and S.parse_time(ex, self.tb.params) < S.parse_time(attrs["begin"], self.tb.params):
          ex = attrs["begin"]
        attrs["end"] = ex

  def styles(self, attrs, region=False, p=None):
    r = self.r
    if self.style_ids and self.chance("p_style_ref"):
      refs = [r.choice(self.style_ids) for _ in range(r.choice([1, 1, 2, 3]))]
      if self.chance("p_missing_ref"):
        refs.insert(r.randrange(len(refs) + 1), "nosuch")
      attrs["style"] = ("  " if r.random() < 0.05 else " ").join(refs)
    self.inline(attrs, region, p if p is not None else self.cfg["p_inline"])

  def inline(self, attrs, region=False, p=0.3, n=(1, 3)):
    r = self.r
    if r.random() < p:
      for _ in range(r.randint(*n)):
        k = r.choice(sorted(COMPARED))
        attrs[q(TTS, k)] = r.choice(FULL_TD if (region and k == "textDecoration") else COMPARED[k])
    if self.chance("p_other"):
      (ns, k), vals = r.choice(sorted(OTHER.items()))
      attrs[q(ns, k)] = r.choice(vals)
    if region and r.random() < 0.5:
      (ns, k), vals = r.choice(sorted(REGION_OTHER.items()))
      attrs[q(ns, k)] = r.choice(vals)

  def common(self, attrs, region_ok=True):
    r = self.r
    attrs[q(XML, "id")] = self.nid()
    if self.chance("p_space"):
      attrs[q(XML, "space")] = r.choice(["preserve", "default"])
    if self.chance("p_lang"):
      attrs[q(XML, "lang")] = r.choice(["fr", "en-GB", "ja", ""])
    if region_ok and self.region_ids and r.random() < self.cfg["p_region_attr"] * region_ok:
      attrs["region"] = r.choice(self.region_ids)

  def sets(self, parent_seq_self, region=False):
    """set children of an element whose own time container is `parent_seq_self`"""
    r = self.r
    out = []
    if not self.chance("p_set"):
      return out
    for _ in range(r.choice([1, 1, 2, 3])):
      a = {}
      self.timing(a, parent_seq_self, force_finite=parent_seq_self)
      if r.random() < 0.1:
        (ns, k), vals = r.choice(sorted(OTHER.items()))
        a[q(ns, k)] = r.choice(vals)
      else:
        k = r.choice(["display", "display", "visibility", "color", "backgroundColor", "fontWeight", "fontStyle", "textDecoration", "textAlign"])
        a[q(TTS, k)] = r.choice(FULL_TD if (region and k == "textDecoration") else COMPARED[k])
      if r.random() < 0.3:
        a[q(XML, "id")] = self.nid()
      out.append(mk("set", a))
    return out

  # ---- head

  def head(self):
    r = self.r
    kids = []
    ns = r.randint(*self.cfg["styles"])
    for i in range(ns):
      a = {q(XML, "id"): f"s{i}"}
      self.inline(a, r.random() < 0.3, 0.9, (1, 3))        # now and then a <style> that carries region properties (origin, extent, padding ...)
      if i and r.random() < 0.5:
        refs = [f"s{r.randrange(i)}" for _ in range(r.choice([1, 1, 2]))]
        if self.chance("p_missing_ref"):
          refs.append("nosuch")
        a["style"] = " ".join(refs)
      kids.append(mk("style", a))
      self.style_ids.append(f"s{i}")
    r.shuffle(kids)        # a reference may point forward in document order
    if self.chance("p_initial"):
      for k in r.sample(sorted(COMPARED), r.choice([1, 1, 2])):
        vals = [v for v in COMPARED[k] if not (k == "textDecoration" and v not in ("none", "underline noLineThrough noOverline"))]
        if k == "display" and r.random() < 0.7:
          vals = ["auto"]
        kids.append(mk("initial", {q(TTS, k): r.choice(vals)}))
    nr = r.randint(*self.cfg["regions"])
    for i in range(nr):
      rid = f"r{i + 1}"
      a = {q(XML, "id"): rid}
      if r.random() < 0.4:
        self.timing(a, False)
      self.styles(a, True)
      rk = self.sets(False, True)
      if self.chance("p_nested"):
        props = r.sample(sorted(COMPARED), r.choice([1, 2, 3]))
        cut = r.randrange(len(props) + 1)
        for grp in (props[:cut], props[cut:]):
          if grp:
            rk.append(mk("style", {q(TTS, k): r.choice(COMPARED[k]) for k in grp}))
      kids.append(mk("region", a, rk))
      self.region_ids.append(rid)
    return kids

  # ---- body

  def container(self, attrs):
    seq = self.chance("p_seq")
    if seq:
      attrs["timeContainer"] = "seq"
    elif self.r.random() < 0.05:
      attrs["timeContainer"] = "par"
    return seq

  def body(self):
    r = self.r
    a = {}
    self.common(a, 0.15)
    self.timing(a, False)
    self.styles(a)
    seq = self.container(a)
    kids = self.sets(seq)
    for _ in range(r.choice([1, 1, 2, 3])):
      kids.append(self.div(seq, 1))
    return mk("body", a, kids)

  def div(self, parent_seq, depth):
    r = self.r
    a = {}
    self.common(a, 0.6)
    self.timing(a, parent_seq)
    self.styles(a)
    seq = self.container(a)
    kids = self.sets(seq)
    for _ in range(r.choice([1, 1, 2, 3])):
      if depth < self.cfg["max_div_depth"] and r.random() < 0.25:
        kids.append(self.div(seq, depth + 1))
      else:
        kids.append(self.p(seq))
      if r.random() < 0.2:
        kids.append("\n  ")
    return mk("div", a, kids)

  def ignorable(self):
    """an element that carries no content: <metadata>, a ttm: element, an element of a foreign namespace (with text and children of
    its own, which are not content either); the character data that FOLLOWS it is content like any other"""
    r = self.r
    k = r.randrange(4)
    if k == 0:
      return mk("metadata", {}, [mk("title", {}, ["a title"], ns="http://www.w3.org/ns/ttml#metadata")])
    if k == 1:
      return mk("desc", {}, ["a description"], ns="http://www.w3.org/ns/ttml#metadata")
    if k == 2:
      return mk("note", {"kind": "editorial"}, ["not content ", mk("em", {}, ["nor this"], ns="http://example.com/foreign"), " nor that"], ns="http://example.com/foreign")
    return mk("metadata", {q(XML, "id"): self.nid()})

  def inline_content(self, seq, depth):
    r = self.r
    kids = []
    for _ in range(r.choice([1, 1, 2, 3, 4])):
      x = r.random()
      if x < 0.05:
        kids.append(self.ignorable())
        kids.append(r.choice(self.cfg["texts"]))        # its tail
      elif x < 0.45:
        kids.append(r.choice(self.cfg["texts"]))
      elif x < 0.45 + self.cfg["p_br"]:
        kids.append(mk("br", {q(XML, "id"): self.nid()} if r.random() < 0.5 else {}))
      elif x < 0.45 + self.cfg["p_br"] + self.cfg["p_ruby"] and depth == 0:
        kids.append(self.ruby(seq))
      elif depth < self.cfg["max_span_depth"]:
        kids.append(self.span(seq, depth + 1))
      else:
        kids.append(r.choice(self.cfg["texts"]))
    return kids

  def p(self, parent_seq):
    a = {}
    self.common(a, 0.5)
    self.timing(a, parent_seq)
    self.styles(a)
    seq = self.container(a)
    kids = self.sets(seq) + self.inline_content(seq, 0)
    return mk("p", a, kids)

  def span(self, parent_seq, depth):
    a = {}
    self.common(a, 0.1)
    self.timing(a, parent_seq)
    self.styles(a)
    seq = self.container(a)
    kids = self.sets(seq) + self.inline_content(seq, depth)
    return mk("span", a, kids)

  def rspan(self, kind, kids, style=True):
    a = {q(TTS, "ruby"): kind, q(XML, "id"): self.nid()}
    if style and self.r.random() < 0.3:
      for k in self.r.sample(["color", "fontWeight", "fontStyle", "textDecoration", "visibility"], 2):
        a[q(TTS, k)] = self.r.choice(COMPARED[k])
      if self.chance("p_lang"):
        a[q(XML, "lang")] = "ja"
    return mk("span", a, kids)

  def ruby(self, parent_seq):
    r = self.r
    a = {q(TTS, "ruby"): "container"}
    self.common(a, 0)
    self.timing(a, parent_seq, force_finite=parent_seq)
    shape = r.choice(["bt", "bptp", "bc-tc", "bc-tc-tc", "bc-tcp"])
    base = lambda: self.rspan("base", [r.choice(["漢", "字", "kan", mk("span", {q(XML, "id"): self.nid(), q(TTS, "color"): "red"}, ["b"])])])
    text = lambda: self.rspan("text", [r.choice(["かん", "じ", "ji"])])
    delim = lambda c: self.rspan("delimiter", [c])
    if shape == "bt":
      kids = [base(), text()]
    elif shape == "bptp":
      kids = [base(), delim("("), text(), delim(")")]
    elif shape == "bc-tc":
      kids = [self.rspan("baseContainer", [base(), base()]), self.rspan("textContainer", [text(), text()])]
    elif shape == "bc-tc-tc":
      kids = [self.rspan("baseContainer", [base()]), self.rspan("textContainer", [text()]), self.rspan("textContainer", [text()])]
    else:
      kids = [self.rspan("baseContainer", [base()]), self.rspan("textContainer", [delim("("), text(), delim(")")])]
    return mk("span", a, kids)

  def doc(self):
    r = self.r
    head = self.head()
    body = self.body()
    a = dict(self.tb.attrs())
    if r.random() < 0.1:
      a[q(XML, "space")] = r.choice(["preserve", "default"])
    if r.random() < 0.1:
      a[q(XML, "lang")] = r.choice(["", "de", None])
    if r.random() < 0.15:
      a[q(TTP, "cellResolution")] = r.choice(["40 20", "32 15"])
    if r.random() < 0.15:
      a[q(TTS, "extent")] = "1920px 1080px"
    return tt(head, body, a)


# ---------------------------------------------------------------------------------------------------------------------
# families of documents


def fam_random(seed, i, cfg=None):
  r = rng(seed, f"c04/random/{i}")
  return _serialise(Gen(r, cfg).doc())


CFG_TIMING = dict(p_timing=0.85, p_seq=0.4, p_set=0.15, styles=(0, 1), regions=(0, 1), p_style_ref=0.1, p_inline=0.05, p_other=0.0, p_space=0.0,
                  p_lang=0.0, p_ruby=0.0, p_br=0.05, p_initial=0.0, texts=["A", "B", "C", "D"], max_span_depth=2)
CFG_STYLE = dict(p_timing=0.15, p_seq=0.05, p_set=0.35, styles=(2, 6), regions=(0, 3), p_style_ref=0.7, p_inline=0.45, p_other=0.2, p_space=0.0,
                 p_lang=0.1, p_ruby=0.05, p_initial=0.6, texts=["A", "B", "C"], p_nested=0.7)
CFG_SPACE = dict(p_timing=0.15, p_seq=0.05, p_set=0.05, styles=(0, 1), regions=(0, 1), p_style_ref=0.1, p_inline=0.2, p_other=0.0, p_space=0.4,
                 p_lang=0.4, p_ruby=0.1, p_br=0.25, p_initial=0.1)
CFG_REGION = dict(p_timing=0.5, p_seq=0.1, p_set=0.3, styles=(0, 2), regions=(1, 3), p_region_attr=0.9, p_space=0.0, p_ruby=0.0,
                  texts=["A", "B", "C"])
CFG_RUBY = dict(p_timing=0.2, p_seq=0.05, p_ruby=0.5, regions=(0, 1), p_space=0.05, p_set=0.05)
CFG_SEQ_INDEF = dict(CFG_TIMING, p_seq=0.6, p_seq_indef=0.5)


def time_syntax_docs():
  """bounded-exhaustive: every time-expression syntax x every time base, on begin / end / dur of a paragraph and a nested span"""
  exprs = ["0s", "1s", "2.5s", "1.250s", "1500ms", "0.5ms", "0.5m", "0.001h", "2h", "00:00:01", "00:00:02.5", "00:00:01.250", "100:00:00",
           "00:01:00", "01:00:00.001", "30f", "45f", "12.5f", "0f", "00:00:01:15", "00:00:02:00", "00:10:00:23", "1000t", "2500t", "10t",
           "1.5t", "00:00:59.999", "10.0s", "007s", "00:00:03:007"]
  docs = []
  for tb in TIMEBASES:
    for x in exprs:
      if x.endswith("t") and tb.tick is None:
        continue
      a = dict(tb.attrs())
      body1 = mk("body", {}, [mk("div", {}, [mk("p", {"begin": x, "dur": "2s", q(XML, "id"): "p1"}, ["A"]),
                                              mk("p", {"end": x, q(XML, "id"): "p2"}, ["B", mk("span", {"begin": "10f", "dur": x, q(XML, "id"): "s1"}, ["C"])])])])
      docs.append(_serialise(tt([], body1, a)))
  return docs


def container_docs():
  """bounded-exhaustive over: container kind of the parent x timing combination of the parent x timing combination of two
  children (one value assignment), parent nested in a par or seq div"""
  combos = ["", "b", "d", "e", "bd", "be", "de", "bde"]
  docs = []

  def attrs(combo, b, d, e, ident):
    a = {q(XML, "id"): ident}
    if "b" in combo:
      a["begin"] = b
    if "d" in combo:
      a["dur"] = d
    if "e" in combo:
      a["end"] = e
    return a

  for outer, outer_begin in (("par", "1s"), ("seq", "1s"), ("par", None), ("seq", None)):
    for tc in ("par", "seq"):
      for pc in combos:
        for c1 in combos:
          for c2 in ("", "d", "be"):
            if outer == "seq" and ("d" not in pc and "e" not in pc):
              continue      # an indefinite first child of a seq: covered (rarely) by the random families, it raises (known suspect)
            if tc == "seq" and ("d" not in c1 and "e" not in c1):
              continue
            pa = attrs(pc, "1s", "6s", "9s", "p1")
            pa["timeContainer"] = tc
            k1 = mk("span", attrs(c1, "1s", "2s", "4s", "c1"), ["A"])
            k2 = mk("span", attrs(c2, "0.5s", "1.5s", "3s", "c2"), ["B"])
            p = mk("p", pa, [k1, k2])
            after = mk("p", {q(XML, "id"): "p2", "dur": "1s"}, ["Z"])
            div = mk("div", {"timeContainer": outer, "begin": outer_begin, q(XML, "id"): "d1"}, [p, after])
            docs.append(_serialise(tt([], mk("body", {}, [div]))))
  return docs


def seed_docs():
  out = []
  if os.path.isdir(RESOURCES):
    for fn in sorted(os.listdir(RESOURCES)):
      if fn.endswith(".ttml"):
        with open(os.path.join(RESOURCES, fn), encoding="utf-8") as f:
          out.append((fn, f.read()))
  return out


def sink_docs():
  """documents that carry every attribute the reader knows, in three time syntaxes (frame / tick offsets, clock time with
  frames, plain seconds): ALL corruptions of the catalogue are applied to every attribute of them, independently of the seed,
  so that the set of failing corruption classes does not depend on sampling"""
  docs = []
  for name, tx in (("frames-ticks", lambda v, i: f"{v * 25}f" if i % 2 == 0 else f"{v * 1000}t"),
                   ("clock-frames", lambda v, i: f"00:00:{v:02d}:00"), ("seconds", lambda v, i: f"{v}s")):
    s0 = {q(XML, "id"): "s0", q(TTS, "color"): "red", q(TTS, "fontStyle"): "italic", q(TTS, "fontWeight"): "bold",
          q(TTS, "textDecoration"): "underline noLineThrough noOverline", q(TTS, "fontSize"): "100%", q(TTS, "fontFamily"): "default", q(TTS, "lineHeight"): "125%", q(TTS, "opacity"): "0.5",
          q(TTS, "wrapOption"): "noWrap", q(TTS, "direction"): "rtl", q(TTS, "unicodeBidi"): "embed", q(TTS, "textOutline"): "red 5%",
          q(TTS, "textShadow"): "1px 1px 2px red", q(TTS, "textEmphasis"): "filled circle before", q(TTS, "textCombine"): "all",
          q(TTS, "rubyAlign"): "center", q(TTS, "rubyPosition"): "before", q(TTS, "shear"): "10%", q(TTS, "luminanceGain"): "1.5",
          q(EBUTTS, "multiRowAlign"): "center", q(EBUTTS, "linePadding"): "0.5c", q(ITTS, "fillLineGap"): "true", q(TTS, "visibility"): "visible",
          q(TTS, "display"): "auto", q(TTS, "textAlign"): "center", q(TTS, "backgroundColor"): "blue"}
    head = [mk("style", s0), mk("style", {q(XML, "id"): "s1", "style": "s0", q(TTS, "color"): "blue"}),
            mk("style", {q(XML, "id"): "unused", q(TTS, "color"): "lime", q(TTS, "backgroundColor"): "black", q(TTS, "textDecoration"): "overline",
                         q(TTS, "fontWeight"): "bold"}),
            mk("initial", {q(TTS, "color"): "yellow"}),
            mk("region", {q(XML, "id"): "r1", "begin": tx(0, 0), "end": tx(30, 1), "style": "s1", q(TTS, "origin"): "10% 10%", q(TTS, "extent"): "80% 80%",
                          q(TTS, "padding"): "1% 2%", q(TTS, "showBackground"): "whenActive", q(TTS, "overflow"): "visible",
                          q(TTS, "displayAlign"): "after", q(TTS, "writingMode"): "lrtb", q(TTS, "position"): "center", q(TTS, "backgroundColor"): "#00000080"},
               [mk("set", {"begin": tx(2, 0), "dur": tx(3, 1), q(TTS, "visibility"): "hidden"}), mk("style", {q(TTS, "color"): "white"})]),
            # region geometry that comes ONLY from a referenced <style> and from a nested <style> (so that a malformed value there is not
            # masked by an inline attribute of the region)
            mk("style", {q(XML, "id"): "sg", q(TTS, "origin"): "5% 5%", q(TTS, "extent"): "60% 20%", q(TTS, "padding"): "1%"}),
            mk("region", {q(XML, "id"): "r2", "style": "sg"}, [mk("style", {q(TTS, "position"): "left 10% top 70%", q(EBUTTS, "linePadding"): "0.25c"})])]
    body = mk("body", {"begin": tx(1, 0), q(TTS, "color"): "aqua", "timeContainer": "par", q(XML, "space"): "default"}, [
      mk("div", {"region": "r1", "style": "s0", "begin": tx(1, 1), "dur": tx(20, 0)}, [
        mk("p", {"begin": tx(1, 0), "end": tx(10, 1), "style": "s1 s0", q(TTS, "textAlign"): "end", q(TTS, "color"): "rgb(1,2,3)",
                 q(TTS, "backgroundColor"): "#102030", q(XML, "space"): "preserve", "timeContainer": "par"},
           [mk("set", {"dur": tx(1, 0), q(TTS, "color"): "green"}), " x ",
            mk("span", {"dur": tx(2, 1), q(TTS, "fontWeight"): "normal", q(TTS, "textDecoration"): "noUnderline lineThrough", q(TTS, "color"): "rgba(9,8,7,6)"}, [" A "]),
            mk("br"), mk("span", {"begin": tx(1, 0), "end": tx(3, 1), q(TTS, "visibility"): "hidden", q(TTS, "display"): "auto", "timeContainer": "seq"},
                         ["dropped", mk("span", {"dur": tx(1, 0)}, ["B"])])]),
        mk("p", {"begin": tx(2, 1), "dur": tx(5, 0), q(TTS, "fontStyle"): "oblique"}, ["C ", mk("span", {"style": "s0"}, ["D"])])]),
      mk("div", {"region": "r2"}, [mk("p", {"begin": tx(3, 0), "dur": tx(4, 1)}, ["E"])])])
    a = {q(XML, "space"): "default", q(TTP, "frameRate"): "25", q(TTP, "frameRateMultiplier"): "1 1", q(TTP, "tickRate"): "1000",
         q(TTP, "cellResolution"): "40 20", q(TTS, "extent"): "1280px 720px"}
    docs.append((name, _serialise(tt(head, body, a))))
  return docs


def handmade_docs():
  """small documents for specific rules"""
  P = lambda a, k: mk("p", a, k)
  docs = []
  # diamond with conflicting values, forward references, missing reference, later reference wins
  head = [mk("style", {q(XML, "id"): "s3", "style": "s1 s2"}), mk("style", {q(XML, "id"): "s1", "style": "s0", q(TTS, "color"): "blue"}),
          mk("style", {q(XML, "id"): "s2", "style": "s0 nosuch", q(TTS, "fontWeight"): "bold"}),
          mk("style", {q(XML, "id"): "s0", q(TTS, "color"): "red", q(TTS, "fontStyle"): "italic", q(TTS, "fontWeight"): "normal"})]
  body = mk("body", {}, [mk("div", {}, [P({"style": "s3"}, ["A"]), P({"style": "s1 s2"}, ["B"]), P({"style": "s2 s1"}, ["C"]),
                                         P({"style": "s2 s1", q(TTS, "color"): "lime"}, ["D", mk("span", {"style": "s0"}, ["E"])])])])
  docs.append(_serialise(tt(head, body)))
  # nested > referential on regions, inline > nested, content inherits from its region
  head = [mk("style", {q(XML, "id"): "s1", q(TTS, "color"): "red", q(TTS, "textAlign"): "center", q(TTS, "fontStyle"): "italic"}),
          mk("region", {q(XML, "id"): "r1", "style": "s1", q(TTS, "fontStyle"): "oblique"},
             [mk("style", {q(TTS, "color"): "blue", q(TTS, "fontStyle"): "normal"})]),
          mk("region", {q(XML, "id"): "r2", "style": "s1", "begin": "1s", "dur": "2s"}, [mk("set", {"begin": "1s", q(TTS, "color"): "lime"})])]
  body = mk("body", {}, [mk("div", {}, [P({"region": "r1"}, ["A"]), P({"region": "r2"}, ["B"]), P({}, ["nowhere"])])])
  docs.append(_serialise(tt(head, body)))
  # set: later wins, relative to the animated element, clipped by it; several properties
  body = mk("body", {}, [mk("div", {"begin": "1s"}, [P({"begin": "1s", "end": "6s", q(TTS, "color"): "red"}, [
    mk("set", {"begin": "1s", "end": "4s", q(TTS, "color"): "blue"}), mk("set", {"begin": "2s", "dur": "1s", q(TTS, "color"): "lime"}),
    mk("set", {"begin": "3s", q(TTS, "visibility"): "hidden"}), mk("set", {"begin": "4s", "dur": "10s", q(TTS, "display"): "none"}), "A",
    mk("span", {"begin": "1s"}, [mk("set", {"dur": "1s", q(TTS, "fontWeight"): "bold"}), "B"])])])])
  docs.append(_serialise(tt([], body)))
  # textDecoration components, initial values
  head = [mk("initial", {q(TTS, "color"): "yellow"}), mk("initial", {q(TTS, "backgroundColor"): "navy"}), mk("initial", {q(TTS, "textAlign"): "end"})]
  body = mk("body", {q(TTS, "textDecoration"): "underline"}, [mk("div", {q(TTS, "textDecoration"): "overline noUnderline"}, [
    P({q(TTS, "textDecoration"): "lineThrough"}, ["A", mk("span", {q(TTS, "textDecoration"): "none"}, ["B"]),
                                               mk("span", {q(TTS, "backgroundColor"): "red", q(TTS, "color"): "white"}, ["C", mk("span", {}, ["D"])])])])])
  docs.append(_serialise(tt(head, body)))
  # values that are `false` for a careless truth test (0, 0.0) in every layer of the style cascade: a later reference beats an earlier one,
  # nested beats referential, inline beats nested, an animation beats them all -- also when the winning value is 0
  head = [mk("style", {q(XML, "id"): "sA", q(TTS, "opacity"): "1"}), mk("style", {q(XML, "id"): "sB", q(TTS, "opacity"): "0"}),
          mk("style", {q(XML, "id"): "sC", "style": "sA sB"}), mk("style", {q(XML, "id"): "sD", "style": "sB sA"}),
          mk("initial", {q(TTS, "opacity"): "0.5"})]
  body = mk("body", {}, [mk("div", {}, [P({"begin": "0s", "end": "4s"}, [
    mk("span", {"style": "sA sB"}, ["later-zero"]), mk("span", {"style": "sB sA"}, ["later-one"]), mk("span", {"style": "sC"}, ["chained-zero"]),
    mk("span", {"style": "sD"}, ["chained-one"]), mk("span", {"style": "sA", q(TTS, "opacity"): "0"}, ["inline-zero"]),
    mk("span", {"style": "sA"}, [mk("set", {"begin": "1s", "end": "2s", q(TTS, "opacity"): "0"}), "animated-zero"]),
    mk("span", {q(TTS, "opacity"): "0"}, [mk("set", {"begin": "1s", "end": "2s", q(TTS, "opacity"): "1"}), "animated-one"]), mk("span", {}, ["initial"])])])])
  docs.append(_serialise(tt(head, body)))
  # xml:space / xml:lang inheritance, anonymous spans, br
  body = mk("body", {q(XML, "lang"): "fr"}, [mk("div", {q(XML, "space"): "preserve"}, [
    P({}, ["  a  ", mk("span", {q(XML, "space"): "default", q(XML, "lang"): "ja"}, ["  b  ", mk("br"), "  c "]), " d "]),
    P({q(XML, "space"): "default", q(XML, "lang"): ""}, ["  a  ", mk("span", {q(TTS, "color"): "red"}, [" b "]), "  ", mk("br"), "  c ",
                                                         mk("span", {}, ["  "]), mk("span", {q(XML, "space"): "preserve"}, ["  p  "])])]),
    mk("div", {}, ["\n ", P({}, ["\n   one\n   two ", mk("span", {}, [" three"]), " ", mk("span", {}, [" "]), "four\n"]), "\n"])])
  docs.append(_serialise(tt([], body)))
  # seq with text children (zero duration), seq of spans, nested seq
  body = mk("body", {}, [mk("div", {"timeContainer": "seq"}, [
    P({"timeContainer": "seq", "dur": "10s"}, ["hidden", mk("span", {"dur": "1s"}, ["A"]), "hidden", mk("span", {"begin": "1s", "end": "3s"}, ["B"]),
                                               mk("span", {"dur": "0s"}, ["never"]), mk("span", {"dur": "1s", "timeContainer": "seq"},
                                                                                       [mk("span", {"dur": "0.5s"}, ["C"]), mk("span", {"dur": "2s"}, ["D"])])]),
    P({"begin": "1s", "dur": "2s"}, ["E"]), P({"end": "1s"}, ["F"])])])
  docs.append(_serialise(tt([], body)))
  # a span with tts:ruby="none" is an ordinary span
  body = mk("body", {}, [mk("div", {}, [P({}, ["A", mk("span", {q(TTS, "ruby"): "none"}, ["B"])])])])
  docs.append(_serialise(tt([], body)))
  # tts:textAlign="justify" (a TTML2 value outside the IMSC 1.1 text profile, #textAlign-justify: ignored like any malformed value)
  body = mk("body", {}, [mk("div", {}, [P({q(TTS, "textAlign"): "justify"}, ["A"])])])
  docs.append(_serialise(tt([], body)))
  return docs


# ---------------------------------------------------------------------------------------------------------------------
# corrupting one attribute

TIME_BAD = [("garbage", "abc"), ("empty", ""), ("no-metric", "1"), ("unknown-metric", "1x"), ("negative", "-1s"), ("no-fraction-digits", "1.s"),
            ("no-integer-digits", ".5s"), ("inner-space", "1 s"), ("short-clock", "00:00:1"), ("comma", "1,5s"), ("two-fractions", "00:00:01.5.5"),
            ("frames>=rate", "00:00:00:75"), ("frames>=rate", "=rate"), ("trailing-garbage-after-f", "10fps"), ("trailing-garbage-after-f", "10f5"), ("subframes", "00:00:01:10.5"),
            ("trailing-garbage-after-s", "1sec"), ("one-digit-hours", "0:00:01")]
ENUM_BAD = [("unknown-token", "foo"), ("unknown-token", None), ("unknown-token", "")]      # None: the valid token with its first letter in upper case
COLOR_BAD = [("short-hex", "#ff00"), ("non-hex", "#gg0000"), ("unknown-name", "reddish"), ("trailing-garbage", "#ff0000zz"),
             ("rgb-two-components", "rgb(1,2)"), ("rgba-three-components", "rgba(1,2,3)"), ("empty", ""), ("trailing-garbage", "rgb(1,2,3)x"),
             ("rgb-component>255", "rgb(300,0,0)", "rgb(255,0,0)")]
LENGTH_BAD = [("no-unit", "10"), ("no-number", "px"), ("inner-space", "10 px"), ("exponent", "1e2px"), ("unknown-unit", "10pt"), ("garbage", "abc"),
              ("empty", "")]
ENUMS = {"fontWeight", "fontStyle", "textAlign", "display", "visibility", "wrapOption", "direction", "unicodeBidi", "textCombine", "rubyAlign",
         "rubyPosition", "multiRowAlign", "showBackground", "overflow", "displayAlign", "writingMode"}
COLOR_ATTRS = {"color", "backgroundColor"}
LENGTH_ATTRS = {"fontSize", "lineHeight", "shear"}
OTHER_BAD = {
  "textDecoration": [("unknown-token", "blink"), ("unknown-token", ""), ("unknown-token", "Underline"), ("unknown-token", "underline blink")],
  "textShadow": [("one-component", "1px"), ("five-components", "1px 1px 1px 1px 1px"), ("garbage", "foo"), ("two-bad-lengths", "a b")],
  "textOutline": [("three-components", "red 1px 2px"), ("garbage", "foo"), ("bad-colour", "reddish 1px")],
  "textEmphasis": [("garbage", "foo bar")],
  "opacity": [("garbage", "abc"), ("two-dots", "1.0.0"), ("empty", "")],
  "luminanceGain": [("garbage", "abc")],
  # `em-units` / `px-unit`: values that PARSE as lengths but that the property does not admit (the canonical model rejects them): they are
  # malformed for this attribute like any other, wherever the attribute stands (inline, on a referenced or nested <style>, on <initial>, on <set>)
  "origin": [("one-component", "10%"), ("three-components", "1% 2% 3%"), ("garbage", "a b"), ("no-unit", "10 10"), ("em-units", "1em 2em")],
  "extent": [("one-component", "10%"), ("three-components", "1% 2% 3%"), ("garbage", "a b"), ("em-units", "1em 1em")],
  "linePadding": [("px-unit", "1px"), ("em-unit", "1em"), ("no-unit", "1"), ("garbage", "abc")],
  "padding": [("five-components", "1% 1% 1% 1% 1%"), ("garbage", "a"), ("no-unit", "1 2")],
  "position": [("garbage", "a b"), ("bad-length", "left 10"), ("em-units", "left 1em top 1em")],
  "fontFamily": [("empty", "")],
  "fillLineGap": [],
  "timeContainer": [("unknown-token", "excl"), ("wrong-case", "PAR"), ("empty", "")],
  "space": [("unknown-token", "keep"), ("wrong-case", "Preserve"), ("empty", "")],
  "frameRate": [("garbage", "abc"), ("zero", "0"), ("negative", "-25"), ("trailing-garbage", "25fps"), ("empty", ""), ("trailing-garbage", "29.97")],
  "frameRateMultiplier": [("one-number", "1000"), ("slash", "1000/1001"), ("zero-denominator", "1000 0"), ("zero-numerator", "0 1001"),
                          ("garbage", "a b"), ("trailing-garbage", "1000 1001x")],
  "tickRate": [("zero", "0"), ("garbage", "abc"), ("trailing-garbage", "1e3"), ("trailing-garbage", "10.5"), ("negative", "-10")],
  "cellResolution": [("zeros", "0 0"), ("one-number", "32"), ("garbage", "a b"), ("trailing-garbage", "32 15 1")],
  "tt-extent": [("garbage", "foo"), ("one-component", "100px"), ("percent", "100% 100%"), ("no-unit", "1920 1080")],
  "style": [("unknown-id", "nosuch")],
}
UNKNOWN_ATTRS = [("tts:foo", q(TTS, "foo"), "bar"), ("no-namespace", "bogus", "1"), ("ttp:foo", q(TTP, "foo"), "bar"), ("tts:fontWeigth", q(TTS, "fontWeigth"), "bold")]


def corruptions_for(elem, attr, frame_rate):
  """-> [(attribute class, corruption id, new value, acceptable alternative value or None)]"""
  name = attr.split("}")[-1]
  ns = attr[1:].split("}")[0] if attr.startswith("{") else ""
  tag = elem.tag.split("}")[-1]
  v = elem.get(attr)
  out = []
  if ns == "" and name in ("begin", "end", "dur"):
    for c in TIME_BAD:
      val = c[1]
      if c[0] == "frames>=rate":
        val = f"00:00:00:{frame_rate + (0 if val == '=rate' else 5):02d}"
      out.append(("time", c[0], val, None))
  elif ns == TTS and name == "extent" and tag == "tt":
    out += [("tt-extent", c[0], c[1], None) for c in OTHER_BAD["tt-extent"]]
  elif ns in (TTS, EBUTTS, ITTS) and name in ENUMS:
    for cid, val in ENUM_BAD:
      if val is None:
        val = v[0].upper() + v[1:]
      out.append(("enum", cid, val, None))
  elif ns == TTS and name in COLOR_ATTRS:
    out += [("colour", c[0], c[1], c[2] if len(c) > 2 else None) for c in COLOR_BAD]
  elif ns in (TTS, EBUTTS) and name in LENGTH_ATTRS:
    out += [("length", cid, val, None) for cid, val in LENGTH_BAD]
  elif (ns in (TTS, TTP, ITTS, XML, EBUTTS) and name in OTHER_BAD and name != "style") or (ns == "" and name in ("timeContainer", "style")):
    out += [(name, cid, val, None) for cid, val in OTHER_BAD[name]]
  return out


def _attr_sites(root):
  sites = []
  for i, e in enumerate(root.iter()):
    for a in sorted(e.attrib):
      sites.append((i, a))
  return sites


def corrupt_cases(xml_text, r, limit):
  """-> [(class, cid, corrupted xml, removed xml, alternative xml or None, description)]"""
  root = et.fromstring(xml_text)
  pr = S.read_params(root)
  fr = int(max(Fraction(pr.frame_rate), pr.effective_frame_rate))     # at or above both the nominal and the effective rate
  elems = list(root.iter())
  cases = []
  for i, a in _attr_sites(root):
    for cls, cid, val, alt in corruptions_for(elems[i], a, fr):
      cases.append((i, a, cls, cid, val, alt))
  # unknown attributes on a few elements
  content = [i for i, e in enumerate(elems) if e.tag.split("}")[-1] in ("tt", "body", "div", "p", "span", "region", "style", "set", "br")]
  for i in r.sample(content, min(2, len(content))):
    for cid, a, val in UNKNOWN_ATTRS:
      if a not in elems[i].attrib:
        cases.append((i, a, "unknown-attribute", f"{cid}@{elems[i].tag.split('}')[-1]}", val, None))
  if limit is not None and len(cases) > limit:
    cases = r.sample(cases, limit)
  out = []
  for i, a, cls, cid, val, alt in cases:
    def variant(value):
      rt = et.fromstring(xml_text)
      e = list(rt.iter())[i]
      if value is None:
        e.attrib.pop(a, None)
      else:
        e.set(a, value)
      return _serialise(rt)
    tag = elems[i].tag.split("}")[-1]
    out.append((cls, cid, variant(val), variant(None), variant(alt) if alt is not None else None,
                f"{tag}@{a.split('}')[-1]}={val!r} (was {elems[i].get(a)!r})", a.split("}")[-1]))
  return out


def full_snapshots(xml_text):
  """-> (signature of the document at every change time, log records); exceptions propagate.
  The signature is the full ISD (every computed style of every element) at every time, plus document parameters."""
  from specs import isd as ISDSPEC
  doc, logs = read(xml_text)
  if doc is None:
    return None, logs
  # ttconv against ttconv: both documents are piecewise constant between their own change times, so the boundaries suffice
  ts = sorted(x for x in ISDSPEC.change_times(doc) if x is not None and x >= 0)
  times = set(ts)
  times.add(Fraction(0))
  sig = [("doc", str(doc.get_lang()), str(doc.get_cell_resolution()), str(doc.get_px_resolution()), str(doc.get_active_area()),
          str(doc.get_display_aspect_ratio()))]
  for t in sorted(times):
    try:
      isd = ISD.from_model(doc, t)
    except ValueError as e:
      if "ruby" in str(e) or "rtc" in str(e):
        sig.append((str(t), "partial-ruby"))
        continue
      raise
    sig.append((str(t), _isd_sig(isd)))
  return sig, logs


def _first(x):
  return x[0]


_REF_CACHE = {}


def reference(removed_xml):
  """full_snapshots of the document without the attribute (cached per chunk: many corruptions share it)"""
  k = hashlib.sha1(removed_xml.encode()).digest()
  if k not in _REF_CACHE:
    if len(_REF_CACHE) > 64:
      _REF_CACHE.clear()
    try:
      _REF_CACHE[k] = full_snapshots(removed_xml)
    except Exception as e:  # pylint: disable=broad-except
      _REF_CACHE[k] = e
  return _REF_CACHE[k]


def _isd_sig(isd):
  def el(e):
    if isinstance(e, m.Text):
      return ("Text", e.get_text())
    styles = tuple(sorted(((p.__name__, e.get_style(p)) for p in e.iter_styles()), key=_first))
    lang = None if isinstance(e, m.Br) else e.get_lang()
    return (type(e).__name__, e.get_id(), lang, styles, tuple(el(c) for c in e))
  return tuple(el(r) for r in isd.iter_regions())


def check_corruption(rec, case, origin):
  cls, cid, bad_xml, removed_xml, alt_xml, desc, aname = case
  contract = "corrupt-one-attribute"
  base = f"corrupt:{cls}:{cid}"
  rargs = {"xml": bad_xml, "removed": removed_xml, "alt": alt_xml}
  refr = reference(removed_xml)
  if isinstance(refr, Exception):
    return          # the reference document itself fails (reported by snapshot==TTML): nothing to compare with
  ref, ref_logs = refr
  rec.evaluated(contract, hashlib.sha1(bad_xml.encode()).hexdigest()[:12], {"corruption": desc, "origin": origin})
  try:
    got, logs = full_snapshots(bad_xml)
  except Exception as e:  # pylint: disable=broad-except
    rec.fail(f"{base}:raises-{type(e).__name__}", contract, f"{desc}: {type(e).__name__}: {e} escapes (in {_where(e.__traceback__)})",
             {"xml": bad_xml}, repr(e), "attribute ignored, error logged, no exception", "replayers.c04:corrupt", rargs)
    return
  same = got == ref
  if not same and alt_xml is not None:
    try:
      same = got == full_snapshots(alt_xml)[0]
    except Exception:  # pylint: disable=broad-except
      pass
  logged = len(logs) > len(ref_logs)
  if not same:
    rec.fail(f"{base}:accepted", contract, f"{desc}: the value is used -- snapshots differ from those of the document without the attribute"
             + ("" if logged else "; nothing logged"),
             {"xml": bad_xml}, _first_diff(ref, got), "same snapshots as without the attribute", "replayers.c04:corrupt", rargs)
  elif not logged:
    rec.fail(f"{base}:not-logged", contract, f"{desc}: no log record reports the attribute", {"xml": bad_xml}, logs,
             "one more ttconv.imsc.* record (WARNING or above) than without the attribute", "replayers.c04:corrupt", rargs)


def _first_diff(a, b):
  if a is None or b is None:
    return f"{a!r} vs {b!r}"[:600]
  for x, y in zip(a, b):
    if x != y:
      return f"without: {x!r}"[:500] + " || corrupted: " + f"{y!r}"[:500]
  return f"lengths {len(a)} vs {len(b)}"


# ---------------------------------------------------------------------------------------------------------------------
# inline-value catalogue (model getters)


def _len(v):
  return (float(v.value), v.units.value)


def model_value(v):
  """canonical, ttconv-independent rendering of a model style value"""
  if v is None:
    return None
  if isinstance(v, sp.LengthType):
    return _len(v)
  if isinstance(v, sp.ColorType):
    return tuple(v.components)
  if isinstance(v, sp.ExtentType):
    return ("extent", _len(v.width), _len(v.height))
  if isinstance(v, sp.CoordinateType):
    return ("xy", _len(v.x), _len(v.y))
  if isinstance(v, sp.PaddingType):
    return ("padding", _len(v.before), _len(v.end), _len(v.after), _len(v.start))
  if isinstance(v, sp.PositionType):
    return ("position", v.h_edge.value, _len(v.h_offset), v.v_edge.value, _len(v.v_offset))
  if isinstance(v, sp.TextDecorationType):
    return (v.underline, v.line_through, v.overline)
  if isinstance(v, sp.TextOutlineType):
    return ("outline", model_value(v.color), _len(v.thickness))
  if isinstance(v, sp.TextShadowType):
    return ("shadows",) + tuple((_len(s.x_offset), _len(s.y_offset), None if s.blur_radius is None else _len(s.blur_radius), model_value(s.color))
                                for s in v.shadows)
  if isinstance(v, sp.TextEmphasisType):
    return ("emphasis", v.style.value, model_value(v.color), v.position.value)
  if isinstance(v, sp.RubyReserveType):
    return ("reserve", v.position.value, None if v.length is None else _len(v.length))
  if isinstance(v, tuple):
    return tuple(x.value if hasattr(x, "value") else x for x in v)
  if hasattr(v, "value"):
    return v.value
  return v


def check_values(rec):
  contract = "inline-value"
  for ns, name, on, value, expected in S.VALUE_CATALOGUE:
    prop = getattr(SP, name[0].upper() + name[1:])
    attrs = {q(ns, name): value, q(XML, "id"): "x1"}
    if on == "region":
      doc_xml = _serialise(tt([mk("region", attrs)], mk("body", {}, [mk("div", {}, [mk("p", {"region": "x1"}, ["A"])])])))
    elif on == "p":
      doc_xml = _serialise(tt([], mk("body", {}, [mk("div", {}, [mk("p", attrs, ["A"])])])))
    else:
      doc_xml = _serialise(tt([], mk("body", {}, [mk("div", {}, [mk("p", {}, [mk("span", attrs, ["A"])])])])))
    rec.evaluated(contract, f"{name}={value}", {"attribute": name, "value": value})
    rargs = {"xml": doc_xml, "name": name, "on": on, "expected": repr(expected)}
    try:
      doc, _ = read(doc_xml)
      e = doc.get_region("x1") if on == "region" else next(x for x in doc.get_body().dfs_iterator() if isinstance(x, m.P if on == "p" else m.Span))
      got = model_value(e.get_style(prop))
    except Exception as ex:  # pylint: disable=broad-except
      rec.fail(f"value:{name}:raises-{type(ex).__name__}", contract, f"tts:{name}={value!r}: {type(ex).__name__}: {ex}",
               {"xml": doc_xml}, repr(ex), repr(expected), "replayers.c04:value", rargs)
      continue
    if not _value_eq(got, expected):
      rec.fail(f"value:{name}:{_slug(value, 30)}", contract, f"tts:{name}={value!r} read as {got!r}", {"xml": doc_xml}, repr(got), repr(expected),
               "replayers.c04:value", rargs)


def check_parameters(rec):
  """document-level parameters through the model getters"""
  contract = "document-parameters"
  cases = [
    ({q(TTP, "cellResolution"): "40 20"}, "cell resolution (columns, rows)", lambda d: (d.get_cell_resolution().columns, d.get_cell_resolution().rows), (40, 20)),
    ({}, "default cell resolution (columns, rows)", lambda d: (d.get_cell_resolution().columns, d.get_cell_resolution().rows), (32, 15)),
    ({q(TTS, "extent"): "1280px 720px"}, "pixel resolution (width, height)", lambda d: (d.get_px_resolution().width, d.get_px_resolution().height), (1280, 720)),
    ({q(XML, "lang"): "fr-CA"}, "xml:lang", lambda d: d.get_lang(), "fr-CA"),
    ({q(XML, "lang"): None}, "xml:lang absent", lambda d: d.get_lang(), ""),
    ({q(ITTP, "activeArea"): "10% 20% 80% 70%"}, "active area (left, top, width, height)",
     lambda d: tuple(round(float(x), 9) for x in (d.get_active_area().left_offset, d.get_active_area().top_offset, d.get_active_area().width,
                                                  d.get_active_area().height)), (0.1, 0.2, 0.8, 0.7)),
    ({q(TTP, "displayAspectRatio"): "4 3"}, "display aspect ratio", lambda d: Fraction(d.get_display_aspect_ratio()), Fraction(4, 3)),
    ({q(ITTP, "aspectRatio"): "16 9"}, "ittp:aspectRatio", lambda d: Fraction(d.get_display_aspect_ratio()), Fraction(16, 9)),
  ]
  for attrs, what, getter, expected in cases:
    doc_xml = _serialise(tt([], mk("body", {}, [mk("div", {}, [mk("p", {}, ["A"])])]), attrs))
    rec.evaluated(contract, what, {"parameter": what})
    try:
      doc, _ = read(doc_xml)
      got = getter(doc)
    except Exception as ex:  # pylint: disable=broad-except
      rec.fail(f"parameter:{_slug(what)}:raises-{type(ex).__name__}", contract, f"{what}: {type(ex).__name__}: {ex}", {"xml": doc_xml}, repr(ex),
               repr(expected), "replayers.c04:snapshot", {"xml": doc_xml})
      continue
    if got != expected:
      rec.fail(f"parameter:{_slug(what)}", contract, f"{what} read as {got!r}", {"xml": doc_xml}, repr(got), repr(expected),
               "replayers.c04:parameter", {"xml": doc_xml, "what": what, "expected": repr(expected), "observed": repr(got)})


def _value_eq(a, b):
  if isinstance(a, float) or isinstance(b, float):
    try:
      return abs(float(a) - float(b)) < 1e-9
    except (TypeError, ValueError):
      return False
  if isinstance(a, (tuple, list)) and isinstance(b, (tuple, list)):
    return len(a) == len(b) and all(_value_eq(x, y) for x, y in zip(a, b))
  return a == b


# ---------------------------------------------------------------------------------------------------------------------
# driver


def check_doc(rec, xml_text, origin, state):
  contract = "snapshot==TTML"
  res = evaluate(xml_text)
  if res.status == "oos":
    state["oos"] = state.get("oos", 0) + 1
    return res
  fp = hashlib.sha1(xml_text.encode()).hexdigest()[:12]
  for _ in range(max(1, res.n)):
    rec.evaluated(contract, fp, {"origin": origin, "xml": xml_text[:400]})
  if res.status != "fail":
    return res
  key = res.kind
  small = xml_text
  explained = explain(xml_text) if res.kind.startswith("snapshot:") else None
  if explained:
    key = "snapshot:" + explained
  elif res.kind.startswith("snapshot:"):
    if state.get("min_s", 0.0) < state.get("min_budget_s", 20.0):
      t0 = time.time()
      small = minimise(xml_text, res.kind)
      state["min_s"] = state.get("min_s", 0.0) + time.time() - t0
      res2 = evaluate(small)
      if res2.status == "fail" and res2.kind == res.kind:
        res = res2
      else:
        small = xml_text
      key = f"{res.kind}[{features(small)}]"
    else:
      key = f"{res.kind}[not-minimised:{origin.split('/')[0]}]"
  prev = rec.failures.get(key)
  rec.fail(key, contract, f"{origin}: {res.summary}", {"xml": small}, res.observed, res.required, "replayers.c04:snapshot",
           {"xml": small, "t": None if res.t is None else str(res.t)})
  if prev is not None and len(small) < len(prev["input"]["xml"]):
    prev.update(summary=f"{origin}: {res.summary}", input={"xml": small}, observed=res.observed, required=res.required,
                replay_args={"xml": small, "t": None if res.t is None else str(res.t)})
  return res


def explain(xml_text):
  """name(s) of the described deviation(s) under which the oracle agrees with ttconv on this document, or None"""
  for dev in S.DEVIATIONS:
    if evaluate(xml_text, deviations=(dev,)).status == "ok":
      return dev
  if evaluate(xml_text, deviations=S.DEVIATIONS).status == "ok":
    return "+".join(S.DEVIATIONS)
  return None


def work(item):
  kind, lo, hi, seed, tier = item
  t_start = time.time()
  try:
    return _work(item)
  finally:
    if os.environ.get("C04_VERBOSE"):
      print(f"[c04] {kind} {lo}-{hi}: {time.time() - t_start:.1f}s", file=sys.stderr)


def _work(item):
  kind, lo, hi, seed, tier = item
  install_capture()
  rec = Recorder("C04", "", {})
  state = {"min_budget_s": 25.0 if tier == "quick" else 120.0}
  docs = []
  if kind == "sink":
    name, xml_text = sink_docs()[lo]
    res = check_doc(rec, xml_text, f"sink/{name}", state)
    cases = corrupt_cases(xml_text, rng(0, "c04/sink"), None)
    for case in cases[hi::4]:
      check_corruption(rec, case, f"sink/{name}")
    return rec
  if kind == "fixed":
    allf = [("time-syntax", d) for d in time_syntax_docs()] + [("containers", d) for d in container_docs()]
    docs = [(f"{n}/{i}", d) for i, (n, d) in enumerate(allf)][lo:hi]
  elif kind == "handmade":
    docs = [(f"handmade/{i}", d) for i, d in enumerate(handmade_docs())] + [(f"seed/{fn}", d) for fn, d in seed_docs()]
    check_values(rec)
    check_parameters(rec)
  else:
    cfg = {"random": None, "timing": CFG_TIMING, "style": CFG_STYLE, "space": CFG_SPACE, "region": CFG_REGION, "ruby": CFG_RUBY,
           "seq-indef": CFG_SEQ_INDEF}[kind]
    docs = [(f"{kind}/{i}", fam_random(seed, f"{kind}/{i}", cfg)) for i in range(lo, hi)]
  r = rng(seed, f"c04/corrupt/{kind}/{lo}")
  per_doc = 4 if tier == "quick" else 10
  cpu = {"eval": 0.0, "corrupt": 0.0}
  for origin, xml_text in docs:
    c0 = time.process_time()
    res = check_doc(rec, xml_text, origin, state)
    cpu["eval"] += time.process_time() - c0
    if kind == "fixed":
      continue
    if res.status == "fail" and res.kind.startswith("to_model-raises"):
      continue
    limit = 3 * per_doc if kind == "handmade" else per_doc
    c0 = time.process_time()
    for case in corrupt_cases(xml_text, r, limit):
      check_corruption(rec, case, origin)
    cpu["corrupt"] += time.process_time() - c0
  rec.oos = state.get("oos", 0)
  if os.environ.get("C04_VERBOSE"):
    print(f"[c04] {kind} {lo}-{hi}: cpu eval {cpu['eval']:.1f} (minimise {state.get('min_s', 0):.1f} wall) corrupt {cpu['corrupt']:.1f}", file=sys.stderr)
  return rec


def plan(tier, seed):
  quick = tier == "quick"
  items = []
  nfixed = len(time_syntax_docs()) + len(container_docs())
  step = (nfixed + 7) // 8
  for lo in range(0, nfixed, step):
    items.append(("fixed", lo, min(nfixed, lo + step), seed, tier))
  items.append(("handmade", 0, 0, seed, tier))
  for i in range(len(sink_docs())):
    for part in range(4):
      items.append(("sink", i, part, seed, tier))
  sizes = {"random": 240, "timing": 280, "style": 240, "space": 160, "region": 160, "ruby": 80, "seq-indef": 40}
  mult = 1 if quick else 10
  for kind, n in sizes.items():
    n *= mult
    chunk = 40 if quick else 120
    for lo in range(0, n, chunk):
      items.append((kind, lo, min(n, lo + chunk), seed, tier))
  return items


def main():
  args = parse_args()
  items = plan(args.tier, args.seed)
  rec = Recorder("C04", "generated TTML/IMSC documents (grammar families: time syntax x time base [exhaustive over a catalogue], container "
                 "kind x timing combination [exhaustive], random trees to depth 4 with par/seq, sets, regions, style graphs, mixed content, "
                 "xml:space/lang, ruby; hand-made rule documents; the local .ttml files) x every interval boundary, midpoint and one instant "
                 "after the last boundary; then each document with one attribute corrupted (catalogue of malformed values, unknown tokens, "
                 "unknown attributes).  A case is non-trivial when it is a distinct (contract, document) pair",
                 {"families": sorted(set(i[0] for i in items)), "documents": sum(max(0, i[2] - i[1]) for i in items if i[0] != "sink"),
                  "tier": args.tier})
  oos = 0
  for part in parallel(work, items):
    for k, v in part.failures.items():        # keep the shortest witness of a key
      old = rec.failures.get(k)
      if old is not None and v.get("input") and old.get("input") and len(v["input"]["xml"]) < len(old["input"]["xml"]):
        v["count"] += old["count"]
        del rec.failures[k]
    rec.merge(part)
    oos += getattr(part, "oos", 0)
  rec.scope["documents_outside_oracle_scope"] = oos
  return rec.dump(args.out)


if __name__ == "__main__":
  sys.exit(main())
