"""C06 bounded tier: cues of srt.writer.from_model / vtt.writer.from_model == reference flattening (specs/cues.py).

  python -m rtc.c06 --tier quick|thorough --seed N --out FILE.json        (logic in rtc/cues_common.py)
"""
import sys

from rtc import cues_common

PER_SCOPE = {"full": 30, "multi": 30, "noregion": 16, "plain": 20, "styled": 24, "regions": 24, "ruby": 16, "subms": 20}

if __name__ == "__main__":
  sys.exit(cues_common.main("C06", PER_SCOPE))
