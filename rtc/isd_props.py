"""Bounded tier of C01, C02, C13, C14: run-time contracts on ISD.from_model / significant_times / generate_isd_sequence against
the independent oracle specs/isd.py, over generated canonical-model documents (rtc/docgen.py) and all boundary times.

  python -m rtc.isd_props --prop C01|C02|C13|C14 --tier .. --seed .. --out ..
"""
import argparse
import logging
import sys
from fractions import Fraction

from rtc.common import Recorder, rng, parallel
from rtc import docgen
from specs import isd as S
from specs import modelwf as W

import ttconv.model as m
import ttconv.style_properties as sp
from ttconv.isd import ISD

SP = sp.StyleProperties


# ----------------------------------------------------------------------------------------------------------------------
# views of an actual ISD


def tree(e):
  if isinstance(e, m.Text):
    return ("Text", e.get_text())
  k = "Region" if isinstance(e, ISD.Region) else type(e).__name__
  return (k, e.get_id(), [tree(c) for c in e])


def norm(node):
  """childless ruby bases (rb, rbc) may be kept or pruned: remove them, and containers left empty, from both sides"""
  if node[0] == "Text":
    return node
  kids = [norm(c) for c in node[2]]
  kids = [c for c in kids if c is not None]
  if not kids and node[0] not in ("Br", "Region"):
    return None
  return (node[0], node[1], kids)


def sval(v):
  return repr(v)


def fp_elem(e):
  if isinstance(e, m.Text):
    return ("Text", e.get_text())
  styles = tuple(sorted((p.__name__, sval(e.get_style(p))) for p in e.iter_styles()))
  return (type(e).__name__, e.get_id(), e.get_lang(), str(e.get_space()), styles, tuple(fp_elem(c) for c in e))


def fp_isd(isd, drop_invisible_empty_regions=False):
  out = []
  for r in isd.iter_regions():
    if drop_invisible_empty_regions and not r.has_children():
      bg = r.get_style(SP.BackgroundColor)
      if (bg is not None and bg.components[3] == 0) or r.get_style(SP.Opacity) == 0 or r.get_style(SP.Visibility) is sp.VisibilityType.hidden:
        continue
    out.append(fp_elem(r))
  params = (isd.get_lang(), isd.get_cell_resolution(), isd.get_px_resolution(), isd.get_active_area(), isd.get_display_aspect_ratio())
  return (tuple(out), params)      # in the ISD's own region order: overlapping regions are painted, and the writers emit text, in that order


def fp_doc(doc):
  """deep fingerprint of a source document (structure, timing, styles, animation, regions, initial values, parameters)"""
  def rec(e):
    if isinstance(e, m.Text):
      return ("Text", e.get_text())
    return (type(e).__name__, e.get_id(), e.get_begin(), e.get_end(), e.get_region().get_id() if e.get_region() is not None else None,
            None if isinstance(e, m.Br) else (e.get_lang(), str(e.get_space())),
            tuple(sorted((p.__name__, sval(e.get_style(p))) for p in e.iter_styles())),
            tuple((s.style_property.__name__, s.begin, s.end, sval(s.value)) for s in e.iter_animation_steps()),
            tuple(rec(c) for c in e), id(e))
  return (tuple(rec(r) for r in doc.iter_regions()), rec(doc.get_body()) if doc.get_body() is not None else None,
          tuple(sorted((p.__name__, sval(v)) for p, v in doc.iter_initial_values())),
          doc.get_lang(), doc.get_cell_resolution(), doc.get_px_resolution(), doc.get_active_area(), doc.get_display_aspect_ratio())


def default_region_bg(doc):
  """witness class: a document without regions whose <initial> background colour paints the implied default region"""
  return ":default-region-background" if (not list(doc.iter_regions()) and doc.has_initial_value(SP.BackgroundColor)) else ""


def times_for(doc):
  ct = S.change_times(doc)
  ts = set(ct)
  for a, b in zip(ct, ct[1:]):
    ts.add((a + b) / 2)
  ts.add((ct[-1] if ct else Fraction(0)) + 1)
  ts.add(Fraction(0))
  return sorted(ts), ct


def safe_from_model(doc, t, sig=None):
  try:
    return ISD.from_model(doc, t, sig), None
  except Exception as e:  # pylint: disable=broad-except
    return None, e


# ----------------------------------------------------------------------------------------------------------------------
# C01


def first_diff(a, b, path="isd"):
  if a is None or b is None:
    return f"{path}: {'missing in snapshot' if a is None else 'unexpected in snapshot'} {b if a is None else a}"
  if a[0] != b[0] or a[1] != b[1]:
    return f"{path}: snapshot has {a[:2]}, expected {b[:2]}"
  if a[0] == "Text":
    return None
  for i in range(max(len(a[2]), len(b[2]))):
    x = a[2][i] if i < len(a[2]) else None
    y = b[2][i] if i < len(b[2]) else None
    if x != y:
      return first_diff(x, y, f"{path}/{a[0]}#{a[1]}[{i}]")
  return None


def check_c01(rec, doc, seed_info):
  ts, _ = times_for(doc)
  try:
    sig = ISD.significant_times(doc)
  except Exception:  # pylint: disable=broad-except
    sig = None     # reported by C02
  for t in ts:
    want, flags = S.snapshot(doc, t)
    isd, err = safe_from_model(doc, t)
    desc = {"doc": docgen.describe(doc), "t": str(t), "gen": seed_info}
    if err is not None:
      rec.evaluated("snapshot == TTML active content", None)
      key = "from_model-raises:" + type(err).__name__ + (":partial-ruby" if flags["ruby_pattern_broken"] and "ruby" in str(err).lower() + " rtc" else "")
      rec.fail(key, "snapshot == TTML active content", f"ISD.from_model raised {err!r} at t={t} on {docgen.describe(doc, 600)}", desc,
               replayer="replayers.isd:replay", replay_args={"prop": "C01", "gen": seed_info, "t": str(t)})
      continue
    # a ruby with a part that is not presented: the remaining parts are compared like everything else (empty containers, i.e. the
    # empty stand-ins of the absent parts, are removed from both sides by norm)
    got = {r.get_id(): norm(tree(r)) for r in isd.iter_regions()}
    exp = {k: norm(S.strip(v)) for k, v in want.items()}
    nontrivial = any(v is not None and v[2] for v in exp.values())
    rec.evaluated("snapshot == TTML active content", hash((seed_info, t)) if nontrivial else None, desc if nontrivial else None, nontrivial)
    if got != exp:
      d = None
      for k in sorted(set(got) | set(exp)):
        if got.get(k) != exp.get(k):
          d = first_diff(got.get(k), exp.get(k), f"region {k}")
          break
      kinds = classify_diff(got, exp)
      rec.fail("c01:" + kinds, "snapshot == TTML active content", f"t={t}: {d}; document {docgen.describe(doc, 700)}", desc,
               observed=repr(got)[:600], required=repr(exp)[:600],
               replayer="replayers.isd:replay", replay_args={"prop": "C01", "gen": seed_info, "t": str(t)})
      continue
    # the same snapshot taken with the precomputed significant times: every region WITH CONTENT must be the same
    # (regions without content may be left out when they paint nothing, see C14)
    if sig is not None:
      isd2, err2 = safe_from_model(doc, t, sig)
      rec.evaluated("snapshot(with significant times) == TTML active content", hash((seed_info, t, 1)) if nontrivial else None, None, nontrivial)
      if err2 is not None:
        rec.fail("from_model(cached)-raises:" + type(err2).__name__, "snapshot(with significant times) == TTML active content",
                 f"ISD.from_model(doc, {t}, sig_times) raised {err2!r}", desc, replayer="replayers.isd:replay",
                 replay_args={"prop": "C01", "gen": seed_info, "t": str(t)})
        continue
      got2 = {r.get_id(): norm(tree(r)) for r in isd2.iter_regions()}
      got2 = {k: v for k, v in got2.items() if v[2]}
      exp2 = {k: v for k, v in exp.items() if v[2]}
      if got2 != exp2:
        rec.fail("c01-cached:" + classify_diff(got2, exp2), "snapshot(with significant times) == TTML active content",
                 f"t={t}: with significant times the content regions are {sorted(got2)}, TTML gives {sorted(exp2)}; {docgen.describe(doc, 600)}", desc,
                 replayer="replayers.isd:replay", replay_args={"prop": "C01", "gen": seed_info, "t": str(t)})


def flat(node, out):
  if node is None:
    return
  if node[0] == "Text":
    out.append(("T", node[1]))
    return
  out.append((node[0], node[1]))
  for c in node[2]:
    flat(c, out)


def classify_diff(got, exp):
  """a coarse, stable witness class: which kind of node is missing / extra / different"""
  if set(got) != set(exp):
    return "region-set:" + ("extra" if set(got) - set(exp) else "missing")
  g, e = [], []
  for k in sorted(got):
    flat(got[k], g)
    flat(exp[k], e)
  gs, es = set(g), set(e)
  if gs == es:
    return "order-or-duplication"
  extra, missing = gs - es, es - gs
  if extra and missing and all(x[0] == "T" for x in extra | missing):
    return "text-content"
  if extra and not missing:
    return "extra:" + sorted(x[0] for x in extra)[0]
  if missing and not extra:
    return "missing:" + sorted(x[0] for x in missing)[0]
  return "extra-and-missing:" + sorted(x[0] for x in extra | missing)[0]


# ----------------------------------------------------------------------------------------------------------------------
# C02


def _holds_without_offset_steps(seed_info, t):
  """witness class of the known finding `animation-step-boundary`: the same document without the animation steps of elements that have a
  non-zero begin shows no change between its significant times at t"""
  doc = gen_doc(seed_info)
  n = 0
  for e in docgen.all_elements(doc):
    if not isinstance(e, (m.Text,)) and not isinstance(e, m.Region) and e.get_begin() not in (None, 0):
      for st in list(e.iter_animation_steps()):
        e.remove_animation_step(st)
        n += 1
  if n == 0:
    return False
  try:
    offs = [s for s in ISD.significant_times(doc) if s <= t]
    if not offs:
      return False
    return fp_isd(ISD.from_model(doc, t), True) == fp_isd(ISD.from_model(doc, offs[-1]), True)
  except Exception:  # pylint: disable=broad-except
    return False


def check_c02(rec, doc, seed_info):
  desc = {"doc": docgen.describe(doc), "gen": seed_info}
  ra = {"prop": "C02", "gen": seed_info}
  try:
    sig = ISD.significant_times(doc)
    offs = list(sig)
  except Exception as e:  # pylint: disable=broad-except
    rec.evaluated("significant times", None)
    ruby = ":partial-ruby" if ("ruby" in str(e).lower() or "rtc" in str(e).lower()) else ""
    rec.fail("significant_times-raises:" + type(e).__name__ + ruby, "significant times", f"significant_times raised {e!r} on {docgen.describe(doc, 600)}", desc,
             replayer="replayers.isd:replay", replay_args=ra)
    return
  rec.evaluated("significant times strictly increasing", hash(seed_info), {"gen": seed_info, "sig": [str(x) for x in offs]})
  if any(not a < b for a, b in zip(offs, offs[1:])):
    rec.fail("sig-times-not-increasing", "significant times strictly increasing", f"{offs}", desc, replayer="replayers.isd:replay", replay_args=ra)
  ts, ct = times_for(doc)
  cache = {}

  def snap(t):
    if t not in cache:
      isd, err = safe_from_model(doc, t)
      cache[t] = ("raised", repr(err)) if err is not None else fp_isd(isd, True)
    return cache[t]

  if any(snap(t)[0] == "raised" for t in ts):
    return       # failures of from_model itself are reported by C01 / C18
  kinds = S.change_times(doc, kinds=True)
  for t in ts:
    prev = [s for s in offs if s <= t]
    cur = snap(t)
    nontrivial = bool(cur[0])
    rec.evaluated("snapshot(t) == snapshot(greatest significant time <= t)", hash((seed_info, t)) if nontrivial else None, None, nontrivial)
    if not prev:
      if cur[0]:
        rec.fail("content-before-first-significant-time" + default_region_bg(doc), "snapshot(t) == snapshot(greatest significant time <= t)",
                 f"t={t} shows content but the first significant time is {offs[:1]}; {docgen.describe(doc, 600)}", desc,
                 replayer="replayers.isd:replay", replay_args=ra)
      continue
    ref = snap(prev[-1])
    if cur != ref:
      # which kind of instant is missing: an animation step boundary or an element boundary
      # (the instant at which the snapshot actually changes first, not every candidate instant in between: the candidates are a
      # superset, e.g. ends of children that are clipped by their parent)
      missed = [c for c in sorted(kinds) if prev[-1] < c <= t and c not in offs]
      first = next((c for c in missed if snap(c) != ref), None)
      only_anim = first is not None and (kinds[first] == {"animation"} or _holds_without_offset_steps(seed_info, t))
      rec.fail("change-between-significant-times" + (":animation-step-boundary" if only_anim else ""),
               "snapshot(t) == snapshot(greatest significant time <= t)",
               f"snapshot at t={t} differs from the one at the significant time {prev[-1]} (significant times {offs}); {docgen.describe(doc, 700)}", desc,
               replayer="replayers.isd:replay", replay_args=dict(ra, t=str(t)))
      break
  # the generated sequence is the list of snapshots at those times, in order
  try:
    seq = ISD.generate_isd_sequence(doc)
  except Exception as e:  # pylint: disable=broad-except
    rec.fail("generate_isd_sequence-raises:" + type(e).__name__, "sequence == snapshots at the significant times", f"{e!r}", desc,
             replayer="replayers.isd:replay", replay_args=ra)
    return
  rec.evaluated("sequence == snapshots at the significant times", hash((seed_info, "seq")))
  if [t for t, _ in seq] != offs or any(fp_isd(i, True) != snap(t) for t, i in seq):
    rec.fail("sequence-differs" + default_region_bg(doc), "sequence == snapshots at the significant times",
             f"generate_isd_sequence gives times {[str(t) for t, _ in seq]}, significant times {[str(t) for t in offs]}", desc,
             replayer="replayers.isd:replay", replay_args=ra)


# ----------------------------------------------------------------------------------------------------------------------
# C13


def lengths_in(v, out):
  if isinstance(v, sp.LengthType):
    out.append(v)
  elif hasattr(v, "__dataclass_fields__"):
    for f in v.__dataclass_fields__:
      lengths_in(getattr(v, f), out)
  elif isinstance(v, (tuple, list)):
    for x in v:
      lengths_in(x, out)


def shape_problems(isd, doc):
  """the clauses of the documented ISD shape that do not need an oracle -> [(clause, message)]"""
  probs = []
  els = []
  for r in isd.iter_regions():
    els += list(r.dfs_iterator())
    if r.get_doc() is not isd:
      probs.append(("ownership", "region not owned by the snapshot"))
  for e in els:
    k = type(e).__name__
    if e.get_doc() is not isd:
      probs.append(("ownership", f"{k}#{e.get_id()} belongs to another document"))
    if e.get_begin() is not None or e.get_end() is not None:
      probs.append(("timing", f"{k}#{e.get_id()} has begin/end"))
    if list(e.iter_animation_steps()):
      probs.append(("animation", f"{k}#{e.get_id()} has animation steps"))
    if e.get_region() is not None:
      probs.append(("region-ref", f"{k}#{e.get_id()} references a region"))
    if isinstance(e, m.Text):
      if not e.get_text():
        probs.append(("empty-text", "empty text node"))
      continue
    if isinstance(e, m.Span) and not e.has_children():
      probs.append(("childless-span", f"span#{e.get_id()} has no children"))
    if isinstance(e, ISD.Region) and len(e) > 1:
      probs.append(("region-bodies", "region with more than one body"))
    app = type(e)._applicableStyles if not isinstance(e, ISD.Region) else m.Region._applicableStyles
    present = set(e.iter_styles())
    for p in present - set(app):
      probs.append(("inapplicable-style", f"{k}#{e.get_id()} carries {p.__name__}"))
    if not isinstance(e, m.Br):
      for p in set(app) - present:
        probs.append(("missing-style", f"{k}#{e.get_id()} lacks {p.__name__}"))
    for p in present:
      ls = []
      lengths_in(e.get_style(p), ls)
      for ln in ls:
        if ln.units not in (sp.LengthType.Units.rh, sp.LengthType.Units.rw):
          probs.append(("length-units:" + p.__name__, f"{k}#{e.get_id()} {p.__name__} has a length in {ln.units.value}"))
    if e.get_style(SP.Display) is sp.DisplayType.none:
      probs.append(("display-none", f"{k}#{e.get_id()} computes to display none"))
    if isinstance(e, ISD.Region):
      o, pz = e.get_style(SP.Origin), e.get_style(SP.Position)
      if o is None or pz is None or (o.x, o.y) != (pz.h_offset, pz.v_offset):
        probs.append(("origin-position", f"region {e.get_id()}: origin {o} position {pz}"))
      if not e.has_children() and e.get_style(SP.ShowBackground) is not sp.ShowBackgroundType.always:
        probs.append(("empty-region", f"region {e.get_id()} without content and showBackground {e.get_style(SP.ShowBackground)}"))
  for c, msg in W.check(els, []):
    if c in ("links", "acyclic", "content-model", "one-document"):
      probs.append((c, msg))
  if (isd.get_lang(), isd.get_cell_resolution(), isd.get_px_resolution(), isd.get_active_area(), isd.get_display_aspect_ratio()) != \
      (doc.get_lang(), doc.get_cell_resolution(), doc.get_px_resolution(), doc.get_active_area(), doc.get_display_aspect_ratio()):
    probs.append(("document-parameters", "document parameters differ from the source"))
  return probs, els


def check_c13(rec, doc, seed_info):
  ts, _ = times_for(doc)
  for t in ts:
    isd, err = safe_from_model(doc, t)
    if err is not None:
      continue    # reported by C01 / C18
    desc = {"doc": docgen.describe(doc), "t": str(t), "gen": seed_info}
    ra = {"prop": "C13", "gen": seed_info, "t": str(t)}
    probs, els = shape_problems(isd, doc)
    # white space and empty-container handling against the oracle
    want, flags = S.snapshot(doc, t)
    got = {r.get_id(): norm(tree(r)) for r in isd.iter_regions()}
    exp = {k: norm(S.strip(v)) for k, v in want.items()}
    if got != exp and classify_diff(got, exp) == "text-content":
      probs.append(("white-space", "text after white-space handling differs from the xml:space rules: " + str(first_diff(
        next(got[k] for k in sorted(got) if got[k] != exp.get(k)), next(exp[k] for k in sorted(exp) if got.get(k) != exp[k])))))
    rec.evaluated("snapshot has the documented shape", hash((seed_info, t)) if els else None, desc if len(els) > 3 else None, bool(els))
    for c in sorted({c for c, _ in probs}):
      rec.fail("shape:" + c, "snapshot has the documented shape", f"t={t}: " + "; ".join(msg for cc, msg in probs if cc == c)[:300] +
               f"; {docgen.describe(doc, 500)}", desc, replayer="replayers.isd:replay", replay_args=ra)


# ----------------------------------------------------------------------------------------------------------------------
# C14


def check_c14(rec, doc, seed_info, r):
  desc = {"doc": docgen.describe(doc), "gen": seed_info}
  ra = {"prop": "C14", "gen": seed_info}
  before = fp_doc(doc)
  try:
    sig = ISD.significant_times(doc)
  except Exception:  # pylint: disable=broad-except
    return
  ts, _ = times_for(doc)
  for t in ts:
    a, ea = safe_from_model(doc, t)
    b, eb = safe_from_model(doc, t, sig)
    if ea is not None or eb is not None:
      if (ea is None) != (eb is None):
        rec.fail("cached-vs-uncached-exception", "cached snapshot renders like the uncached one", f"t={t}: uncached {ea!r}, cached {eb!r}", desc,
                 replayer="replayers.isd:replay", replay_args=dict(ra, t=str(t)))
      continue
    fa, fb = fp_isd(a, True), fp_isd(b, True)
    rec.evaluated("cached snapshot renders like the uncached one", hash((seed_info, t)) if fa[0] else None, None, bool(fa[0]))
    if fa != fb:
      ga = {x[1] for x in fa[0]}
      gb = {x[1] for x in fb[0]}
      oa, ob = [x[1] for x in fa[0]], [x[1] for x in fb[0]]
      key = "cached-differs:" + ("region-set" if ga != gb else "region-order" if oa != ob else "content") + default_region_bg(doc)
      rec.fail(key, "cached snapshot renders like the uncached one",
               f"t={t}: uncached regions {sorted(ga)}, cached {sorted(gb)}; {docgen.describe(doc, 700)}", desc,
               replayer="replayers.isd:replay", replay_args=dict(ra, t=str(t)))
      break
  # interleavings of the public entry points on the same document object: source unchanged, repeated calls equal
  import ttconv.srt.writer as srt_writer
  import ttconv.vtt.writer as vtt_writer
  import ttconv.imsc.writer as imsc_writer
  import xml.etree.ElementTree as et
  from ttconv.srt.config import SRTWriterConfiguration
  from ttconv.vtt.config import VTTWriterConfiguration
  from ttconv.imsc.config import IMSCWriterConfiguration, TimeExpressionSyntaxEnum
  t0 = ts[len(ts) // 2] if ts else Fraction(0)
  calls = {
    "significant_times": lambda: tuple(ISD.significant_times(doc)),
    "from_model": lambda: fp_isd(ISD.from_model(doc, t0)),
    "from_model(cached)": lambda: fp_isd(ISD.from_model(doc, t0, sig)),
    "generate_isd_sequence": lambda: tuple((t, fp_isd(i)) for t, i in ISD.generate_isd_sequence(doc)),
    "srt": lambda: srt_writer.from_model(doc),
    "vtt": lambda: vtt_writer.from_model(doc),
    "imsc": lambda: et.tostring(imsc_writer.from_model(doc).getroot()),
    # the writers under their non-default configurations (a configuration must not make a writer edit its input)
    "srt(text_formatting=False)": lambda: srt_writer.from_model(doc, SRTWriterConfiguration(text_formatting=False)),
    "vtt(line_position,text_align)": lambda: vtt_writer.from_model(doc, VTTWriterConfiguration(line_position=True, text_align=True, cue_id=False)),
    "imsc(frames@25)": lambda: et.tostring(imsc_writer.from_model(doc, IMSCWriterConfiguration(time_format=TimeExpressionSyntaxEnum.frames, fps=Fraction(25))).getroot()),
    "imsc(clock_time_with_frames@30000/1001)": lambda: et.tostring(imsc_writer.from_model(
      doc, IMSCWriterConfiguration(time_format=TimeExpressionSyntaxEnum.clock_time_with_frames, fps=Fraction(30000, 1001))).getroot()),
  }
  names = sorted(calls)
  first = {}
  for _ in range(2):
    order = [r.choice(names) for _ in range(6)]
    for n in order:
      try:
        res = calls[n]()
      except Exception as e:  # pylint: disable=broad-except
        res = ("raised", type(e).__name__)
      rec.evaluated("calls leave the source unchanged and repeat equal", hash((seed_info, n, len(first))), None)
      if fp_doc(doc) != before:
        rec.fail("source-mutated:" + n, "calls leave the source unchanged and repeat equal", f"{n} changed the source document {docgen.describe(doc, 500)}",
                 desc, replayer="replayers.isd:replay", replay_args=dict(ra, call=n))
        return
      if n in first and first[n] != res:
        rec.fail("repeat-differs:" + n, "calls leave the source unchanged and repeat equal", f"{n} returned a different result when repeated (after {order})",
                 desc, replayer="replayers.isd:replay", replay_args=dict(ra, call=n))
        return
      first.setdefault(n, res)


# ----------------------------------------------------------------------------------------------------------------------

PROP, QUICK, SEED = "C01", True, 0


def gen_doc(seed_info):
  """seed_info = (seed, chunk, index, scope-name): reproducible generation of one document"""
  seed, chunk, index, scope = seed_info
  if scope == "wsgrid":
    return ws_doc(index)
  r = rng(seed, f"isd/{scope}/{chunk}")
  docs = docgen.documents(r, index + 1, SCOPES[scope])
  d = None
  for d in docs:
    pass
  return d


SCOPES = {
  "full": {},
  "noregion": {"regions": (0, 0)},
  "multi": {"regions": (2, 3)},
  "plain": {"regions": (0, 1), "ruby": False, "animation": False, "display": False},
  "background": {"regions": (1, 3), "bgfocus": True, "ruby": False},
}


WS_EDGES = ["", " ", "\n", "\r", "\t", "\r\n", " \n", "\u3000"]
N_WS = 2 * len(WS_EDGES) * 2 * len(WS_EDGES) * 2


def ws_doc(index):
  """white-space grid: p > [span (xml:space a) 'x'+tail, (br)?, span (xml:space b) head+'y'] for every pair of edges over TAB, LF, CR, SPACE,
  CR LF and U+3000, both xml:space values on either side, with and without a br in between (512 documents)"""
  n = len(WS_EDGES)
  br, index = index % 2, index // 2
  hi, index = index % n, index // n
  sb, index = index % 2, index // 2
  ti, index = index % n, index // n
  sa = index % 2
  doc = m.ContentDocument()
  reg = m.Region("r1", doc)
  doc.put_region(reg)
  body = m.Body(doc)
  body.set_id("b")
  doc.set_body(body)
  div = m.Div(doc)
  div.set_id("d")
  body.push_child(div)
  p = m.P(doc)
  p.set_id("p")
  p.set_region(reg)
  div.push_child(p)
  for k, (preserve, text) in enumerate(((sa, "x" + WS_EDGES[ti]), (sb, WS_EDGES[hi] + "y"))):
    if k == 1 and br:
      b = m.Br(doc)
      b.set_id("br")
      p.push_child(b)
    sp_ = m.Span(doc)
    sp_.set_id(f"s{k}")
    sp_.set_space(m.WhiteSpaceHandling.PRESERVE if preserve else m.WhiteSpaceHandling.DEFAULT)
    sp_.push_child(m.Text(doc, text))
    p.push_child(sp_)
  return doc


def chunk(job):
  logging.disable(logging.CRITICAL)
  seed, ch, count, scope = job
  rec = Recorder(PROP, "", {})
  if scope == "wsgrid":
    for i in range(ch * (N_WS // 4), (ch + 1) * (N_WS // 4)):
      info = (seed, ch, i, scope)
      (check_c01 if PROP == "C01" else check_c13)(rec, ws_doc(i), info)
    return rec
  r = rng(seed, f"isd/{scope}/{ch}")
  g = docgen.Gen(r, SCOPES[scope])
  r2 = rng(seed, f"isd-calls/{scope}/{ch}")
  for i in range(count):
    doc = g.document()
    info = (seed, ch, i, scope)
    if PROP == "C01":
      check_c01(rec, doc, info)
    elif PROP == "C02":
      check_c02(rec, doc, info)
    elif PROP == "C13":
      check_c13(rec, doc, info)
    elif PROP == "C14":
      check_c14(rec, doc, info, r2)
  return rec


def main():
  global PROP, QUICK, SEED
  ap = argparse.ArgumentParser()
  ap.add_argument("--prop", required=True)
  ap.add_argument("--tier", default="quick")
  ap.add_argument("--seed", type=int, default=0)
  ap.add_argument("--out", required=True)
  args = ap.parse_args()
  PROP, QUICK, SEED = args.prop, args.tier == "quick", args.seed
  per = {"C01": 60, "C02": 40, "C13": 60, "C14": 25}[PROP] * (1 if QUICK else 12)
  rec = Recorder(PROP, "seeded random canonical-model documents (rtc/docgen.py: 0-3 timed regions, nested div/p/span/br/ruby with rational "
                 "begin/end, region references at any level, display styles and animations, xml:space) x every boundary time, every midpoint, "
                 "0 and last+1; a case is non-trivial when the snapshot has content",
                 {"documents": per * 4 * len(SCOPES), "scopes": list(SCOPES), "times": "all interval boundaries + midpoints + 0 + last+1"})
  jobs = [(SEED, ch, per if scope != "background" or PROP in ("C14", "C02") else per // 2, scope) for scope in SCOPES for ch in range(4)]
  if PROP in ("C01", "C13"):
    jobs += [(SEED, ch, 0, "wsgrid") for ch in range(4)]       # the exhaustive white-space grid (512 documents)
  for part in parallel(chunk, jobs):
    rec.merge(part)
  return rec.dump(args.out)


if __name__ == "__main__":
  sys.exit(main())
