"""C11 bounded tier: run-time contracts on ttconv.vtt.reader.to_model (and the helpers named in the property anchors) against the
independent WebVTT oracle specs/vtt.py.

  * units        -- vtt_timestamp_to_secs / parse_vtt_pct / parse_vtt_int against the oracle on grids (timestamps: every mm:ss
                    with representative milliseconds, every millisecond of selected seconds, 2..4-digit hours);
  * region grid  -- EXHAUSTIVE over the stated finite grid of cue settings: every cue's region lies inside the root container,
                    has the writing mode / text alignment / display alignment the settings ask for, is anchored at the `line` /
                    `position` value, and cues with equal settings share one region;
  * nesting      -- EXHAUSTIVE: every chain of tag kinds (b i u c.colour c.bg_colour lang v ruby rt) nested to depth 3;
  * files        -- seeded grammar-directed WebVTT files (header forms, BOM, LF/CRLF/CR, NOTE/STYLE/REGION blocks, identifiers,
                    hours optional, cue settings over representative values, cue text with nested tags, classes, annotations,
                    character references, time stamp tags, multi-line payloads): to_model(file) == oracle(file), cue by cue;
  * writer       -- read(write(doc, cfg)) returns the cues of small documents built with ttconv.model under all 8 writer configs.

Failure keys name the witness class: `<aspect>` for inputs made of core features only, `<aspect-group>:<feature>` when the input
contains exactly one special grammar feature (each generated input has at most one), so that one defect gets one key.
"""
import io
import itertools
import logging
import numbers
import signal
import sys
import traceback
from fractions import Fraction

from rtc.common import Recorder, parse_args, rng, parallel
from specs import vtt as V

logging.disable(logging.CRITICAL)

import ttconv.model as M                       # noqa: E402
import ttconv.style_properties as SP           # noqa: E402
import ttconv.vtt.reader as R                  # noqa: E402

QUICK = True
SEED = 0
TOL = 1e-6
REPLAY = "replayers.c11:vtt_text"
DEFAULT_BG = (0, 0, 0, 204)


def _rec():
  return Recorder("C11", "", {})


# ---------------------------------------------------------------------------------------------------------------------
# calling the reader


class Hang(Exception):
  pass


def _alarm(_sig, _frm):
  raise Hang("to_model did not return within 20 s")


def read(text):
  """to_model on `text` the way ttconv.tt opens files (universal newlines) -> (doc, None) | (None, exception)"""
  old = signal.signal(signal.SIGALRM, _alarm)
  signal.setitimer(signal.ITIMER_REAL, 20)
  try:
    return R.to_model(io.StringIO(text, newline=None)), None
  except Hang as e:
    return None, e
  except Exception as e:  # pylint: disable=broad-except
    return None, e
  finally:
    signal.setitimer(signal.ITIMER_REAL, 0)
    signal.signal(signal.SIGALRM, old)


def exc_text(e):
  tb = traceback.extract_tb(e.__traceback__)
  where = ""
  for fr in reversed(tb):
    if "ttconv" in fr.filename:
      where = f" at {fr.filename.split('ttconv/')[-1]}:{fr.lineno}"
      break
  return f"{type(e).__name__}: {e}{where}"


# ---------------------------------------------------------------------------------------------------------------------
# observation of the model: structure-independent description of a paragraph


def _is_float(v):
  return isinstance(v, float)


def _q(v):
  """a time read from the model as an exact rational; floats (a separate finding) are read to the nearest millisecond"""
  if v is None:
    return None
  if isinstance(v, float):
    return Fraction(round(v * 1000), 1000)
  return Fraction(v)


def observe_p(p):
  """-> (items like specs.vtt.flatten, float_seen)"""
  items = []
  floats = [False]
  p_begin = _q(p.get_begin()) or Fraction(0)

  def walk(e, a, off, role):
    for ch in e:
      if isinstance(ch, M.Text):
        begin = None if off is None else p_begin + off
        items.append(("text", V.Attrs(a["bold"], a["italic"], a["underline"], a["colour"], a["background"], a["lang"], role, begin),
                      ch.get_text(), role))
        continue
      if isinstance(ch, M.Br):
        items.append(("br", role))
        continue
      b = dict(a)
      fw = ch.get_style(SP.StyleProperties.FontWeight)
      if fw is not None:
        b["bold"] = fw == SP.FontWeightType.bold
      fs = ch.get_style(SP.StyleProperties.FontStyle)
      if fs is not None:
        b["italic"] = fs != SP.FontStyleType.normal
      td = ch.get_style(SP.StyleProperties.TextDecoration)
      if td is not None and td.underline is not None:
        b["underline"] = bool(td.underline)
      col = ch.get_style(SP.StyleProperties.Color)
      if col is not None:
        b["colour"] = tuple(col.components[:3]) if col.components[3] == 255 else tuple(col.components)
      bg = ch.get_style(SP.StyleProperties.BackgroundColor)
      if bg is not None:
        comp = tuple(bg.components)
        if comp == DEFAULT_BG or comp[3] == 0:
          b["background"] = None
        else:
          b["background"] = comp[:3] if comp[3] == 255 else comp
      if ch.get_lang():
        b["lang"] = ch.get_lang()
      o = off
      if ch.get_begin() is not None:
        if _is_float(ch.get_begin()):
          floats[0] = True
        o = (off or Fraction(0)) + _q(ch.get_begin())
      r = role
      if isinstance(ch, (M.Rt, M.Rtc)):
        r = "text"
      elif isinstance(ch, (M.Ruby, M.Rb, M.Rbc)):
        r = "base" if not (isinstance(ch, M.Ruby) and role is not None) else role
      walk(ch, b, o, r)

  walk(p, {"bold": False, "italic": False, "underline": False, "colour": None, "background": None, "lang": None}, None, None)
  return items, floats[0]


def normalise(items):
  """group ruby content (ttconv stores all bases, then all ruby texts of a ruby container), merge equal neighbours"""
  out = []
  i = 0
  n = len(items)
  while i < n:
    role = items[i][-1]
    if role is None:
      out.append(items[i][:-1] if items[i][0] == "text" else ("br",))
      i += 1
      continue
    j = i
    while j < n and items[j][-1] is not None:
      j += 1
    group = items[i:j]
    for want in ("base", "text"):
      for it in group:
        if it[-1] == want:
          out.append(it[:-1] if it[0] == "text" else ("br",))
    i = j
  return V.merge(out)


def expected_items(payload, cue_begin):
  """oracle items with the ruby role attached per item (same shape as observe_p)"""
  flat = V.flatten(V.parse_cue_text(payload), cue_begin)
  # V.flatten has merged neighbours already; re-attach the role for the grouping step
  items = []
  for it in flat:
    if it[0] == "text":
      items.append(("text", it[1], it[2], it[1].ruby))
    else:
      items.append(("br", None))
  # a line break inside a ruby container belongs to the group
  for k, it in enumerate(items):
    if it[0] == "br" and 0 < k < len(items) - 1 and items[k - 1][-1] is not None and items[k + 1][-1] is not None:
      items[k] = ("br", items[k - 1][-1])
  return normalise(items)


ASPECTS = ("bold", "italic", "underline", "colour", "background", "lang", "ruby", "begin")


def diff_items(obs, exp):
  """-> (aspect, message) of the first difference or None"""
  ot = [(it[2] if it[0] == "text" else "\n") for it in obs]
  et = [(it[2] if it[0] == "text" else "\n") for it in exp]
  if "".join(ot) != "".join(et):
    return "text", f"text {''.join(ot)!r}, expected {''.join(et)!r}"
  # same characters: compare attributes per character
  def per_char(items):
    out = []
    for it in items:
      if it[0] == "br":
        out.append(("\n", None))
      else:
        out += [(c, it[1]) for c in it[2]]
    return out
  oc, ec = per_char(obs), per_char(exp)
  for k, ((c, a), (_, b)) in enumerate(zip(oc, ec)):
    if a == b or a is None or b is None:
      continue
    for asp in ASPECTS:
      if getattr(a, asp) != getattr(b, asp):
        return asp, f"character {k} ({c!r}) of {''.join(et)!r}: {asp} = {getattr(a, asp)!r}, expected {getattr(b, asp)!r}"
  return None


# ---------------------------------------------------------------------------------------------------------------------
# region contracts


def _pct(length, also=None):
  """percent of the root container (rw / rh are the same thing on their own axis)"""
  if length.units != SP.LengthType.Units.pct and length.units != also:
    return None
  return float(length.value)


def region_box(region):
  o = region.get_style(SP.StyleProperties.Origin)
  e = region.get_style(SP.StyleProperties.Extent)
  if o is None or e is None:
    return None
  rw, rh = SP.LengthType.Units.rw, SP.LengthType.Units.rh
  box = {"x": (_pct(o.x, rw), _pct(e.width, rw)), "y": (_pct(o.y, rh), _pct(e.height, rh))}
  if any(v is None for ax in box.values() for v in ax):
    return None
  return box


def _edge(box_axis, edge):
  o, e = box_axis
  return o if edge == "start" else (o + e / 2 if edge == "center" else o + e)


def settings_class(s, axis_kind):
  """witness class of a geometry failure on the line / position axis, from the settings alone"""
  if axis_kind == "line":
    if s.vertical is not None and s.line is not None and s.line_align == "center":
      return "region-vertical-line-center"
    if s.line is not None and not s.line_is_pct:
      return "region-line-number-nonpositive" if s.line <= 0 else "region-line-number-positive"
    if s.line is not None:
      return "region-line-percentage"
    return "region-line-auto"
  if s.position is not None:
    return "region-position"
  if s.size is not None:
    return "region-size-without-position"
  return "region-position-auto"


WHOLE_CLASS = ("region-vertical-line-center", "region-line-number-nonpositive")


def _key(cls, aspect):
  """two classes are one defect each whatever the aspect (the formula for these settings); elsewhere the aspect is part of the key"""
  return cls if cls in WHOLE_CLASS else f"{cls}:{aspect}"


def check_region(rec, region, settings, ctx):
  """all region contracts of one cue; ctx: dict(text=minimal file, show=settings string)"""
  s = V.parse_settings(settings)
  req = V.region_requirements(s)
  show = " ".join(settings) or "(no settings)"
  fp = ("region",) + tuple(settings)

  def fail(key, contract, observed, required):
    rec.fail(key, contract, f"cue settings `{show}`: {observed}; required: {required}", {"settings": settings}, observed, required,
             REPLAY, {"text": ctx["text"]})

  rec.evaluated("region inside root container", fp, {"settings": show})
  if region is None:
    fail("region-missing", "region inside root container", "the paragraph has no region", "a region")
    return
  box = region_box(region)
  if box is None:
    fail("region-units", "region inside root container", "origin/extent missing or not in percent", "percent of the root container")
    return
  for axis_kind, axis in (("line", req.line_axis), ("position", req.position_axis)):
    o, e = box[axis]
    if not (o >= -TOL and e >= -TOL and o + e <= 100 + TOL):
      what = "height" if axis == "y" else "width"
      fail(_key(settings_class(s, axis_kind), "outside-root"), "region inside root container",
           f"origin {axis} = {o:.4g}%, {what} = {e:.4g}% (ends at {o + e:.4g}%)", f"0 <= origin, 0 <= extent, origin + extent <= 100 on the {axis} axis")
  rec.evaluated("region writing mode / text alignment / display alignment", fp)
  wm = region.get_style(SP.StyleProperties.WritingMode)
  if wm is None or wm.value != req.writing_mode:
    fail("region-writing-mode", "region writing mode / text alignment / display alignment", f"writing mode {wm}", req.writing_mode)
  ta = region.get_style(SP.StyleProperties.TextAlign)
  if ta is None or ta.value not in req.text_align:
    fail("region-text-align", "region writing mode / text alignment / display alignment", f"text alignment {ta}",
         " or ".join(req.text_align))
  da = region.get_style(SP.StyleProperties.DisplayAlign)
  if da is None or da.value not in req.display_align:
    fail("region-display-align", "region writing mode / text alignment / display alignment", f"display alignment {da}",
         " or ".join(req.display_align))
  if req.line_anchor is not None:
    edge, value, tol, mirrored_ok = req.line_anchor
    rec.evaluated("region anchored at the line position", fp)
    got = _edge(box[req.line_axis], edge)
    ok = abs(got - float(value)) <= float(tol)
    if not ok and mirrored_ok:
      mirror = {"start": "end", "center": "center", "end": "start"}[edge]
      ok = abs(_edge(box[req.line_axis], mirror) - (100 - float(value))) <= float(tol)
    if not ok:
      fail(_key(settings_class(s, "line"), "anchor"), "region anchored at the line position",
           f"{edge} edge of the region on the {req.line_axis} axis at {got:.4g}%", f"{float(value):g}% (line position, alignment {edge})")
  if req.position_anchor is not None:
    edge, value, tol = req.position_anchor
    rec.evaluated("region anchored at the cue position", fp)
    got = _edge(box[req.position_axis], edge)
    if abs(got - float(value)) > float(tol):
      fail("region-position:anchor", "region anchored at the cue position",
           f"{edge} edge of the region on the {req.position_axis} axis at {got:.4g}%", f"{float(value):g}% (position, alignment {edge})")
    elif req.position_extent is not None:
      want, etol = req.position_extent
      e = box[req.position_axis][1]
      # only meaningful when the box is inside the root container (otherwise already reported above)
      o = box[req.position_axis][0]
      if o >= -TOL and o + e <= 100 + TOL and abs(e - float(want)) > float(etol):
        fail("region-position:size", "region anchored at the cue position",
             f"extent on the {req.position_axis} axis {e:.4g}%", f"{float(want):g}% = min(size, maximum size at this position)")


# ---------------------------------------------------------------------------------------------------------------------
# whole-file contract


def minimal_file(cue_blocks):
  return "WEBVTT\n\n" + "\n".join(cue_blocks)


def paragraphs(doc):
  body = doc.get_body()
  out = []
  if body is None:
    return out
  for div in body:
    for p in div:
      out.append(p)
  return out


def check_file(rec, text, feature=None, check_regions=True, label="files"):
  """to_model(text) against the oracle.  `feature`: the one special grammar feature the text contains (or None)."""
  suffix = (lambda aspect: f"cue-{aspect}") if feature is None else (lambda aspect: f"cue:{feature}")
  cname = f"{label}: to_model(text) == oracle(text)"
  exp_cues = V.parse_file(text)
  rec.evaluated(cname, text, {"text": text if len(text) < 400 else text[:400] + "..."})
  args = {"text": text, "feature": feature}
  doc, err = read(text)
  if err is not None:
    if feature:
      key = f"cue:{feature}"
    else:
      key = ("reader-crash" if not isinstance(err, Hang) else "reader-hang") + f":{type(err).__name__}"
    rec.fail(key, cname, f"to_model raised {exc_text(err)}", text, exc_text(err), "a document with one paragraph per cue", REPLAY, args)
    return
  ps = paragraphs(doc)
  observed = []
  for p in ps:
    items, fl = observe_p(p)
    observed.append((p, normalise(items), fl))
  expected = [(c, expected_items(c.payload, c.begin)) for c in exp_cues]
  # a cue without payload may be represented by an empty paragraph or be omitted
  obs_f = [o for o in observed if o[1]]
  exp_f = [e for e in expected if e[1]]
  if len(obs_f) != len(exp_f):
    key = "cue-count" if feature is None else f"cue:{feature}"
    rec.fail(key, cname, f"{len(obs_f)} non-empty paragraphs for {len(exp_f)} cues with text", text,
             [V.plain_lines(o[1]) for o in obs_f], [V.plain_lines(e[1]) for e in exp_f], REPLAY, args)
    return
  float_seen = False
  for (p, oitems, fl), (cue, eitems) in zip(obs_f, exp_f):
    float_seen = float_seen or fl
    b, e = p.get_begin(), p.get_end()
    if _is_float(b) or _is_float(e):
      float_seen = True
    elif not (isinstance(b, numbers.Rational) and isinstance(e, numbers.Rational)):
      rec.fail("cue-time-type", cname, f"cue times of type {type(b).__name__}/{type(e).__name__}", text, repr((b, e)), "rational numbers",
               REPLAY, args)
      continue
    if _q(b) != cue.begin or _q(e) != cue.end:
      rec.fail(suffix("time"), cname, f"cue at line {cue.line_no}: begin/end {b!r}/{e!r}, printed {cue.begin}/{cue.end}", text,
               repr((b, e)), repr((cue.begin, cue.end)), REPLAY, args)
    d = diff_items(oitems, eitems)
    if d is not None:
      rec.fail(suffix(d[0]), cname, f"cue at line {cue.line_no} ({cue.payload!r}): {d[1]}", text, d[1], "the oracle's reading", REPLAY, args)
    if check_regions:
      one = minimal_file([f"00:00:01.000 --> 00:00:02.000 {' '.join(cue.settings)}\nx\n"])
      check_region(rec, p.get_region(), cue.settings, {"text": one})
  if float_seen:
    rec.fail("vtt-time-is-float", cname, "cue / span times are binary floats, not exact rationals (e.g. 00:00.280 -> 0.28 != 7/25)", text,
             "float", "fractions.Fraction (the printed value exactly)", REPLAY, args)
  if check_regions:
    check_sharing(rec, [o[0] for o in obs_f], [e[0] for e in exp_f], text)


def check_sharing(rec, ps, cues, text):
  """cues with equal settings (as a set of settings) share one region"""
  seen = {}
  for p, cue in zip(ps, cues):
    k = tuple(sorted(cue.settings))
    if len(set(x.partition(":")[0] for x in cue.settings)) != len(cue.settings):
      continue   # a repeated setting name: order matters
    if k in seen:
      rec.evaluated("equal settings share a region", ("share", k), {"settings": " ".join(cue.settings)})
      if p.get_region() is not seen[k].get_region():
        two = minimal_file([f"00:00:0{i}.000 --> 00:00:0{i + 1}.000 {' '.join(cue.settings)}\nx\n" for i in (1, 3)])
        rec.fail("region-not-shared", "equal settings share a region",
                 f"two cues with settings `{' '.join(cue.settings)}` are in regions "
                 f"{seen[k].get_region().get_id() if seen[k].get_region() is not None else None!r} and "
                 f"{p.get_region().get_id() if p.get_region() is not None else None!r}", {"settings": cue.settings}, "two regions", "one region",
                 REPLAY, {"text": two})
    else:
      seen[k] = p


# ---------------------------------------------------------------------------------------------------------------------
# units: the helper functions named in the property


def units(_):
  rec = _rec()
  f = getattr(R, "vtt_timestamp_to_secs", None)
  if f is not None:
    ms_rep = (0, 1, 7, 10, 99, 100, 101, 280, 333, 500, 667, 900, 990, 999)
    cases = []
    for m in range(60):
      for s in range(60):
        for ms in ms_rep:
          cases.append((None, m, s, ms))
    for (h, m, s) in ((None, 0, 0), (0, 0, 1), (1, 2, 3), (99, 59, 59), (100, 0, 0), (101, 0, 0), (1234, 59, 59), (23, 59, 59)):
      for ms in range(1000):
        cases.append((h, m, s, ms))
    for h in (0, 1, 9, 10, 23, 24, 99, 100, 999, 1000, 9999):
      for ms in (0, 1, 280, 999):
        cases.append((h, 59, 59, ms))
    float_seen = False
    for h, m, s, ms in cases:
      for digits in ((2,) if h is None or h >= 100 else (2, 3)):
        txt = (f"{h:0{digits}d}:" if h is not None else "") + f"{m:02d}:{s:02d}.{ms:03d}"
        want = V.timestamp(txt)
        rec.evaluated("vtt_timestamp_to_secs(text) == printed value", txt, {"timestamp": txt})
        try:
          got = f(txt)
        except Exception as e:  # pylint: disable=broad-except
          rec.fail("timestamp-crash", "vtt_timestamp_to_secs(text) == printed value", f"{txt!r}: {exc_text(e)}", txt)
          continue
        if _is_float(got):
          float_seen = True
        if got is None or _q(got) != want:
          rec.fail("timestamp-value", "vtt_timestamp_to_secs(text) == printed value", f"vtt_timestamp_to_secs({txt!r}) = {got!r}, printed {want}",
                   txt, repr(got), str(want), "replayers.c11:timestamp", {"text": txt})
    if float_seen:
      rec.fail("vtt-time-is-float", "vtt_timestamp_to_secs(text) == printed value",
               "vtt_timestamp_to_secs returns binary floats: vtt_timestamp_to_secs('00:00.280') != Fraction(7, 25)", "00:00.280",
               "float", "exact rational", "replayers.c11:timestamp", {"text": "00:00.280"})
  g = getattr(R, "parse_vtt_pct", None)
  if g is not None:
    for k in range(0, 101):
      # a WebVTT percentage is one or more digits with an optional fraction: leading and trailing zeros are part of the grammar
      for txt, want in ((f"{k}%", k), (f"{k}.0%", k), (f"{k}.25%", k + 0.25), (f"0{k}%", k), (f"000{k}%", k), (f"0{k}.2500%", k + 0.25), (f"{k}.000%", k)):
        if want > 100:
          continue
        rec.evaluated("parse_vtt_pct", txt, {"text": txt})
        got = g(txt)
        if got is None or abs(float(got) - want) > 0.5 + TOL:
          rec.fail("parse-pct", "parse_vtt_pct", f"parse_vtt_pct({txt!r}) = {got!r}", txt, repr(got), f"{want} (to the nearest percent at least)")
  h_ = getattr(R, "parse_vtt_int", None)
  if h_ is not None:
    for k in list(range(-60, 61)) + [-1000, 1000, 12345678]:
      rec.evaluated("parse_vtt_int", k, {"text": str(k)})
      if h_(str(k)) != k:
        rec.fail("parse-int", "parse_vtt_int", f"parse_vtt_int({str(k)!r}) = {h_(str(k))!r}", str(k), repr(h_(str(k))), str(k))
  return rec


# ---------------------------------------------------------------------------------------------------------------------
# the exhaustive cue-setting grid

LINE_VALUES = [str(n) for n in range(-50, 51)] + [f"{p}%" for p in range(0, 101)]
LINE_ALIGNS = [None, "start", "center", "end"]
VERTICALS = [None, "rl", "lr"]
PCT_VALUES = sorted(set(list(range(0, 101, 5)) + [1, 49, 51, 99]))
POSITION_ALIGNS = [None, "line-left", "center", "line-right"]
ALIGNS = [None, "start", "center", "end", "left", "right"]
LINE_COMPANIONS = [[], ["size:40%"], ["position:30%,line-left", "size:20%", "align:start"]]
POSITION_COMPANIONS = [[], ["line:50%,center"]]


def grid_settings():
  """every element of the grid as a list of cue settings (deterministic order)"""
  out = []
  for v in VERTICALS:
    vs = [f"vertical:{v}"] if v else []
    for line in LINE_VALUES:
      for la in LINE_ALIGNS:
        ls = [f"line:{line}" + (f",{la}" if la else "")]
        for comp in LINE_COMPANIONS:
          out.append(vs + ls + comp)
  for v in VERTICALS:
    vs = [f"vertical:{v}"] if v else []
    for al in ALIGNS:
      als = [f"align:{al}"] if al else []
      for size in [None] + PCT_VALUES:
        ss = [f"size:{size}%"] if size is not None else []
        for pos in [None] + PCT_VALUES:
          for pa in (POSITION_ALIGNS if pos is not None else [None]):
            ps = [f"position:{pos}%" + (f",{pa}" if pa else "")] if pos is not None else []
            for comp in POSITION_COMPANIONS:
              out.append(vs + ps + ss + als + comp)
  return out


GRID_CHUNK = 48
_GRID = None


def grid_chunk(k):
  global _GRID
  rec = _rec()
  if _GRID is None:
    _GRID = grid_settings()
  allset = _GRID
  part = allset[k * GRID_CHUNK:(k + 1) * GRID_CHUNK]
  r = rng(0, f"c11grid{k}")     # only the order of the settings inside a cue line and the repeats depend on it; not on the seed
  cue_settings = []
  for s in part:
    s = list(s)
    if len(s) > 1 and r.random() < 0.5:
      r.shuffle(s)
    cue_settings.append(s)
  # repeats (possibly re-ordered) for the sharing contract
  for s in r.sample(part, min(6, len(part))):
    s = list(s)
    r.shuffle(s)
    cue_settings.append(s)
  blocks = []
  for i, s in enumerate(cue_settings):
    t0 = i * 2000
    blocks.append(f"{V.format_timestamp(t0, 'always')} --> {V.format_timestamp(t0 + 1500, 'always')} {' '.join(s)}\nx\n")
  text = minimal_file(blocks)
  doc, err = read(text)
  if err is not None:
    # find the cue that does it
    for s in cue_settings:
      one = minimal_file([f"00:00:01.000 --> 00:00:02.000 {' '.join(s)}\nx\n"])
      d1, e1 = read(one)
      rec.evaluated("region inside root container", ("region",) + tuple(s))
      if e1 is not None:
        rec.fail("region-crash", "region inside root container", f"cue settings `{' '.join(s)}`: to_model raised {exc_text(e1)}", {"settings": s},
                 exc_text(e1), "a region", REPLAY, {"text": one})
    if not rec.failures:
      rec.fail("region-crash", "region inside root container", f"to_model raised {exc_text(err)} on a file of {len(cue_settings)} cues", text,
               exc_text(err), "a document", REPLAY, {"text": text})
    return rec
  ps = paragraphs(doc)
  if len(ps) != len(cue_settings):
    rec.fail("cue-count", "region inside root container", f"{len(ps)} paragraphs for {len(cue_settings)} cues", text, len(ps), len(cue_settings),
             REPLAY, {"text": text})
    return rec
  for p, s in zip(ps, cue_settings):
    one = minimal_file([f"00:00:01.000 --> 00:00:02.000 {' '.join(s)}\nx\n"])
    check_region(rec, p.get_region(), s, {"text": one})

  class _C:   # the shape check_sharing wants
    def __init__(self, settings):
      self.settings = settings
  check_sharing(rec, ps, [_C(s) for s in cue_settings], text)
  return rec


# ---------------------------------------------------------------------------------------------------------------------
# exhaustive nesting of tag kinds to depth 3

TAG_KINDS = ("b", "i", "u", "c.red", "c.bg_blue", "lang", "v", "ruby", "rt")


def _open_close(kind, k):
  if kind == "lang":
    return ("<lang %s>" % ("en", "fr-CA", "ja")[k % 3], "</lang>")
  if kind == "v":
    return ("<v %s>" % ("Fred", "Mary Ann", "N.N.")[k % 3], "</v>")
  if kind.startswith("c."):
    return (f"<{kind}>", "</c>")
  return (f"<{kind}>", f"</{kind}>")


def nesting_cases():
  """(cue text, feature) for every chain of tag kinds of length 1..3 that the cue text grammar allows"""
  out = []
  for n in (1, 2, 3):
    for chain in itertools.product(TAG_KINDS, repeat=n):
      ok = True
      feature = None
      for d, kind in enumerate(chain):
        parent = chain[d - 1] if d else None
        if kind == "rt" and parent != "ruby":
          ok = False
        if parent == "rt" and kind == "ruby":
          ok = False   # ruby inside ruby text is not allowed
        if kind == "ruby" and "ruby" in chain[:d]:
          ok = False
      if not ok:
        continue
      for d, kind in enumerate(chain):
        parent = chain[d - 1] if d else None
        if kind == "ruby" and d > 0:
          feature = feature or "ruby-inside-span"
        if parent == "ruby" and kind != "rt":
          feature = feature or "markup-in-ruby-base"
      out.append((build_chain(chain), feature))
  return out


def build_chain(chain, d=0):
  """`x<t1>y<t2>z</t2>w</t1>v` with distinct letters; inside ruby the base text comes first, then the rt"""
  L = "abcdefghijklmnopqrstuvwxyz"
  if d == len(chain):
    return L[3 * d]
  kind = chain[d]
  o, c = _open_close(kind, d)
  inner = build_chain(chain, d + 1)
  pre, post = L[3 * d + 1] + " ", " " + L[3 * d + 2]
  if kind == "ruby":
    if d + 1 < len(chain) and chain[d + 1] == "rt":
      body = f"{o}{L[3 * d + 1]}{inner}{c}"           # base text, then <rt>..</rt>
    else:
      body = f"{o}{inner}<rt>{L[3 * d + 2]}</rt>{c}"  # (possibly marked-up) base, then its ruby text
    return body if d else "S " + body + " E"
  if d and chain[d - 1] == "ruby":
    return f"{o}{inner}{c}"                           # <rt> or mark-up directly inside the ruby container
  return f"{pre}{o}{inner}{c}{post}"


def nesting(_):
  rec = _rec()
  for text, feature in nesting_cases():
    for begin in (0, 61500):
      f = minimal_file([f"{V.format_timestamp(begin)} --> {V.format_timestamp(begin + 4000)}\n{text}\n"])
      check_file(rec, f, feature, check_regions=False, label="nesting")
  return rec


# ---------------------------------------------------------------------------------------------------------------------
# grammar-directed files

WORDS = ["Hello", "world", "naïve", "日本語", "a", "I", "café", "1 > 0", "x;y", "50%", "it's", "\"q\"", "(ok)", "-", "e.g.",
         "¿qué?", "Ж", "\U0001F600", "tab\there", "NOTE", "a:b", "100%,start",
         # ordinary characters of a WebVTT line that Python's str.split / strip / splitlines / \s treat as white space or line ends
         "a\u00a0b", "x\u3000y", "p\u2028q", "n\u0085m", "v\x0bw", "e\x1cf", "k\u2003l", "f\x0cg"]
CORE_REFS = ["&amp;", "&lt;", "&gt;", "&nbsp;", "&#65;", "&#x263A;", "&#x1F600;", "&#8230;", "&eacute;", "&copy;", "&amp;lt;", "&quot;"]
NAMED_REFS = ["&lrm;", "&hellip;", "&mdash;", "&ndash;", "&rarr;", "&apos;", "&euro;"]
PLAIN_CLASSES = ["loud", "first", "c1", "x-y"]
LANGS = ["en", "fr-CA", "ja", "es-419", "zh-Hant"]
VOICES = ["Fred", "Mary Ann", "N.N.", "Dr  Who", "Élodie"]
COLOURS = sorted(V.COLOURS)


class CueGen:
  """random cue text from the WebVTT cue text grammar; `special` selects the one special feature to include (or None)"""

  def __init__(self, r, special=None, begin_ms=0, end_ms=4000):
    self.r = r
    self.special = special
    self.begin_ms, self.end_ms = begin_ms, end_ms
    self.ts_left = 0
    self.last_ts = begin_ms
    self.used_special = False

  def text(self, allow_nl=True, refs=True):
    r = self.r
    n = r.choice((1, 1, 2, 3))
    parts = []
    for _ in range(n):
      k = r.random()
      if refs and k < 0.18:
        parts.append(r.choice(CORE_REFS))
      elif refs and self.special == "named-charref" and (k < 0.45 or not self.used_special):
        parts.append(r.choice(NAMED_REFS))
        self.used_special = True
      else:
        parts.append(r.choice(WORDS))
    s = " ".join(parts) if r.random() < 0.8 else "".join(parts)
    if r.random() < 0.15:
      s = " " + s
    if r.random() < 0.15:
      s = s + " "
    return s

  def classes(self):
    r = self.r
    return "".join("." + r.choice(PLAIN_CLASSES) for _ in range(r.choice((0, 0, 0, 1, 2))))

  def open_close(self, kind):
    r = self.r
    if kind in ("b", "i", "u"):
      return f"<{kind}{self.classes()}>", f"</{kind}>"
    if kind == "c":
      cl = []
      if r.random() < 0.6:
        cl.append(r.choice(COLOURS))
      if r.random() < 0.4:
        cl.append("bg_" + r.choice(COLOURS))
      if r.random() < 0.3 or not cl:
        cl.append(r.choice(PLAIN_CLASSES))
      r.shuffle(cl)
      return "<c." + ".".join(cl) + ">", "</c>"
    if kind == "lang":
      return f"<lang{self.classes()}{r.choice((' ', ' ', chr(9), '  '))}{r.choice(LANGS)}>", "</lang>"
    if kind == "v":
      name = r.choice(VOICES)
      if self.special == "annotation-charref" and not self.used_special:
        name = r.choice(["Fred &amp; Co", "A&lt;B", "&#65;nn", "Tom &amp; Jerry &amp; Spike"])
        self.used_special = True
      sep = r.choice((" ", " ", "\t", "  "))
      return f"<v{self.classes()}{sep}{name}>", "</v>"
    raise ValueError(kind)

  def ruby(self, depth):
    r = self.r
    s = f"<ruby{self.classes()}>"
    for k in range(r.choice((1, 1, 2))):
      if self.special == "markup-in-ruby-base" and not self.used_special:
        o, c = self.open_close(r.choice(("b", "i", "c")))
        s += r.choice(WORDS[:7]) + o + r.choice(WORDS[:7]) + c
        self.used_special = True
      elif self.special == "linebreak-in-ruby-base" and not self.used_special:
        s += r.choice(WORDS[:7]) + "\n" + r.choice(WORDS[:7])
        self.used_special = True
      else:
        s += self.text(allow_nl=False)
      if r.random() < 0.85:
        s += f"<rt{self.classes()}>"
        if depth < 3 and r.random() < 0.4:
          o, c = self.open_close(r.choice(("b", "i", "u", "c", "lang")))
          s += self.text(False) + o + self.text(False) + c
        else:
          s += self.text(False)
        s += "</rt>"
    return s + "</ruby>"

  def ts(self):
    lo = self.last_ts + 1
    hi = self.end_ms - 1
    if lo >= hi:
      return ""
    t = self.r.randrange(lo, min(hi, lo + 1500))
    self.last_ts = t
    hours = self.r.choice(("auto", "always")) if t < 3600000 else "always"
    return f"<{V.format_timestamp(t, hours)}>"

  def components(self, depth, top):
    r = self.r
    n = r.choice((1, 2, 2, 3, 4)) if top else r.choice((1, 1, 2, 3))
    out = []
    for k in range(n):
      x = r.random()
      if x < 0.42 or depth >= 3:
        out.append(self.text())
      elif x < 0.50 and k > 0:
        out.append("\n" + self.text())
      elif x < 0.58 and top and self.ts_left > 0:
        self.ts_left -= 1
        out.append(self.ts() + self.text())
      elif x < 0.66 and (top or self.special == "ruby-inside-span") and not getattr(self, "_in_ruby", False) \
          and (self.last_ts == self.begin_ms or self.special == "ruby-after-timestamp"):
        if not top:
          self.used_special = True
        if self.last_ts != self.begin_ms:
          self.used_special = True
        self._in_ruby = True
        out.append(self.ruby(depth + 1))
        self._in_ruby = False
      else:
        kind = r.choice(("b", "i", "u", "c", "c", "lang", "v"))
        o, c = self.open_close(kind)
        inner = self.components(depth + 1, False) if r.random() < 0.9 else ""
        if self.special == "timestamp-inside-tag" and not self.used_special and depth == 0:
          inner += self.ts() + self.text()
          out.append(o + inner + c + self.text())     # text follows the end tag: still after the time stamp
          self.used_special = True
          continue
        out.append(o + inner + c)
    return "".join(out)

  def cue_text(self):
    r = self.r
    if self.special == "timestamp-multiple":
      self.ts_left = 3
    elif self.special == "ruby-after-timestamp":
      self.ts_left = 1
    elif self.special in (None, "named-charref") and r.random() < 0.35:
      self.ts_left = 1
    s = self.components(0, True)
    if self.ts_left == 1 and self.special in (None, "named-charref") and r.random() < 0.8:
      self.ts_left = 0
      s += self.ts() + self.text()
    if self.special == "timestamp-multiple":
      while self.ts_left > 1:
        self.ts_left -= 1
        s += self.ts() + self.text()
      self.used_special = True
    if self.special == "timestamp-inside-tag" and not self.used_special:
      s += "<b>" + self.text(False) + self.ts() + self.text(False) + "</b>" + self.text(False)
      self.used_special = True
    if self.special == "ruby-inside-span" and not self.used_special:
      o, c = self.open_close(r.choice(("b", "i", "c", "lang", "v")))
      self._in_ruby = True
      s += o + self.ruby(2) + c
      self._in_ruby = False
      self.used_special = True
    if self.special == "ruby-after-timestamp" and not self.used_special:
      if self.last_ts == self.begin_ms:
        s += self.ts()
      self._in_ruby = True
      s += self.text(False) + self.ruby(1)
      self._in_ruby = False
      self.used_special = True
    if self.special == "markup-in-ruby-base" and not self.used_special:
      s += self.ruby(1)
    if self.special == "linebreak-in-ruby-base" and not self.used_special:
      s += self.ruby(1)
    if self.special == "annotation-charref" and not self.used_special:
      o, c = self.open_close("v")
      s += o + self.text(False) + c
    if self.special == "named-charref" and not self.used_special:
      s += r.choice(NAMED_REFS)
    return tidy_payload(s)


def tidy_payload(s):
  """no empty / whitespace-only lines, no leading / trailing line break, no `-->`"""
  s = s.replace("-->", "->")
  lines = [ln for ln in s.split("\n") if ln.strip() != ""]
  if not lines:
    lines = ["x"]
  return "\n".join(lines)


SPECIALS = ["named-charref", "annotation-charref", "timestamp-multiple", "timestamp-inside-tag", "ruby-inside-span",
            "markup-in-ruby-base", "linebreak-in-ruby-base", "ruby-after-timestamp", "empty-payload", "identifier-like-block-keyword"]

SETTING_VALUES = {
  "vertical": ["rl", "lr"],
  "line": ["0", "1", "5", "-1", "-3", "22", "23", "10%", "0%", "100%", "50%", "12.5%", "33.333%", "90%", "010%", "007.50%"],
  "line_align": [None, None, "start", "center", "end"],
  "position": ["0%", "10%", "50%", "100%", "35%", "62.5%", "025%", "0100%"],
  "position_align": [None, None, "line-left", "center", "line-right"],
  "size": ["0%", "20%", "50%", "100%", "33.3%", "80%", "050%", "0100.0%"],
  "align": ["start", "center", "end", "left", "right"],
}


def gen_settings(r):
  out = []
  if r.random() < 0.25:
    out.append("vertical:" + r.choice(SETTING_VALUES["vertical"]))
  if r.random() < 0.5:
    la = r.choice(SETTING_VALUES["line_align"])
    out.append("line:" + r.choice(SETTING_VALUES["line"]) + (f",{la}" if la else ""))
  if r.random() < 0.4:
    pa = r.choice(SETTING_VALUES["position_align"])
    out.append("position:" + r.choice(SETTING_VALUES["position"]) + (f",{pa}" if pa else ""))
  if r.random() < 0.4:
    out.append("size:" + r.choice(SETTING_VALUES["size"]))
  if r.random() < 0.5:
    out.append("align:" + r.choice(SETTING_VALUES["align"]))
  r.shuffle(out)
  return out


IDS = ["1", "2", "42", "cue-1", "intro", "a b c", "été", "id with - > arrow", "0001", "x:y", "-", "Chapter 1: NOTE", "NOTEBOOK", "STORY 1",
       "ST", "N", "WEBVTT", "REGIONAL", "00:01.000"]
KEYWORD_IDS = ["STYLE-1", "STYLEGUIDE", "NOTE 7", "NOTE to self", "STYLE"]


def gen_file(r, special):
  """-> text of a conforming WebVTT file"""
  eol = r.choice(("\n", "\n", "\n", "\r\n", "\r\n", "\r"))
  bom = "\ufeff" if r.random() < 0.1 else ""
  header = r.choice(("WEBVTT", "WEBVTT", "WEBVTT", "WEBVTT - a title", "WEBVTT\tgenerated", "WEBVTT "))
  blocks = []
  n_cues = r.choice((1, 1, 2, 3, 4))
  t = r.choice((0, 0, 500, 1000, 59999, 3599000, 3600000, 36000000, 360000000 + 123, 4 * 3600000 + 7))
  # blocks before the first cue
  for _ in range(r.choice((0, 0, 1, 2))):
    k = r.random()
    if k < 0.35:
      blocks.append(["STYLE" + r.choice(("", " ", "\t")), "::cue {", "  color: yellow;", "}", "::cue(b) { color: red }"][:r.choice((3, 4, 5))])
    elif k < 0.6:
      blocks.append(["REGION", "id:fred", "width:40%", "lines:3", "regionanchor:0%,100%", "viewportanchor:10%,90%", "scroll:up"][:r.choice((2, 4, 7))])
    else:
      blocks.append(gen_note(r))
  first_special_done = False
  for i in range(n_cues):
    if r.random() < 0.25:
      blocks.append(gen_note(r))
    dur = r.choice((1, 500, 1000, 2500, 4000, 60000))
    begin, end = t, t + dur + 1200
    t = end + r.choice((0, 1, 40, 1000, 100000))
    cue_special = special if (not first_special_done and (i == n_cues - 1 or r.random() < 0.5)) else None
    gen = CueGen(r, cue_special if cue_special not in ("empty-payload", "identifier-like-block-keyword") else None, begin, end)
    payload = gen.cue_text()
    lines = []
    if cue_special == "identifier-like-block-keyword":
      lines.append(r.choice(KEYWORD_IDS))
      first_special_done = True
    elif r.random() < 0.5:
      lines.append(r.choice(IDS).replace("-->", "->"))
    hours_b = "always" if begin >= 3600000 else r.choice(("auto", "always", "never"))
    hours_e = "always" if end >= 3600000 else r.choice(("auto", "always", "never"))
    hd = r.choice((2, 2, 3)) if begin < 360000000 else 3
    sep1, sep2 = r.choice((" ", " ", "\t", "  ")), r.choice((" ", " ", "\t", "  "))
    timing = f"{V.format_timestamp(begin, hours_b, hd)}{sep1}-->{sep2}{V.format_timestamp(end, hours_e, hd)}"
    settings = gen_settings(r) if r.random() < 0.5 else []
    if settings:
      timing += "".join(r.choice((" ", " ", "\t")) + s for s in settings)
    lines.append(timing)
    if cue_special == "empty-payload":
      first_special_done = True
    else:
      lines += payload.split("\n")
      if cue_special is not None:
        first_special_done = True
    blocks.append(lines)
  if r.random() < 0.2:
    blocks.append(gen_note(r))
  text = bom + header + eol
  for b in blocks:
    text += eol * r.choice((1, 1, 1, 2, 3))
    text += eol.join(b) + eol
  # end of file: with / without final line terminator, extra blank lines
  k = r.random()
  if k < 0.3 and not (special == "empty-payload"):
    text = text[:-len(eol)]
  elif k < 0.5:
    text += eol * r.choice((1, 2))
  return text


def gen_note(r):
  k = r.random()
  if k < 0.4:
    return ["NOTE " + r.choice(("a comment", "TODO check", "00:01.000 -> 00:02.000", "<b>not a cue</b>"))]
  if k < 0.6:
    return ["NOTE", "first line", "second line &amp; more"]
  if k < 0.8:
    return ["NOTE\tmulti", "line comment", "with 3 lines"]
  return ["NOTE"]


def files_chunk(k):
  rec = _rec()
  r = rng(SEED, f"c11files{k}")
  n = 120 if QUICK else 6000
  for i in range(n):
    special = None
    if r.random() < 0.4:
      special = SPECIALS[(k + i) % len(SPECIALS)]
    text = gen_file(r, special)
    check_file(rec, text, special, check_regions=True, label="files")
  return rec


# ---------------------------------------------------------------------------------------------------------------------
# writer round trip


def _doc_plain():
  """three consecutive cues in one region; returns (doc, expected cues [(begin ms, end ms, [runs per line]), ...], region info)"""
  doc = M.ContentDocument()
  reg = M.Region("bottom", doc)
  reg.set_style(SP.StyleProperties.Origin, SP.CoordinateType(x=SP.LengthType(10, SP.LengthType.Units.pct), y=SP.LengthType(70, SP.LengthType.Units.pct)))
  reg.set_style(SP.StyleProperties.Extent, SP.ExtentType(height=SP.LengthType(20, SP.LengthType.Units.pct), width=SP.LengthType(80, SP.LengthType.Units.pct)))
  reg.set_style(SP.StyleProperties.DisplayAlign, SP.DisplayAlignType.after)
  doc.put_region(reg)
  top = M.Region("top", doc)
  top.set_style(SP.StyleProperties.Origin, SP.CoordinateType(x=SP.LengthType(10, SP.LengthType.Units.pct), y=SP.LengthType(10, SP.LengthType.Units.pct)))
  top.set_style(SP.StyleProperties.Extent, SP.ExtentType(height=SP.LengthType(30, SP.LengthType.Units.pct), width=SP.LengthType(80, SP.LengthType.Units.pct)))
  top.set_style(SP.StyleProperties.DisplayAlign, SP.DisplayAlignType.before)
  doc.put_region(top)
  mid = M.Region("mid", doc)
  mid.set_style(SP.StyleProperties.Origin, SP.CoordinateType(x=SP.LengthType(0, SP.LengthType.Units.pct), y=SP.LengthType(40, SP.LengthType.Units.pct)))
  mid.set_style(SP.StyleProperties.Extent, SP.ExtentType(height=SP.LengthType(20, SP.LengthType.Units.pct), width=SP.LengthType(100, SP.LengthType.Units.pct)))
  mid.set_style(SP.StyleProperties.DisplayAlign, SP.DisplayAlignType.center)
  doc.put_region(mid)
  body = M.Body(doc)
  doc.set_body(body)
  div = M.Div(doc)
  body.push_child(div)
  return doc, div, {"bottom": reg, "top": top, "mid": mid}


def _add_p(doc, div, region, begin, end, lines, text_align=None):
  """lines: list of lines, a line is a list of (text, style set) runs; styles in {"b","i","u","red","bg_blue",...}"""
  p = M.P(doc)
  p.set_begin(Fraction(begin, 1000))
  p.set_end(Fraction(end, 1000))
  p.set_region(region)
  if text_align is not None:
    p.set_style(SP.StyleProperties.TextAlign, text_align)
  for k, line in enumerate(lines):
    if k:
      p.push_child(M.Br(doc))
    for text, st in line:
      sp = M.Span(doc)
      if "b" in st:
        sp.set_style(SP.StyleProperties.FontWeight, SP.FontWeightType.bold)
      if "i" in st:
        sp.set_style(SP.StyleProperties.FontStyle, SP.FontStyleType.italic)
      if "u" in st:
        sp.set_style(SP.StyleProperties.TextDecoration, SP.TextDecorationType(underline=True))
      for c in st:
        if c in V.COLOURS:
          sp.set_style(SP.StyleProperties.Color, SP.ColorType(V.COLOURS[c] + (255,)))
        if c.startswith("bg_"):
          sp.set_style(SP.StyleProperties.BackgroundColor, SP.ColorType(V.COLOURS[c[3:]] + (255,)))
      sp.push_child(M.Text(doc, text))
      p.push_child(sp)
  div.push_child(p)


def writer_documents():
  """-> [(name, doc, expected cues)], expected cue = dict(begin, end, lines=[[(text, styles)]], display, text_align)"""
  docs = []
  S = frozenset
  # 1: plain consecutive cues, one region
  doc, div, regs = _doc_plain()
  cues = []
  for k, (b, e, lines) in enumerate([(0, 1500, [[("Hello world", S())]]), (1500, 4000, [[("two", S())], [("lines here", S())]]),
                                     (5001, 7280, [[("after a gap", S())]]), (3600000, 3601001, [[("one hour in", S())]])]):
    _add_p(doc, div, regs["bottom"], b, e, lines)
    cues.append({"begin": b, "end": e, "lines": lines, "display": "after", "text_align": None})
  docs.append(("plain", doc, cues))
  # 2: inline styles
  doc, div, regs = _doc_plain()
  cues = []
  for b, e, lines in [(1000, 2000, [[("plain ", S()), ("bold", S("b")), (" tail", S())]]),
                      (2000, 3000, [[("it", S("i")), (" and ", S()), ("under", S("u"))], [("both", S(("b", "i")))]]),
                      (4000, 5000, [[("red", S(("red",))), (" on blue", S(("bg_blue",))), (" lime bold", S(("lime", "b")))]])]:
    _add_p(doc, div, regs["bottom"], b, e, lines)
    cues.append({"begin": b, "end": e, "lines": lines, "display": "after", "text_align": None})
  docs.append(("styled", doc, cues))
  # 3: three regions and text alignment
  doc, div, regs = _doc_plain()
  cues = []
  for b, e, reg, disp, ta, lines in [(0, 1000, "top", "before", SP.TextAlignType.start, [[("at the top", S())]]),
                                     (1000, 2000, "bottom", "after", SP.TextAlignType.end, [[("at the bottom", S())]]),
                                     (2000, 3000, "mid", "center", SP.TextAlignType.center, [[("in the middle", S())]]),
                                     (3000, 4000, "top", "before", SP.TextAlignType.center, [[("top again", S())], [("second", S())]])]:
    _add_p(doc, div, regs[reg], b, e, lines, ta)
    cues.append({"begin": b, "end": e, "lines": lines, "display": disp, "text_align": ta.value})
  docs.append(("regions", doc, cues))
  return docs


def writer(_):
  rec = _rec()
  import ttconv.vtt.writer as W
  from ttconv.vtt.config import VTTWriterConfiguration
  cname = "writer: read(write(doc, cfg)) == cues(doc)"
  for name, _unused, _cues in writer_documents():
    for line_position, text_align, cue_id in itertools.product((False, True), repeat=3):
      # a fresh document per configuration: the writer's ISD filters are free to modify what they are given
      doc, cues = next((d, c) for n, d, c in writer_documents() if n == name)
      cfg = VTTWriterConfiguration(line_position=line_position, text_align=text_align, cue_id=cue_id)
      label = f"{name}/line_position={line_position},text_align={text_align},cue_id={cue_id}"
      rec.evaluated(cname, label, {"document": name, "config": label})
      args = {"document": name, "line_position": line_position, "text_align": text_align, "cue_id": cue_id}
      try:
        text = W.from_model(doc, cfg)
      except Exception as e:  # pylint: disable=broad-except
        # the writer is not under contract here (C07): a writer failure is reported under its own key
        rec.fail("writer-crash", cname, f"{label}: from_model raised {exc_text(e)}", label, exc_text(e), "a WebVTT text",
                 "replayers.c11:writer_roundtrip", args)
        continue
      back, err = read(text)
      if err is not None:
        rec.fail("roundtrip-reader-crash", cname, f"{label}: to_model raised {exc_text(err)} on the writer's output", text, exc_text(err),
                 "a document", "replayers.c11:writer_roundtrip", args)
        continue
      ps = paragraphs(back)
      if len(ps) != len(cues):
        rec.fail("roundtrip-cue-count", cname, f"{label}: {len(ps)} paragraphs read, {len(cues)} cues written", text, len(ps), len(cues),
                 "replayers.c11:writer_roundtrip", args)
        continue
      for p, cue in zip(ps, cues):
        if (_q(p.get_begin()), _q(p.get_end())) != (Fraction(cue["begin"], 1000), Fraction(cue["end"], 1000)):
          rec.fail("roundtrip-time", cname, f"{label}: cue read with {p.get_begin()!r}..{p.get_end()!r}, written {cue['begin']}..{cue['end']} ms",
                   text, None, None, "replayers.c11:writer_roundtrip", args)
        got_lines = V.plain_lines(normalise(observe_p(p)[0]))
        want_lines = ["".join(t for t, _st in line) for line in cue["lines"]]
        if got_lines != want_lines:
          rec.fail("roundtrip-text", cname, f"{label}: text lines {got_lines!r} read, {want_lines!r} written", text, got_lines, want_lines,
                   "replayers.c11:writer_roundtrip", args)
      # and the generic contract on the writer's text
      check_file(rec, text, None, check_regions=True, label="writer-output")
  return rec


# ---------------------------------------------------------------------------------------------------------------------


def _job(item):
  kind, k = item
  if kind == "grid":
    return grid_chunk(k)
  if kind == "files":
    return files_chunk(k)
  if kind == "nesting":
    return nesting(k)
  if kind == "units":
    return units(k)
  if kind == "writer":
    return writer(k)
  raise ValueError(kind)


def _jobs_chunk(items):
  rec = _rec()
  for it in items:
    rec.merge(_job(it))
  return rec


def main():
  global QUICK, SEED
  args = parse_args()
  QUICK = args.tier == "quick"
  SEED = args.seed
  global _GRID
  _GRID = grid_settings()      # computed once, inherited by the forked workers
  n_grid = len(_GRID)
  n_chunks = (n_grid + GRID_CHUNK - 1) // GRID_CHUNK
  n_file_chunks = 32
  rec = Recorder("C11", "cue settings: the full grid (exhaustive); tag nesting chains to depth 3 (exhaustive); WebVTT files from the file "
                 "and cue text grammars (seeded random); writer round trip over 3 documents x 8 configurations; a case is non-trivial "
                 "when it is a distinct (contract, input text / settings) pair",
                 {"grid": {"line": "-50..50 and 0%..100% x alignment {none,start,center,end} x vertical {none,rl,lr} x 3 companions",
                           "position/size": "{none,0..100 step 5,1,49,51,99}% x position alignment {none,line-left,center,line-right} x align "
                                            "{none,start,center,end,left,right} x vertical {none,rl,lr} x 2 companions",
                           "cues": n_grid, "exhaustive": True},
                  "nesting": {"chains": len(nesting_cases()), "depth": 3, "exhaustive": True},
                  "files": n_file_chunks * (120 if QUICK else 6000), "writer": "3 documents x 8 configurations",
                  "exhaustive_contracts": ["region inside root container", "region writing mode / text alignment / display alignment",
                                           "region anchored at the line position", "region anchored at the cue position",
                                           "nesting: to_model(text) == oracle(text)"]})
  items = [("units", 0), ("nesting", 0), ("writer", 0)] + [("files", k) for k in range(n_file_chunks)]
  grid_items = [("grid", k) for k in range(n_chunks)]
  # group the many small grid chunks into 64 work items
  groups = [grid_items[i::64] for i in range(64)]
  work = [[it] for it in items] + [g for g in groups if g]
  for part in parallel(_jobs_chunk, work):
    rec.merge(part)
  rec.exhaustive = False   # the grid and the nesting chains are complete; the file grammar is sampled (see bounded_scope)
  return rec.dump(args.out)


if __name__ == "__main__":
  sys.exit(main())
