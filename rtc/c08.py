"""C08 bounded tier: the SCC reader against a reference CEA-608 decoder, frame by frame.

SCC files are generated from the pop-on, roll-up and paint-on protocol grammars (see `gen_stream`), read with the real
`ttconv.scc.reader.to_model`, and the document is compared at EVERY frame between the first and the last word with the displayed memory of the independent decoder `specs/ref608.py` fed the same words (parsed from the same SCC text by
`ref608.parse_scc_words`, not by ttconv).

What is compared (see ASSUMPTIONS in contracts/c08.py for the latitude):
  * rows: each paragraph is mapped to caption rows through its region (origin, display alignment, extent) and its Br-separated
    lines; the visible rows must be the rows of the displayed memory, in order, and at the same row numbers;
  * text: characters of a row after removal of leading/trailing spaces (gaps, mid-row cells and transparent spaces are spaces);
    glyphs without a fixed code point accept the sets of specs/cea608.py;
  * style runs: colour, italics and underline of every non-space character;
  * times: the document must show the state after word i from frame recv(i)+D on, D in {0, 1} constant per document
    (recv(i) = frame count of the line's time code + position of the word in the line); every begin/end must be an exact multiple
    of the frame duration.  In roll-up and paint-on (writes to the displayed memory) the document may be AHEAD of the decoder within
    the burst of words being written (same line, no intervening pop-on), never behind.

When the strict comparison fails the failure is *classified*: the comparison is repeated under descriptions of deviation classes
(HYPOTHESES: frame counter not advanced by suppressed duplicates, EDM stamped one frame late, roll-up base row ignored, roll-up PACs
for rows 5-11 ignored, ..., and the permissive "rows only relative" / "ahead across lines" per caption style); a greedy search looks
for a small set under which the document conforms and the failure keys name the members of that set.  A stream that no set
explains gets a `screen:<style>:<what differs>@<word class>` key, or the name of the situation it contains (caption style changed
without erasing, text written over existing text).  The classes only NAME failures; they never make a failing stream pass.
"""
import bisect
import hashlib
import logging
import sys
import traceback
from fractions import Fraction

from rtc.common import Recorder, parse_args, rng, parallel
from specs import cea608 as S, ref608 as R, smpte

REPLAYER = "replayers.c08:stream"

C_ACCEPT = "to_model accepts protocol streams"
C_FRAME = "begin/end are exact frame multiples"
C_TEXT = "every frame: same characters, rows in order, style runs as the reference decoder"
C_ROWS = "every frame: same row numbers as the reference decoder"
C_TIME = "changes happen within the transmission window of the triggering word"
C_DBL = "doubled control codes act once: the stream with every control pair sent twice shows the same sequence of screens"

NDF = Fraction(30)
DF = Fraction(30000, 1001)

# ----------------------------------------------------------------------------------------------------------------------
# encoding of CEA-608 words (from the standard; checked against the classifier of specs/cea608.py at import)

ROW_CODE = {1: (0x11, 0), 2: (0x11, 0x20), 3: (0x12, 0), 4: (0x12, 0x20), 5: (0x15, 0), 6: (0x15, 0x20), 7: (0x16, 0), 8: (0x16, 0x20),
            9: (0x17, 0), 10: (0x17, 0x20), 11: (0x10, 0), 12: (0x13, 0), 13: (0x13, 0x20), 14: (0x14, 0), 15: (0x14, 0x20)}


def w_pac(row, attr, underline):
  """attr 0..6 colours, 7 white italics, 8..15 indent 0,4,..,28"""
  b1, hi = ROW_CODE[row]
  return (b1, 0x40 | hi | (attr << 1) | (1 if underline else 0))


def w_midrow(attr, underline):
  return (0x11, 0x20 | (attr << 1) | (1 if underline else 0))


def w_ctrl(name):
  if name.startswith("TO"):
    return (0x17, 0x20 + int(name[2]))
  return (0x14, 0x20 + S.CONTROL_NAMES.index(name))


def w_special(i):
  return (0x11, 0x30 + i)


def w_extended(i):
  return (0x12 + i // 32, 0x20 + i % 32)


def _selftest():
  for row in range(1, 16):
    for attr in range(16):
      for u in (0, 1):
        cls, ch, _, det = S.classify(*w_pac(row, attr, u))
        assert cls == S.PAC and ch == 1 and det["row"] == row and det["underline"] == bool(u), (row, attr, u)
        assert det["indent"] == ((attr - 8) * 4 if attr >= 8 else None)
  for name in S.CONTROL_NAMES + ["TO1", "TO2", "TO3"]:
    cls, ch, field, det = S.classify(*w_ctrl(name))
    assert cls == S.CONTROL and ch == 1 and field == 1 and det["name"] == name, name
  for i in range(16):
    assert S.classify(*w_special(i))[0] == S.SPECIAL and S.classify(*w_special(i))[3]["index"] == i
    assert S.classify(*w_midrow(i // 2, i % 2))[0] == S.MIDROW
  for i in range(64):
    assert S.classify(*w_extended(i))[0] == S.EXTENDED and S.classify(*w_extended(i))[3]["index"] == i


_selftest()


def odd_parity(b):
  return b | 0x80 if bin(b & 0x7F).count("1") % 2 == 0 else b & 0x7F


# ----------------------------------------------------------------------------------------------------------------------
# generation.  A stream is a list of lines; a line is {"gap": frames between the end of the previous line and this one,
# "units": [...]}; units: ("c", (b1, b2)) a CC1 control pair (doubled or not according to the policy), ("t", [bytes]) standard
# characters (packed two per word, an odd tail is filled with 00), ("x", [(b1, b2), ...]) raw words that CC1 must ignore.

LETTERS = [ord(c) for c in "ABCDEFGHIJKLMNOPQRSTUVWXYZabcdefghijklmnopqrstuvwxyz0123456789"]
PUNCT = [ord(c) for c in ".,!?'-:;\"$%&()+/<=>@[]#"]
SUBST = [0x2A, 0x5C, 0x5E, 0x5F, 0x60, 0x7B, 0x7C, 0x7D, 0x7E, 0x7F]
# plausible fall-back characters transmitted before an extended character
FALLBACK = [ord(c) for c in "AEOUaeiou*'-c\"<>{}\\^_|~Ss"]


def gen_chars(r, n):
  if n >= 4 and r.random() < 0.06:
    # the same pair of characters several times in a row ("hahaha", "...."): character pairs are never redundant copies
    a, b = r.choice(LETTERS + PUNCT), r.choice(LETTERS + PUNCT + [0x20])
    return ([a, b] * n)[:n]
  out = []
  for _ in range(n):
    x = r.random()
    if x < 0.70:
      out.append(r.choice(LETTERS))
    elif x < 0.82:
      out.append(0x20)
    elif x < 0.92:
      out.append(r.choice(PUNCT))
    else:
      out.append(r.choice(SUBST))
  return out


def gen_row_text(r, room, rich):
  """units for the content of one row, using at most `room` columns (>= 1); the first item is visible text"""
  units = []
  used = 0
  n_items = r.choice((1, 1, 2, 2, 3, 4)) if rich else r.choice((1, 1, 2))
  want = max(1, min(room, r.choice((1, 2, 3, 5, 8, 12, 20, 32))))
  last = None
  for k in range(n_items):
    left = want - used
    if left <= 0:
      break
    x = r.random()
    if k == 0 or x < 0.45 or not rich:
      n = r.randint(1, min(left, 7))
      chars = gen_chars(r, n)
      if k == 0 and chars[0] == 0x20 and r.random() < 0.4:
        chars[0] = r.choice(LETTERS)
      units.append(("t", chars))
      used += n
      last = "t"
    elif x < 0.60:
      units.append(("c", w_special(r.randrange(16))))
      used += 1
      last = "s"
    elif x < 0.75:
      if used + 1 >= room:       # the behaviour of the cursor in column 32 differs between decoders: not generated
        break
      units.append(("t", [r.choice(FALLBACK)]))
      units.append(("c", w_extended(r.randrange(64))))
      used += 1
      last = "e"
    elif x < 0.93:
      if left < 2:
        break
      units.append(("c", w_midrow(r.randrange(8), r.random() < 0.25)))
      if left >= 3 and r.random() < 0.2:
        # two mid-row codes in a row: a colour and italics (italics keeps the colour), or two colours (the second wins)
        units.append(("c", w_midrow(r.choice((7, 7, r.randrange(7))), r.random() < 0.25)))
        used += 1
        left -= 1
      n = r.randint(1, min(left - 1, 5))
      units.append(("t", gen_chars(r, n)))
      used += 1 + n
      last = "t"
    elif x < 0.975:
      if last == "t" and 1 <= used < room:
        units.append(("c", w_ctrl("BS")))
        units.append(("t", gen_chars(r, 1)))
        last = "t"
    else:
      # a tab offset in the middle of a row: the cursor moves over 1-3 cells, which stay transparent (a gap), then text follows
      n = r.randint(1, 3)
      if left < n + 1 or used + n + 1 >= room:
        break
      units.append(("c", w_ctrl(f"TO{n}")))
      units.append(("t", [r.choice(LETTERS)]))
      used += n + 1
      last = "t"
  return units


def gen_pac(r, row, force_indent=None):
  """-> (units, first column)"""
  underline = r.random() < 0.15
  if force_indent is None and r.random() < 0.35:
    attr = r.randrange(8)                 # colour / italics PAC: column 1
    return [("c", w_pac(row, attr, underline))], 0
  k = r.choice((0, 0, 0, 1, 2, 3, 4, 5, 6, 7)) if force_indent is None else force_indent
  units = [("c", w_pac(row, 8 + k, underline))]
  col = 4 * k
  if r.random() < 0.3:
    n = r.randint(1, 3)
    units.append(("c", w_ctrl(f"TO{n}")))
    col += n
  return units, col


def gen_rows(r, n, contiguous_bias=0.6):
  if r.random() < contiguous_bias:
    top = r.randint(1, 16 - n)
    rows = list(range(top, top + n))
    if r.random() < 0.5:
      rows = list(range(16 - n, 16))
  else:
    rows = sorted(r.sample(range(1, 16), n))
  if r.random() < 0.1:
    r.shuffle(rows)
  return rows


def other_channel_block(r):
  """words a CC1 decoder must ignore: they start with a control pair of data channel 2 (or of field 2)"""
  ws = []
  x = r.random()
  if x < 0.25:
    ws.append((0x15 if r.random() < 0.5 else 0x1D, 0x20 + r.randrange(16)))     # field-2 miscellaneous control code
  else:
    head = r.choice([(0x1C, 0x20), (0x1C, 0x29), (0x1C, 0x25), (0x1C, 0x2C), (0x1C, 0x2F), (0x1C, 0x2E), (0x1C, 0x2D), (0x1C, 0x21),
                     (0x19, 0x50), (0x1C, 0x70), (0x19, 0x2E), (0x19, 0x37), (0x1A, 0x25), (0x1F, 0x22), (0x18, 0x2A)])
    ws.append(head)
    if r.random() < 0.5:
      ws.append(head)
    for _ in range(r.choice((0, 0, 1, 2))):
      c = gen_chars(r, 2)
      ws.append((c[0], c[1]))
    if r.random() < 0.3:
      ws.append(r.choice([(0x1C, 0x2F), (0x1C, 0x2C), (0x1C, 0x2D), (0x1C, 0x21)]))
  return ws


class Policy:
  def __init__(self, r, clean):
    self.doubling = r.choice(("none", "none", "all", "all", "mixed")) if not clean else "none"
    self.parity = r.choice(("odd", "odd", "clear", "mixed"))
    self.padding = r.choice((0.0, 0.0, 0.1, 0.3))
    self.other = r.choice((0.0, 0.0, 0.15, 0.3))
    self.rich = r.random() < 0.75
    self.drop = r.random() < 0.5
    self.clean = clean


def pop_caption(r, pol, first):
  """-> list of lines (each a list of units)"""
  n = r.choice((1, 1, 2, 2, 3, 4))
  head = [("c", w_ctrl("RCL"))]
  if r.random() < (0.75 if not first else 0.5):
    head.append(("c", w_ctrl("ENM")))
  body = []
  for row in gen_rows(r, n):
    p, col = gen_pac(r, row)
    body.append(p + gen_row_text(r, 32 - col, pol.rich))
  tail = []
  if not pol.clean and r.random() < 0.2:
    tail.append(("c", w_ctrl("EDM")))
  tail.append(("c", w_ctrl("EOC")))
  x = r.random()
  if x < 0.5:
    return [head + [u for b in body for u in b] + tail]
  if x < 0.8:
    return [head + [u for b in body for u in b], tail]
  lines = [head + body[0]]
  for b in body[1:]:
    if r.random() < 0.5:
      lines.append(([("c", w_ctrl("RCL"))] if r.random() < 0.5 else []) + b)
    else:
      lines[-1] = lines[-1] + b
  lines.append(tail)
  return lines


def roll_caption(r, pol, st):
  """one roll-up row"""
  units = []
  if st.get("mode") != "roll" or r.random() < 0.6:
    if st.get("mode") != "roll":
      st["depth"] = r.choice((2, 3, 4))
      st["base"] = 15 if r.random() < 0.7 else r.randint(st["depth"], 15)
    elif r.random() < 0.1:
      st["depth"] = r.choice((2, 3, 4))
      st["base"] = max(st["base"], st["depth"])
    units.append(("c", w_ctrl(f"RU{st['depth']}")))
  fresh = st.get("mode") != "roll"
  st["mode"] = "roll"
  if not fresh or r.random() < 0.7:
    units.append(("c", w_ctrl("CR")))
  col = 0
  if fresh or r.random() < 0.8 or st["base"] != 15:
    if not fresh and r.random() < 0.05:
      st["base"] = r.randint(st["depth"], 15)
    p, col = gen_pac(r, st["base"])
    units += p
  units += gen_row_text(r, 32 - col, pol.rich)
  return [units]


def paint_caption(r, pol, st):
  units = []
  if st.get("mode") != "paint" or r.random() < 0.5:
    units.append(("c", w_ctrl("RDC")))
  if st.get("mode") != "paint":
    st["used"] = set()
  st["mode"] = "paint"
  free = [x for x in range(1, 16) if x not in st["used"]]
  n = min(r.choice((1, 1, 2, 2, 3, 4)), len(free))
  if n == 0:
    return [[("c", w_ctrl("EDM"))]]
  if r.random() < 0.6:
    # contiguous block of free rows if possible
    starts = [a for a in free if all((a + k) in free for k in range(n))]
    if starts:
      a = starts[-1] if r.random() < 0.5 else r.choice(starts)
      rows = list(range(a, a + n))
    else:
      rows = sorted(r.sample(free, n))
  else:
    rows = sorted(r.sample(free, n))
  lines = [units]
  for row in rows:
    st["used"].add(row)
    p, col = gen_pac(r, row)
    b = p + gen_row_text(r, 32 - col, pol.rich)
    if len(lines[-1]) > (1 if units else 0) and r.random() < 0.3:
      lines.append(b)
    else:
      lines[-1] = lines[-1] + b
  return [ln for ln in lines if ln]


def gen_stream(r, family, max_captions, clean):
  """-> (policy, lines) with lines = [{"gap": g, "units": [...]}]"""
  pol = Policy(r, clean)
  st = {"mode": None}
  lines = []
  n_caps = r.randint(1, max_captions)
  shown = False
  for k in range(n_caps):
    mode = family if family != "mixed" else r.choice(("pop", "roll", "paint"))
    if family == "mixed" and st["mode"] not in (None, mode) and r.random() < 0.85:
      # what encoders do when they change the caption style: erase both memories
      lines.append({"gap": r.choice((0, 1, 5, 20)), "units": [("c", w_ctrl("EDM")), ("c", w_ctrl("ENM"))]})
      if st["mode"] == "paint":
        st["used"] = set()
    if mode == "pop":
      cap = pop_caption(r, pol, not shown)
      st["mode"] = "pop"
      shown = True
    elif mode == "roll":
      cap = roll_caption(r, pol, st)
    else:
      cap = paint_caption(r, pol, st)
    if mode != "pop" and r.random() < 0.12:
      # the text of a row continues on the next SCC line
      units = cap[-1]
      first_text = next((i for i, u in enumerate(units) if u[0] == "t"), None)
      if first_text is not None and first_text + 1 < len(units):
        cut = r.randint(first_text + 1, len(units) - 1)
        cap = cap[:-1] + [units[:cut], units[cut:]]
    for j, units in enumerate(cap):
      lines.append({"gap": r.choice((0, 0, 1, 2, 3, 7, 15, 31, 60)) if (j or k) else 0, "units": units})
    # optional erase after some display time
    if not pol.clean and r.random() < (0.35 if mode == "pop" else 0.2):
      lines.append({"gap": r.choice((0, 1, 2, 5, 20, 45)), "units": [("c", w_ctrl("EDM"))]})
      if mode == "paint":
        st["used"] = set()
  return pol, lines


def flatten(r, pol, lines):
  """-> [(gap, [(b1, b2, intent)])] or None when the word sequence would contain an unintended pair of identical control codes
  (which a decoder cannot tell from a redundant copy)"""
  out = []
  for ln in lines:
    ws = []

    def pad():
      while pol.padding and r.random() < pol.padding:
        ws.append((0, 0, "pad"))

    for u in ln["units"]:
      if u[0] == "c":
        if pol.other and r.random() < pol.other:
          for w in other_channel_block(r):
            ws.append((w[0], w[1], "other"))
        pad()
        dbl = pol.doubling == "all" or (pol.doubling == "mixed" and r.random() < 0.5)
        ws.append((u[1][0], u[1][1], "ctrl"))
        if dbl:
          ws.append((u[1][0], u[1][1], "copy"))
      elif u[0] == "t":
        pad()
        b = list(u[1])
        if len(b) % 2:
          b.append(0)
        for i in range(0, len(b), 2):
          ws.append((b[i], b[i + 1], "text"))
      else:
        for w in u[1]:
          ws.append((w[0], w[1], "other"))
    pad()
    out.append((ln["gap"], ws))
  # reject ambiguous sequences: a control pair equal to the previous CC1 control pair with only padding / other-channel words
  # (or nothing) between them, unless it is the intended redundant copy
  prev = None
  for _, ws in out:
    for (b1, b2, intent) in ws:
      if intent in ("pad", "other"):
        continue
      if intent == "text":
        prev = None
        continue
      if intent == "copy":
        prev = "after-copy"
        continue
      if prev is not None and prev != "after-copy" and prev == (b1, b2):
        return None
      prev = (b1, b2)
  return out


def render(r, pol, flat, start_count):
  """-> SCC text"""
  rate = DF if pol.drop else NDF
  sep = ";" if pol.drop else ":"
  n = start_count
  txt = ["Scenarist_SCC V1.0", ""]
  for gap, ws in flat:
    if not ws:
      continue
    n += gap
    h, m, s, f = smpte.label(n, rate)
    words = []
    for (b1, b2, _) in ws:
      mode = pol.parity if pol.parity != "mixed" else r.choice(("odd", "clear"))
      if mode == "odd":
        b1, b2 = odd_parity(b1), odd_parity(b2)
      words.append(f"{b1:02x}{b2:02x}")
    txt.append(f"{h:02d}:{m:02d}:{s:02d}{sep}{f:02d}\t" + " ".join(words))
    txt.append("")
    n += len(ws)
  return "\n".join(txt) + "\n"


def gen_start(r, drop):
  rate = DF if drop else NDF
  x = r.random()
  if x < 0.3:
    return r.choice((0, 1, 29, 30))
  if x < 0.6:
    # shortly before a minute / ten-minute / hour boundary, so that the words of a line cross it
    m = r.choice((1, 2, 9, 10, 11, 59, 60, 61, 600, 1439))
    return smpte.count(m // 60, m % 60, 0, 2 if (drop and m % 10) else 0, rate) - r.randint(1, 40)
  return r.randrange(0, 24 * 3600 * 30 - 5000)


CONFIGS = [None, "auto", "left", "center", "right"]


def make_case(seed, family, idx, max_captions):
  r = rng(seed, f"c08/{family}/{idx}")
  clean = r.random() < 0.4
  for _ in range(50):
    pol, lines = gen_stream(r, family, max_captions, clean)
    flat = flatten(r, pol, lines)
    if flat is not None:
      break
  else:
    raise RuntimeError("could not generate an unambiguous stream")
  start = gen_start(r, pol.drop)
  text = render(r, pol, flat, start)
  cfg = CONFIGS[idx % len(CONFIGS)]
  make_case.last = (pol, flat, start)
  return text, cfg


def doubled_variant(seed, family, idx):
  """the stream of the last make_case with EVERY channel-1 control pair sent twice (only for streams generated without any doubling,
  other-channel data or padding: the redundant copy must directly follow the original) -> SCC text or None"""
  pol, flat, start = make_case.last
  if pol.doubling != "none" or pol.other or pol.padding:
    return None
  out = []
  for gap, ws in flat:
    w2 = []
    for (b1, b2, intent) in ws:
      w2.append((b1, b2, intent))
      if intent == "ctrl":
        w2.append((b1, b2, "copy"))
    out.append((gap, w2))
  return render(rng(seed, f"c08-dbl/{family}/{idx}"), pol, out, start)


# ----------------------------------------------------------------------------------------------------------------------
# the reference side


class ObservedDecoder(R.Decoder):
  """the reference decoder, instrumented (situations of the protocol, used only to name failures) and, for the classification
  of failures only, optionally bent towards a known deviation (`quirks`)"""

  def __init__(self, quirks=frozenset()):
    super().__init__(lazy_depth="lazy-depth" in quirks)
    self.quirks = quirks
    self.overwrites = 0       # writes into occupied cells / PACs onto rows that already hold something
    self.switches = 0         # caption style changed while a memory still held something
    self.last_switch = None
    self.first_overwrite = None
    self.spacepairs = 0       # paint-on: character pairs that end with a space (and do not start with one)
    self.tabgaps = 0          # tab offsets received while the row already holds something left of the cursor (a gap inside the row)
    self.fresh = True         # paint-on: no character yet since the last PAC / mid-row code
    self.erased = False       # roll-up: EDM received and no RUx / PAC / character since
    self.orphan = False       # roll-up: characters were written after an EDM without RUx / PAC

  def _put(self, cell):
    mem = self._memory()
    if mem is not None and mem[self.row][self.col] is not None:
      self.overwrites += 1
      self.first_overwrite = self.first_overwrite or self.mode
    super()._put(cell)

  def feed(self, b1, b2):
    c1, c2 = b1 & 0x7F, b2 & 0x7F
    pen = None
    if self.mode == "paint" and self.cc1 and c1 >= 0x20:
      last = c2 if c2 >= 0x20 else c1
      if c1 != 0x20 and last == 0x20:
        self.spacepairs += 1
        if "paint-space-pair-unstyled" in self.quirks and self.fresh:
          # deviation: in paint-on mode a character pair that ends with a space, does not start with one and is the first pair
          # after a PAC or a mid-row code is shown with default attributes
          pen = (self.colors, self.italic, self.underline)
          self.colors, self.italic, self.underline = frozenset({"white"}), False, False
      self.fresh = False
    tag = super().feed(b1, b2)
    if pen is not None:
      self.colors, self.italic, self.underline = pen
    if tag in ("PAC", "midrow"):
      self.fresh = True
    elif tag in ("special", "extended"):
      self.fresh = False
    if self.mode == "roll" and self.erased and tag in ("text", "special", "extended", "midrow"):
      self.erased = False
      self.orphan = True
    return tag

  def _pac(self, det):
    if self.mode in ("pop", "paint") and any(c is not None for c in self._memory()[det["row"]]):
      self.overwrites += 1
      self.first_overwrite = self.first_overwrite or self.mode
    self.erased = False
    if self.mode == "roll":
      named = det["row"]
      if "roll-base-15" in self.quirks:
        # deviation: the base row of roll-up captions is always row 15, whatever row the PAC names
        det = dict(det, row=R.ROWS)
      if "roll-pac-5-11" in self.quirks and 5 <= named <= 11:
        # deviation: such a PAC only moves the base row; column 1, pen unchanged
        self._set_base(det["row"])
        self.row = self.base
        self.col = 0
        return "PAC"
    return super()._pac(det)

  def _control(self, name):
    if name in ("TO1", "TO2", "TO3"):
      mem = self._memory()
      if mem is not None and self.row is not None and any(c is not None for c in mem[self.row][:self.col]):
        self.tabgaps += 1
    if self.mode == "roll":
      if name == "EDM":
        self.erased, self.orphan = True, False
      elif name in ("RU2", "RU3", "RU4"):
        self.erased = False
      elif name == "CR" and self.orphan:
        self.orphan = False
        if "roll-row-after-edm-lost" in self.quirks:
          # deviation: a roll-up row written after an EDM without a preceding RUx or PAC disappears at the next carriage return
          # instead of rolling up
          self.displayed[self.base] = [None] * R.COLS
    if name in ("RCL", "RDC", "RU2", "RU3", "RU4"):
      new = {"RCL": "pop", "RDC": "paint"}.get(name, "roll")
      if self.mode not in (None, new) and any(c is not None for mem in (self.displayed, self.nondisplayed) for row in mem for c in row):
        self.switches += 1
        self.last_switch = f"{self.mode}->{new}"
      if new != "roll":
        self.erased = self.orphan = False
    return super()._control(name)


class RefRun:
  """the reference decoder fed the words of an SCC text; one entry per word"""

  def __init__(self, text, quirks=frozenset()):
    lines = R.parse_scc_words(text)
    self.drop = None
    self.recv, self.tag, self.line, self.version, self.mode, self.dups = [], [], [], [], [], []
    self.overwrites, self.switches, self.spacepairs, self.switch_at, self.tabgaps = [], [], [], [], []
    self.snap = {0: {}}
    self.labels = []
    dec = ObservedDecoder(quirks)
    for li, (label, words) in enumerate(lines):
      drop = label[8] == ";"
      if self.drop is None:
        self.drop = drop
      rate = DF if drop else NDF
      h, m, s, f = int(label[0:2]), int(label[3:5]), int(label[6:8]), int(label[9:11])
      if not smpte.valid(h, m, s, f, rate):
        raise ValueError(f"invalid label {label}")
      n0 = smpte.count(h, m, s, f, rate)
      self.labels.append((label, n0))
      dups = 0
      for k, (b1, b2) in enumerate(words):
        before = dec.version
        tag = dec.feed(b1, b2)
        if tag == R.DUPLICATE:
          dups += 1
        self.recv.append(n0 + k)
        self.tag.append(tag)
        self.line.append(li)
        self.mode.append(dec.mode)
        self.dups.append(dups)
        self.overwrites.append(dec.overwrites)
        if dec.switches != (self.switches[-1] if self.switches else 0):
          self.switch_at.append((len(self.switches), dec.last_switch))
        self.switches.append(dec.switches)
        self.spacepairs.append(dec.spacepairs)
        self.tabgaps.append(dec.tabgaps)
        if dec.version != before:
          self.snap[dec.version] = normal_ref(dec.displayed_rows())
        self.version.append(dec.version)
    self.first_overwrite = dec.first_overwrite
    self.fps = DF if self.drop else NDF
    n = len(self.recv)
    boundary = {"PAC", "CR", "EDM", "EOC", "RCL", "RDC", "RU2", "RU3", "RU4", "ENM"}
    transparent = {R.DUPLICATE, R.PADDING, R.OTHER_CHANNEL, R.IGNORED}
    # burst id: [boundary words]* [other words]*, never across lines
    self.burst = [0] * n
    b = 0
    in_head = False
    for i in range(n):
      t = self.tag[i]
      if i and self.line[i] != self.line[i - 1]:
        b += 1
        in_head = t in boundary
      elif t in transparent:
        pass
      elif t in boundary:
        if not in_head:
          b += 1
        in_head = True
      else:
        in_head = False
      self.burst[i] = b
    # the same without the line rule (classification only)
    b = 0
    in_head = False
    self.burst_x = [0] * n
    for i in range(n):
      t = self.tag[i]
      if t in transparent:
        pass
      elif t in boundary:
        if not in_head:
          b += 1
        in_head = True
      else:
        in_head = False
      self.burst_x[i] = b

  def horizon(self, i, cross_lines=False):
    """last index j >= i the document may already show at the time of word i"""
    burst = self.burst_x if cross_lines else self.burst
    j = i
    n = len(self.recv)
    while j + 1 < n and burst[j + 1] == burst[i] and self.mode[j + 1] in ("roll", "paint") and self.tag[j + 1] != "EOC":
      j += 1
    return j


def normal_ref(rows):
  out = {}
  for row, (_, cells) in rows.items():
    cs = list(cells)
    while cs and (cs[0] is None or cs[0].is_space()):
      cs.pop(0)
    while cs and (cs[-1] is None or cs[-1].is_space()):
      cs.pop()
    if cs:
      out[row] = cs
  return out


def show_ref(rows):
  return {row: "".join("·" if c is None else ("␣" if c.is_space() else sorted(c.chars)[0]) for c in cells) + " " +
          _runs([None if (c is None or c.is_space()) else ("/".join(sorted(c.colors)), c.italic, c.underline) for c in cells])
          for row, cells in sorted(rows.items())}


def _runs(styles):
  out = []
  prev = object()
  for i, s in enumerate(styles):
    if s is None:
      continue
    if s != prev:
      out.append(f"@{i}:{s[0]}{'+i' if s[1] else ''}{'+u' if s[2] else ''}")
      prev = s
  return " ".join(out)


# ----------------------------------------------------------------------------------------------------------------------
# the document side


def _inherited(elem, prop):
  e = elem
  while e is not None:
    v = e.get_style(prop)
    if v is not None:
      return v
    e = e.parent()
  return None


def _flatten_span(node, out):
  from ttconv.model import Text, Span, Br
  from ttconv.style_properties import StyleProperties as SP, FontStyleType
  for c in node:
    if isinstance(c, Text):
      col = _inherited(node, SP.Color)
      rgb = (255, 255, 255) if col is None else tuple(col.components[:3])
      fs = _inherited(node, SP.FontStyle)
      td = _inherited(node, SP.TextDecoration)
      it = fs is FontStyleType.italic
      ul = bool(td is not None and getattr(td, "underline", None) is True)
      for ch in c.get_text():
        out.append((" " if ch == "\u00a0" else ch, rgb, it, ul))
    elif isinstance(c, Span):
      _flatten_span(c, out)
    elif isinstance(c, Br):
      out.append("\n")


def _cells_from_pct(value, total, limit):
  """invert round(cells * 100 / total)"""
  return [c for c in range(0, limit + 1) if round(c * 100 / total) == value]


class DocRun:
  """paragraphs of the document as (begin frame, end frame, row-mapped lines with per-span activity)"""

  def __init__(self, doc, fps):
    from ttconv.model import P, Span, Br
    from ttconv.style_properties import StyleProperties as SP, DisplayAlignType, LengthType
    self.problems = []       # (key, text)
    self.paras = []
    self.fps = fps
    self.times = set()
    cols, rows = 40, 19
    cr = doc.get_cell_resolution()
    if cr is not None:
      cols, rows = cr.columns, cr.rows
    x_off, y_off = (cols - 32) // 2, (rows - 15) // 2
    body = doc.get_body()
    ps = []
    if body is not None:
      for div in body:
        for p in div:
          if isinstance(p, P):
            ps.append(p)
    for p in ps:
      b = self._frame(p.get_begin(), f"begin of {p.get_id()}", 0)
      e = self._frame(p.get_end(), f"end of {p.get_id()}", None)
      region = p.get_region()
      if region is None:
        self.problems.append(("no-region", f"paragraph {p.get_id()} has no region"))
        continue
      origin = region.get_style(SP.Origin)
      extent = region.get_style(SP.Extent)
      align = region.get_style(SP.DisplayAlign)
      rowc = None
      if origin is not None and origin.y.units is LengthType.Units.pct:
        cand = [c - y_off + 1 for c in _cells_from_pct(origin.y.value, rows, rows)]
        rowc = cand[0] if len(cand) == 1 else None
      elif origin is not None and origin.y.units is LengthType.Units.c:
        rowc = int(origin.y.value) - y_off + 1
      height = None
      if extent is not None and extent.height.units is LengthType.Units.pct:
        cand = _cells_from_pct(extent.height.value, rows, rows)
        height = cand[0] if len(cand) == 1 else None
      elif extent is not None and extent.height.units is LengthType.Units.c:
        height = int(extent.height.value)
      # lines: [[(rel begin frame, rel end frame or None, [cells])...]...]
      lines = [[]]
      for c in p:
        if isinstance(c, Br):
          lines.append([])
        elif isinstance(c, Span):
          sb = self._frame(c.get_begin(), f"begin of a span of {p.get_id()}", 0)
          se = self._frame(c.get_end(), f"end of a span of {p.get_id()}", None)
          cells = []
          _flatten_span(c, cells)
          sub = [[]]
          for x in cells:
            if x == "\n":
              sub.append([])
            else:
              sub[-1].append(x)
          lines[-1].append((sb, se, sub[0]))
          for extra in sub[1:]:
            lines.append([(sb, se, extra)])
        else:
          cells = []
          from ttconv.model import Text
          if isinstance(c, Text):
            for ch in c.get_text():
              cells.append((ch, (255, 255, 255), False, False))
            lines[-1].append((0, None, cells))
      if rowc is None:
        self.problems.append(("region-origin", f"cannot map the origin {origin} of region {region.get_id()} to a caption row"))
        continue
      if align is DisplayAlignType.after:
        if height is None:
          self.problems.append(("region-extent", f"cannot map the extent {extent} of region {region.get_id()} to rows"))
          continue
        first_row = rowc + height - 1 - (len(lines) - 1)
      elif align is DisplayAlignType.center:
        self.problems.append(("region-align", f"region {region.get_id()} is centred vertically"))
        continue
      else:
        first_row = rowc
      self.paras.append((b, e, first_row, lines, p.get_id()))
      self.times.add(b)
      if e is not None:
        self.times.add(e)
      for ln in lines:
        for (sb, se, _) in ln:
          self.times.add(b + sb)
          if se is not None:
            self.times.add(b + se)
    self.steps = sorted(self.times)
    self._cache = {}

  def _frame(self, t, what, default):
    if t is None:
      return default
    f = Fraction(t) * self.fps
    if f.denominator != 1:
      self.problems.append(("time-not-frame-multiple", f"{what} is {t} s = {f} frames"))
      return f.numerator // f.denominator
    return int(f)

  def screen(self, frame):
    """-> (id of the interval, {row: [cells]}) at `frame`"""
    k = bisect.bisect_right(self.steps, frame)
    if k in self._cache:
      return k, self._cache[k]
    rows = {}
    clash = False
    for (b, e, first_row, lines, _) in self.paras:
      if frame < b or (e is not None and frame >= e):
        continue
      for li, ln in enumerate(lines):
        cells = []
        for (sb, se, cs) in ln:
          if frame >= b + sb and (se is None or frame < b + se):
            cells += cs
        while cells and cells[0][0] == " ":
          cells.pop(0)
        while cells and cells[-1][0] == " ":
          cells.pop()
        if not cells:
          continue
        row = first_row + li
        if row in rows:
          clash = True
          rows[row] = rows[row] + [("❗", (0, 0, 0), False, False)] + cells
        else:
          rows[row] = cells
    self._cache[k] = rows
    return k, rows


def show_doc(rows):
  return {row: "".join("␣" if c[0] == " " else c[0] for c in cells) + " " +
          _runs([None if c[0] == " " else (_color_name(c[1]), c[2], c[3]) for c in cells]) for row, cells in sorted(rows.items())}


def _color_name(rgb):
  for name, v in S.RGB.items():
    if v == rgb:
      return name
  if rgb == (0, 128, 0):
    return "green"
  return "#%02x%02x%02x" % rgb


def row_equiv(doc_cells, ref_cells):
  """-> None or 'text' / set of style attributes that differ"""
  if len(doc_cells) != len(ref_cells):
    return "text"
  style = set()
  for d, c in zip(doc_cells, ref_cells):
    if c is None or c.is_space():
      if d[0] != " ":
        return "text"
      continue
    if d[0] not in c.chars:
      return "text"
    if not any(S.rgb_ok(name, d[1]) for name in c.colors):
      style.add("color")
    if d[2] != c.italic:
      style.add("italics")
    if d[3] != c.underline:
      style.add("underline")
  return style or None


def screen_equiv(doc_rows, ref_rows, abs_rows):
  """-> None or 'rows' / 'row-position' / 'text' / 'style:<attributes>'"""
  if len(doc_rows) != len(ref_rows):
    return "rows"
  dk, rk = sorted(doc_rows), sorted(ref_rows)
  worst = set()
  for a, b in zip(dk, rk):
    x = row_equiv(doc_rows[a], ref_rows[b])
    if x == "text":
      return "text"
    if x:
      worst |= x
  if abs_rows:
    moved = dk != rk
  else:
    # the relative layout (blank rows between caption rows) still has to agree
    moved = [a - dk[0] for a in dk] != [b - rk[0] for b in rk]
  if worst:
    return ("row-position+" if moved else "") + "style:" + "+".join(sorted(worst))
  return "row-position" if moved else None


# ----------------------------------------------------------------------------------------------------------------------
# comparison


SEVERITY = {"style": 1, "row-position": 2, "row-position+style": 3, "text": 4, "rows": 5}


class Mismatch:
  def __init__(self, frame, index, what, doc_rows, ref_rows, mode, tag):
    self.frame, self.index, self.what, self.doc_rows, self.ref_rows, self.mode, self.tag = frame, index, what, doc_rows, ref_rows, mode, tag


def compare(ref: RefRun, doc: DocRun, D, clock=(), rel_modes=(), cross_modes=(), cache=None):
  """-> None or the first Mismatch.  Classification only: `clock` subset of {"dup", "edm"}; `rel_modes`: caption styles for which only
  the relative layout of the rows is compared; `cross_modes`: caption styles for which the document may be ahead across SCC lines"""
  n = len(ref.recv)
  if n == 0:
    return None
  eff = []
  for i in range(n):
    e = ref.recv[i] + D
    if "dup" in clock:
      e -= ref.dups[i]
    if "edm" in clock and ref.tag[i] == "EDM":
      e += 1
    eff.append(e)
  # make monotone (an EDM delayed by one frame takes effect together with the next word)
  mono = list(eff)
  for i in range(1, n):
    if mono[i] < mono[i - 1]:
      mono[i] = mono[i - 1]
  f0 = min(ref.recv[0], mono[0]) - 1
  f1 = mono[-1]
  if cache is None:
    cache = {}
  jprev = -1
  for f in range(f0, f1 + 1):
    i = bisect.bisect_right(mono, f) - 1
    k, drows = doc.screen(f)
    if i < 0:
      lo, hi = -1, -1
    else:
      hi = ref.horizon(i, ref.mode[i] in cross_modes)
      lo = jprev if i <= jprev <= hi else i
    ok = False
    closest = None
    for j in range(lo, hi + 1):
      ver = 0 if j < 0 else ref.version[j]
      abs_rows = j < 0 or ref.mode[j] not in rel_modes
      ck = (k, ver, abs_rows)
      if ck not in cache:
        cache[ck] = screen_equiv(drows, ref.snap[ver], abs_rows)
      res = cache[ck]
      if res is None:
        ok = True
        jprev = j
        break
      if closest is None or SEVERITY[res.split(":")[0]] < SEVERITY[closest[0].split(":")[0]]:
        closest = (res, j, ver)
    if not ok:
      res, j, ver = closest
      return Mismatch(f, j, res, drows, ref.snap[ver], ref.mode[j] if j >= 0 else None, ref.tag[j] if j >= 0 else None)
  return None


def trigger(ref, i):
  """the word whose effect the mismatch at index i is about: the last non-transparent word at or before i"""
  while i > 0 and ref.tag[i] in (R.DUPLICATE, R.PADDING, R.OTHER_CHANNEL, R.IGNORED):
    i -= 1
  return ref.tag[i] if i >= 0 else None


def config_of(name):
  from ttconv.scc.config import SccReaderConfiguration, TextAlignment
  if name is None:
    return None
  return SccReaderConfiguration(text_align=TextAlignment.from_value(name))


HYPOTHESES = ["lazy-depth", "dup", "edm", "roll-base-15", "roll-pac-5-11", "paint-space-pair-unstyled", "roll-row-after-edm-lost",
              "cross:roll", "cross:paint", "relrows:pop", "relrows:roll", "relrows:paint"]
QUIRKS = {"lazy-depth", "roll-base-15", "roll-pac-5-11", "paint-space-pair-unstyled", "roll-row-after-edm-lost"}
GENERIC = {"cross:roll", "cross:paint", "relrows:pop", "relrows:roll", "relrows:paint"}
READINGS = [frozenset(), frozenset({"lazy-depth"})]      # accepted readings of the standard (never reported)
HYP_TEXT = {
  "dup": ("time:early-after-doubled-code", C_TIME,
          "events after a doubled control code are stamped one frame early per suppressed copy (the document conforms when the frame "
          "counter is not advanced for suppressed copies)"),
  "edm": ("time:edm-one-frame-late", C_TIME,
          "EDM ends the caption one frame later than the convention used for every other event (the document conforms when EDM is "
          "delayed by one frame)"),
  "cross": ("time:text-before-its-line:{mode}", C_TIME,
            "text is shown before the time code of the SCC line that carries it (the document conforms when the row being written may "
            "be shown ahead across line boundaries)"),
  "relrows": ("row-position:{mode}", C_ROWS,
              "the rows have the right content, order and spacing but not the row numbers of the decoder ({mode} mode)"),
  "roll-base-15": ("roll-up:base-row-ignored", C_ROWS,
                   "roll-up captions are always shown with row 15 as base row, whatever row the PAC names (the document conforms when "
                   "every roll-up PAC is read as a PAC for row 15)"),
  "roll-pac-5-11": ("roll-up:pac-rows-5-11-ignored", C_TEXT,
                    "in roll-up mode the indent and the colour/italics/underline of a PAC for rows 5-11 are ignored (the document "
                    "conforms when such a PAC only selects the base row)"),
  "roll-row-after-edm-lost": ("roll-up:row-after-edm-without-pac-lost", C_TEXT,
                              "a roll-up row written after an EDM without a preceding RUx or PAC disappears at the next carriage return instead of rolling "
                              "up (the document conforms when that row is erased by the CR)"),
  "paint-space-pair-unstyled": ("paint-on:pair-ending-with-space-unstyled", C_TEXT,
                                "in paint-on mode a character pair that ends with a space and directly follows a PAC or mid-row code "
                                "loses the colour / italics / underline in force (the document conforms when such pairs are written with default attributes)"),
}


def _progress(m):
  """how far a comparison got: later first mismatch, then milder kind of mismatch"""
  return (m.frame, -SEVERITY[(m.what or "rows").split(":")[0]])


class Judge:
  def __init__(self, text, run):
    self.text, self.run = text, run
    self.refs, self.caches = {}, {}

  def ref(self, quirks=frozenset()):
    if quirks not in self.refs:
      self.refs[quirks] = RefRun(self.text, quirks)
      self.caches[quirks] = {}
    return self.refs[quirks]

  def first_mismatch(self, hyps, D):
    q = frozenset(h for h in hyps if h in QUIRKS)
    ref = self.ref(q)
    clock = tuple(h for h in ("dup", "edm") if h in hyps)
    rel = tuple(h.split(":")[1] for h in hyps if h.startswith("relrows:"))
    cross = tuple(h.split(":")[1] for h in hyps if h.startswith("cross:"))
    return compare(ref, self.run, D, clock, rel, cross, self.caches[q])

  def explain(self, D):
    """greedy search for a set of known deviations under which the document conforms -> (hypotheses, None) or
    (hypotheses tried, first mismatch left)"""
    import itertools
    chosen = frozenset()
    m = self.first_mismatch(chosen, D)
    while m is not None:
      best = None
      # the specific deviations first; the permissive ones (any row offset, any look-ahead) only when nothing else helps
      for pool in ([h for h in HYPOTHESES if h not in GENERIC], HYPOTHESES):
        rest = [h for h in pool if h not in chosen]
        for size in (1, 2):
          for extra in itertools.combinations(rest, size):
            m2 = self.first_mismatch(chosen | set(extra), D)
            if m2 is None:
              best = ((float("inf"), 0), extra, None)
              break
            if _progress(m2) > _progress(m) and (best is None or _progress(m2) > best[0]):
              best = (_progress(m2), extra, m2)
          if best is not None:
            break
        if best is not None:
          break
      if best is None:
        return chosen, m
      chosen = chosen | set(best[1])
      m = best[2]
    # minimal set: a specific deviation is kept when it matters without the permissive ones (which would cover for it)
    def prog(hyps):
      mm = self.first_mismatch(hyps, D)
      return None if mm is None else _progress(mm)
    for h in sorted(chosen - GENERIC):
      if prog(chosen - GENERIC - {h}) == prog(chosen - GENERIC) and self.first_mismatch(chosen - {h}, D) is None:
        chosen = chosen - {h}
    for h in sorted(chosen & GENERIC):
      if self.first_mismatch(chosen - {h}, D) is None:
        chosen = chosen - {h}
    return chosen, None


def evaluate(text, cfg_name):
  """-> (failures [(key, contract, summary, observed, required)], info dict)"""
  from ttconv.scc.reader import to_model
  fails = []
  ref = RefRun(text)
  info = {"words": len(ref.recv), "changes": len(ref.snap) - 1, "modes": sorted({m for m in ref.mode if m})}
  try:
    doc = to_model(text, config_of(cfg_name))
  except Exception as e:  # pylint: disable=broad-except
    tb = traceback.extract_tb(e.__traceback__)
    where = next((f"{fr.filename.rsplit('/', 1)[-1]}:{fr.name}" for fr in reversed(tb) if "/ttconv/" in fr.filename), "?")
    fails.append((f"raises:{type(e).__name__}@{where}", C_ACCEPT, f"to_model raised {type(e).__name__}: {e} in {where}", repr(e),
                  "a document"))
    return fails, info
  run = DocRun(doc, ref.fps)
  for key, msg in run.problems:
    contract = C_FRAME if key == "time-not-frame-multiple" else C_ROWS
    fails.append((key, contract, msg, msg, "exact frame multiples" if contract is C_FRAME else "a region that maps to caption rows"))
  judge = Judge(text, run)
  judge.refs[frozenset()] = ref
  judge.caches[frozenset()] = {}
  for D in (1, 0):
    for reading in READINGS:
      if judge.first_mismatch(reading, D) is None:
        info["D"] = D
        return fails, info
  # classification: is there a set of known deviations under which the document conforms?
  results = [(D,) + judge.explain(D) for D in (1, 0)]
  passing = [x for x in results if x[2] is None]
  strict = judge.first_mismatch(frozenset(), 1)
  obs = {"frame": strict.frame, "document": show_doc(strict.doc_rows)}
  req = {"frame": strict.frame, "reference": show_ref(strict.ref_rows), "after word": strict.index}
  if passing:
    D, chosen, _ = min(passing, key=lambda x: (len(x[1]), -x[0]))
    info["D"] = D
    bref = judge.ref(frozenset(h for h in chosen if h in QUIRKS))
    for h in sorted(chosen):
      if h.split(":")[0] not in HYP_TEXT:
        continue
      key, contract, msg = HYP_TEXT[h.split(":")[0]]
      m = judge.first_mismatch(chosen - {h}, D) or judge.first_mismatch(chosen - GENERIC - {h}, D)
      mode = h.split(":")[1] if ":" in h else str(m.mode)
      if h in GENERIC and (bref.switches[-1] or bref.overwrites[-1]):
        # the permissive descriptions say little in streams that change the caption style without erasing or write over existing
        # text: name the situation instead
        idx = max(m.index, 0)
        if bref.switches[-1]:
          before = [p for (i, p) in bref.switch_at if i <= idx]
          key = f"style-switch-without-erase:{before[-1] if before else bref.switch_at[0][1]}"
        else:
          key = f"overwrite:{bref.first_overwrite}:layout"
        msg = "(stream that changes the caption style without erasing / writes over existing text) " + msg
      fails.append((key.format(mode=mode), contract, msg.format(mode=mode) + f"; first difference at frame {m.frame}: document "
                    f"{show_doc(m.doc_rows)}, reference {show_ref(m.ref_rows)}",
                    {"frame": m.frame, "document": show_doc(m.doc_rows)}, {"frame": m.frame, "reference": show_ref(m.ref_rows)}))
    return fails, info
  D, chosen, best = max(results, key=lambda x: (_progress(x[2]), x[0]))
  bref = judge.ref(frozenset(h for h in chosen if h in QUIRKS))
  what = best.what or "rows"
  idx = max(best.index, 0)
  # situations of the protocol met anywhere in the stream (the document is built with knowledge of the whole file) name the class
  kind = what.split(":")[0]
  if bref.switches[-1]:
    before = [p for (i, p) in bref.switch_at if i <= idx]
    key = f"style-switch-without-erase:{before[-1] if before else bref.switch_at[0][1]}"
  elif bref.overwrites[-1]:
    key = f"overwrite:{bref.first_overwrite}:{kind}"
  elif bref.spacepairs[-1]:
    key = f"paint-on:after-space-pair:{kind}"
  elif bref.tabgaps[-1]:
    key = f"gap:tab-offset-after-text:{best.mode}:{kind}"
  else:
    key = f"screen:{best.mode}:{what}@{trigger(bref, idx)}"
  fails.append((key, C_TEXT,
                f"frame {best.frame}: the document shows {show_doc(best.doc_rows)}, the reference decoder {show_ref(best.ref_rows)} "
                f"(mode {best.mode}, after word {best.index} [{best.tag}]; {what} differ; convention D={D}, deviations already "
                f"assumed: {sorted(chosen)})",
                {"frame": best.frame, "document": show_doc(best.doc_rows)},
                {"frame": best.frame, "reference": show_ref(best.ref_rows), "after word": best.index}))
  return fails, info


def screens_of(text, cfg_name):
  """the sequence of distinct non-empty screens of the document, in time order (times dropped) -> list | exception"""
  from ttconv.scc.reader import to_model
  ref = RefRun(text)
  doc = to_model(text, config_of(cfg_name))
  run = DocRun(doc, ref.fps)
  seq = []
  for fr in run.steps:
    _, rows = run.screen(fr)
    sig = tuple(sorted((row, tuple(cells)) for row, cells in rows.items()))
    if sig and (not seq or seq[-1] != sig):
      seq.append(sig)
  return seq


def evaluate_doubling(text, text2, cfg_name):
  """pop-on streams only (the screen changes at EOC / EDM, so the sequence of screens does not depend on when the words of a row arrive)"""
  try:
    a, b = screens_of(text, cfg_name), screens_of(text2, cfg_name)
  except Exception:  # pylint: disable=broad-except
    return None        # reported by the other contracts
  if a == b:
    return None
  k = next((i for i in range(min(len(a), len(b))) if a[i] != b[i]), min(len(a), len(b)))
  sa = show_doc(dict(a[k])) if k < len(a) else "no further screen"
  sb = show_doc(dict(b[k])) if k < len(b) else "no further screen"
  kind = "rows"
  if k < len(a) and k < len(b):
    ra, rb = dict(a[k]), dict(b[k])
    if sorted(ra) == sorted(rb) and all("".join(c[0] for c in ra[x]) == "".join(c[0] for c in rb[x]) for x in ra):
      kind = "style"
    elif sorted(ra) == sorted(rb):
      kind = "text"
  return (f"doubling-changes-the-display:{kind}", C_DBL, f"screen {k + 1}: sent once {sa}, every control pair sent twice {sb}", sb, sa)


# ----------------------------------------------------------------------------------------------------------------------

FAMILIES = ["pop", "roll", "paint", "mixed"]


def _scc(*lines):
  """lines: (frame count, [words as (b1, b2)]) -> SCC text, 30 fps non-drop, odd parity"""
  txt = ["Scenarist_SCC V1.0", ""]
  for n, ws in lines:
    h, m, s_, f = smpte.label(n, NDF)
    txt.append(f"{h:02d}:{m:02d}:{s_:02d}:{f:02d}\t" + " ".join(f"{odd_parity(a):02x}{odd_parity(b):02x}" for a, b in ws))
    txt.append("")
  return "\n".join(txt) + "\n"


def _t(text):
  b = [ord(c) for c in text]
  if len(b) % 2:
    b.append(0)
  return [(b[i], b[i + 1]) for i in range(0, len(b), 2)]


def directed_streams():
  """orderings of otherwise independent operations that the random grammars do not produce (each is small and unambiguous)"""
  C_, P_ = w_ctrl, lambda row, attr=0: w_pac(row, attr, False)
  out = []
  # paint-on: the screen is erased after the cursor has been moved by a PAC and before anything is written at the new position
  out.append(_scc((300, [C_("RDC"), P_(3)] + _t("TOP LINE")), (400, [C_("RDC"), P_(12), C_("EDM")] + _t("LOWER LINE")), (500, [C_("EDM")])))
  out.append(_scc((300, [C_("RDC"), P_(5)] + _t("ONE")), (400, [P_(14), C_("EDM")] + _t("TWO")), (460, [P_(15)] + _t("THREE")), (560, [C_("EDM")])))
  # paint-on: erase, then text at the position the cursor already has (no PAC after the erase)
  out.append(_scc((300, [C_("RDC"), P_(7)] + _t("AB")), (360, [C_("EDM")] + _t("CD")), (460, [C_("EDM")])))
  # pop-on: three captions without ENM / EDM, the file ends without an erase
  out.append(_scc((300, [C_("RCL"), P_(14)] + _t("FIRST") + [C_("EOC")]), (400, [C_("RCL"), P_(15)] + _t("SECOND") + [C_("EOC")]),
                  (500, [C_("RCL"), P_(13)] + _t("THIRD") + [C_("EOC")])))
  # pop-on: a colour mid-row code directly followed by the italics mid-row code, sent once and sent twice
  out.append(_scc((300, [C_("RCL"), P_(15)] + _t("AB") + [w_midrow(1, False), w_midrow(7, False)] + _t("CD") + [C_("EOC")]), (400, [C_("EDM")])))
  out.append(_scc((300, [C_("RCL"), C_("RCL"), P_(15), P_(15)] + _t("AB") + [w_midrow(1, False)] * 2 + [w_midrow(7, False)] * 2 + _t("CD") + [C_("EOC"), C_("EOC")]),
                  (400, [C_("EDM"), C_("EDM")])))
  # data of channel 2 that CONTINUES on the next SCC line (the channel in force does not change at a line boundary): pop-on, roll-up, paint-on
  ch2 = lambda w: (w[0] | 0x08, w[1])      # noqa: E731  the channel-2 twin of a channel-1 control word
  out.append(_scc((300, [C_("RCL"), C_("ENM"), P_(14)] + _t("HELLO") + [C_("EOC")]), (400, [ch2(C_("RCL")), ch2(P_(15))] + _t("SEGUNDO ")),
                  (430, _t("CANAL") + [ch2(C_("EOC"))]), (500, [C_("RCL"), C_("ENM"), P_(15)] + _t("WORLD") + [C_("EOC")]), (600, [C_("RCL"), C_("ENM"), C_("EOC")])))
  out.append(_scc((300, [C_("RU2"), C_("CR"), P_(15)] + _t("ONE")), (400, [ch2(C_("RU2")), ch2(C_("CR"))] + _t("DOS")), (430, _t("TRES")),
                  (500, [C_("CR")] + _t("TWO"))))
  out.append(_scc((300, [C_("RDC"), P_(14)] + _t("AB")), (400, [ch2(C_("RDC")), ch2(P_(15))] + _t("XX")), (430, _t("YY") + [ch2(C_("EDM"))]),
                  (500, [C_("RDC"), P_(15)] + _t("CD"))))
  # a row that ENDS with a mid-row code (underline, italics, colour): the code occupies a cell, the row is content like any other
  for mid in (w_midrow(0, True), w_midrow(7, False), w_midrow(1, True)):
    out.append(_scc((300, [C_("RU2"), C_("CR"), P_(15)] + _t("AB") + [mid]), (400, [C_("CR")] + _t("CD")), (500, [C_("CR")] + _t("EF"))))
    out.append(_scc((300, [C_("RCL"), C_("ENM"), P_(14)] + _t("AB") + [mid, P_(15)] + _t("CD") + [C_("EOC")]), (400, [C_("RCL"), C_("ENM"), C_("EOC")])))
    out.append(_scc((300, [C_("RDC"), P_(14)] + _t("AB") + [mid]), (400, [C_("RDC"), P_(15)] + _t("CD"))))
  # a tab offset after text on the same row leaves a gap of transparent cells (pop-on, paint-on, roll-up)
  out.append(_scc((300, [C_("RCL"), C_("ENM"), P_(14)] + _t("AB") + [C_("TO2")] + _t("CD") + [C_("EOC")]), (400, [C_("RCL"), C_("ENM"), C_("EOC")])))
  out.append(_scc((300, [C_("RDC"), P_(14)] + _t("AB") + [C_("TO1")] + _t("CD")), (400, [C_("RDC"), P_(15)] + _t("EF") + [C_("TO3")] + _t("GH"))))
  out.append(_scc((300, [C_("RU2"), C_("CR"), P_(15)] + _t("AB") + [C_("TO3")] + _t("CD")), (400, [C_("CR")] + _t("EF"))))
  # the word streams of the proof tier (specs/scc_shapes.py), so that the reference decoder judges, at concrete labels, the same streams
  # whose paragraph texts the proof tier states by hand: non-drop labels, and drop-frame labels across a minute boundary
  from specs import scc_shapes
  for name, spec in sorted(scc_shapes.SHAPES.items()):
    if name in ("pop-on-doubled", "pop-on-edm"):
      continue      # the two known time findings; the random grammars produce them anyway
    for rate, sep, start in ((NDF, ":", 300), (DF, ";", 1790)):
      txt = ["Scenarist_SCC V1.0", ""]
      for i, words in enumerate(spec["lines"]):
        h, m, s_, f = smpte.label(start + 100 * i, rate)
        txt += [f"{h:02d}:{m:02d}:{s_:02d}{sep}{f:02d}\t{words}", ""]
      out.append("\n".join(txt) + "\n")
  return out


C_ALIGN = "the text_align configuration changes alignment only: same paragraphs, times and characters (leading spaces included) as without it"


def raw_paragraphs(text, cfg_name):
  """(begin, end, exact text with one LF per br) of every paragraph, in document order"""
  import ttconv.model as m
  from ttconv.scc.reader import to_model
  doc = to_model(text, config_of(cfg_name))
  out = []
  for p in doc.get_body().dfs_iterator():
    if isinstance(p, m.P):
      out.append((p.get_begin(), p.get_end(), "".join(e.get_text() if isinstance(e, m.Text) else ("\n" if isinstance(e, m.Br) else "")
                                                       for e in p.dfs_iterator())))
  return out


def evaluate_alignment(text, cfg_name):
  """metamorphic contract over the configuration: -> None | (key, contract, summary, observed, required)"""
  try:
    base, other = raw_paragraphs(text, None), raw_paragraphs(text, cfg_name)
  except Exception:  # pylint: disable=broad-except
    return None        # reported by the other contracts
  if base == other:
    return None
  k = next((i for i in range(min(len(base), len(other))) if base[i] != other[i]), min(len(base), len(other)))
  a, b = (base[k] if k < len(base) else None), (other[k] if k < len(other) else None)
  what = "text" if (a and b and a[:2] == b[:2]) else "paragraphs"
  return (f"text-align-changes-content:{what}", C_ALIGN,
          f"paragraph {k} is {b!r} with text_align={cfg_name} and {a!r} without a configuration", repr(b), repr(a))


def run_chunk(job):
  seed, tier, family, lo, hi = job
  logging.disable(logging.CRITICAL)
  rec = Recorder("C08", "", {})
  max_caps = 3 if tier == "quick" else 8
  for idx in range(lo, hi):
    text, cfg = make_case(seed, family, idx, max_caps)
    fp = hashlib.sha1((text + "|" + str(cfg)).encode()).hexdigest()[:16]
    fails, info = evaluate(text, cfg)
    sample = {"family": family, "config": cfg, "scc": text, "info": info}
    by_contract = {}
    for f in fails:
      by_contract.setdefault(f[1], []).append(f)
    for c in (C_ACCEPT, C_FRAME, C_TEXT, C_ROWS, C_TIME):
      if c is not C_ACCEPT and any(f[1] is C_ACCEPT for f in fails):
        continue
      rec.evaluated(c, fp, sample if c is C_TEXT else None, nontrivial=info["changes"] > 0)
    for (key, contract, summary, observed, required) in fails:
      rec.fail(key, contract, summary, {"scc": text, "config": cfg, "family": family}, observed, required, REPLAYER,
               {"scc": text, "config": cfg})
    if cfg is not None:
      rec.evaluated(C_ALIGN, fp, None, nontrivial=info["changes"] > 0)
      f = evaluate_alignment(text, cfg)
      if f is not None:
        rec.fail(f[0], f[1], f[2], {"scc": text, "config": cfg, "family": family}, f[3], f[4], "replayers.c08:alignment", {"scc": text, "config": cfg})
    if family == "pop":
      text2 = doubled_variant(seed, family, idx)
      if text2 is not None:
        rec.evaluated(C_DBL, fp, None, nontrivial=info["changes"] > 0)
        f = evaluate_doubling(text, text2, cfg)
        if f is not None:
          rec.fail(f[0], f[1], f[2], {"scc": text, "scc_doubled": text2, "config": cfg, "family": family}, f[3], f[4], "replayers.c08:doubling",
                   {"scc": text, "scc_doubled": text2, "config": cfg})
  return rec


def main():
  args = parse_args()
  quick = args.tier == "quick"
  logging.disable(logging.CRITICAL)
  per_family = 2000 if quick else 24000
  rec = Recorder("C08", "one evaluation of each contract per generated SCC stream x text_align configuration; every frame from the "
                 "first word to the last is compared; a case is non-trivial when the displayed memory changes at "
                 "least once and is distinct by (SCC text, configuration)",
                 {"captions_per_stream": 3 if quick else 8, "streams_per_family": per_family, "families": FAMILIES,
                  "configurations": [str(c) for c in CONFIGS]})
  jobs = []
  chunk = per_family // 16
  for fam in FAMILIES:
    for lo in range(0, per_family, chunk):
      jobs.append((args.seed, args.tier, fam, lo, min(per_family, lo + chunk)))
  for part in parallel(run_chunk, jobs):
    rec.merge(part)
  for k, text in enumerate(directed_streams()):
    fails, info = evaluate(text, None)
    fp = hashlib.sha1(text.encode()).hexdigest()[:16]
    for c in (C_ACCEPT, C_FRAME, C_TEXT, C_ROWS, C_TIME):
      rec.evaluated(c, fp, None, nontrivial=info["changes"] > 0)
    for (key, contract, summary, observed, required) in fails:
      rec.fail(key, contract, f"(directed stream {k}) " + summary, {"scc": text, "config": None, "family": "directed"}, observed, required, REPLAYER,
               {"scc": text, "config": None})
  return rec.dump(args.out)


if __name__ == "__main__":
  sys.exit(main())
