"""Generators of canonical-model documents (ttconv.model) shared by the bounded tiers of C01/C02/C13/C14/C05/C06/C07/C16.

Every element except Text gets a unique id ("e<n>"), so that snapshot elements can be matched with their source elements.
All randomness comes from the `random.Random` passed in."""
from fractions import Fraction

import ttconv.model as m
import ttconv.style_properties as sp

SP = sp.StyleProperties
TIMES = [None, None, Fraction(0), Fraction(1), Fraction(3, 2), Fraction(2), Fraction(5), Fraction(7, 3), Fraction(10)]
TEXTS = ["Hello", "a b", " lead", "trail ", "  two  spaces  ", "x\ny", "\n", " ", "", "tab\tbed", "été", "<&>",
         # characters that Python calls white space (str.isspace, \s, str.split, str.strip, str.splitlines) but XML / TTML do not:
         # they are ordinary characters of the text (only TAB, LF, CR and SPACE are white space)
         "a\u00a0\u00a0b", "\u3000lead", "trail\u3000", "x\u2003 y", " \u00a0 ", "p\u2028q", "v\x0bw\x0cz", "n\u0085m\u2029", "\u3000", "e\x1c\x1d\x1ef", "\u202f9",
         "\U0001f600 \U00020000"]


class Gen:
  def __init__(self, r, scope=None):
    self.r = r
    self.n = 0
    self.scope = dict(regions=(0, 3), max_depth=2, styles=True, ruby=True, animation=True, timing=True, display=True, space=True,
                      rich_styles=False, bgfocus=False)
    if scope:
      self.scope.update(scope)

  def nid(self):
    self.n += 1
    return f"e{self.n}"

  def timing(self, e, p=0.5):
    r = self.r
    if not self.scope["timing"] or r.random() > p:
      return
    b = r.choice(TIMES)
    en = r.choice(TIMES)
    if b is not None and en is not None and en < b and r.random() < 0.7:
      b, en = en, b
    e.set_begin(b)
    e.set_end(en)

  def maybe_region(self, e, regions, p):
    if regions and self.r.random() < p:
      e.set_region(self.r.choice(regions))

  def display(self, e):
    r = self.r
    if self.scope["display"] and r.random() < 0.12:
      e.set_style(SP.Display, sp.DisplayType.none)
    if self.scope["animation"] and r.random() < 0.2:
      b = r.choice([None, Fraction(0), Fraction(1), Fraction(1, 2), Fraction(2)])
      en = r.choice([None, Fraction(1), Fraction(3), Fraction(4)])
      val = r.choice([sp.DisplayType.none, sp.DisplayType.auto])
      e.add_animation_step(m.DiscreteAnimationStep(SP.Display, b, en, val))
      if r.random() < 0.3:
        e.add_animation_step(m.DiscreteAnimationStep(SP.Display, Fraction(1), None, r.choice([sp.DisplayType.none, sp.DisplayType.auto])))

  def br_extras(self, b):
    """a line break may carry specified styles and be the target of <set> (the IMSC reader maps <br><set .../></br> to it)"""
    r = self.r
    if self.scope["animation"] and r.random() < 0.3:
      b.add_animation_step(m.DiscreteAnimationStep(SP.Color, r.choice([None, Fraction(1)]), r.choice([None, Fraction(3)]), sp.NamedColors.red.value))
    if self.scope["styles"] and r.random() < 0.2:
      b.set_style(SP.Color, sp.NamedColors.lime.value)
    self.display(b)          # tts:display on the line break itself, specified or animated

  def simple_styles(self, e):
    """a few inheritable / non-inheritable styles that writers look at"""
    r = self.r
    if not self.scope["styles"]:
      return
    opts = [
      (SP.Color, [sp.NamedColors.red.value, sp.NamedColors.white.value, sp.ColorType((0, 255, 0, 255)), sp.ColorType((1, 2, 3, 128))]),
      (SP.BackgroundColor, [sp.NamedColors.blue.value, sp.NamedColors.transparent.value, sp.ColorType((0, 0, 0, 255))]),
      (SP.FontWeight, [sp.FontWeightType.bold, sp.FontWeightType.normal]),
      (SP.FontStyle, [sp.FontStyleType.italic, sp.FontStyleType.normal, sp.FontStyleType.oblique]),
      (SP.TextDecoration, [sp.TextDecorationType(underline=True), sp.TextDecorationType(underline=False), sp.TextDecorationType(line_through=True),
                           sp.TextDecorationType(underline=True, overline=False)]),
      (SP.FontSize, [sp.LengthType(50, sp.LengthType.Units.pct), sp.LengthType(2, sp.LengthType.Units.em), sp.LengthType(1, sp.LengthType.Units.c),
                     sp.LengthType(36, sp.LengthType.Units.px), sp.LengthType(5, sp.LengthType.Units.rh)]),
      (SP.TextAlign, [sp.TextAlignType.center, sp.TextAlignType.end, sp.TextAlignType.start]),
      (SP.Visibility, [sp.VisibilityType.hidden, sp.VisibilityType.visible]),
      (SP.Opacity, [0.5, 0, 1.0]),
      (SP.FontFamily, [("serif",), (sp.GenericFontFamilyType.monospace, "Arial")]),
      (SP.LineHeight, [sp.SpecialValues.normal, sp.LengthType(125, sp.LengthType.Units.pct)]),
      (SP.Direction, [sp.DirectionType.rtl, sp.DirectionType.ltr]),
    ]
    for prop, vals in opts:
      if r.random() < 0.15:
        e.set_style(prop, r.choice(vals))

  def text(self, doc, parent):
    t = m.Text(doc, self.r.choice(TEXTS))
    parent.push_child(t)

  def span(self, doc, regions, depth):
    r = self.r
    s = m.Span(doc)
    s.set_id(self.nid())
    self.timing(s, 0.4)
    self.maybe_region(s, regions, 0.1)
    self.display(s)
    self.simple_styles(s)
    if self.scope["space"] and r.random() < 0.15:
      s.set_space(m.WhiteSpaceHandling.PRESERVE)
    for _ in range(r.choice([0, 1, 1, 1, 2, 3])):
      k = r.random()
      if k < 0.6 or depth >= self.scope["max_depth"]:
        self.text(doc, s)
      elif k < 0.75:
        b = m.Br(doc)
        b.set_id(self.nid())
        self.br_extras(b)
        s.push_child(b)
      else:
        s.push_child(self.span(doc, regions, depth + 1))
    return s

  def ruby(self, doc, regions):
    r = self.r
    ru = m.Ruby(doc)
    ru.set_id(self.nid())
    self.timing(ru, 0.2)

    def leaf(cls):
      e = cls(doc)
      e.set_id(self.nid())
      if cls is not m.Rp or r.random() < 0.8:
        s = m.Span(doc)
        s.set_id(self.nid())
        self.text(doc, s)
        e.push_child(s)
      if r.random() < 0.2:
        self.timing(e, 1.0)
      return e

    if r.random() < 0.5:
      kids = [leaf(m.Rb), leaf(m.Rt)] if r.random() < 0.6 else [leaf(m.Rb), leaf(m.Rp), leaf(m.Rt), leaf(m.Rp)]
    else:
      rbc = m.Rbc(doc)
      rbc.set_id(self.nid())
      rbc.push_child(leaf(m.Rb))
      kids = [rbc]
      for _ in range(r.choice([1, 2])):
        rtc = m.Rtc(doc)
        rtc.set_id(self.nid())
        rtc.push_children([leaf(m.Rt) for _ in range(r.choice([1, 2]))])
        kids.append(rtc)
    ru.push_children(kids)
    return ru

  def p(self, doc, regions):
    r = self.r
    p = m.P(doc)
    p.set_id(self.nid())
    self.timing(p, 0.7)
    self.maybe_region(p, regions, 0.45)
    self.display(p)
    self.simple_styles(p)
    if self.scope["space"] and r.random() < 0.2:
      p.set_space(m.WhiteSpaceHandling.PRESERVE)
    for _ in range(r.choice([1, 1, 2, 3, 4])):
      k = r.random()
      if k < 0.7:
        p.push_child(self.span(doc, regions, 0))
      elif k < 0.85:
        b = m.Br(doc)
        b.set_id(self.nid())
        self.br_extras(b)
        p.push_child(b)
      elif self.scope["ruby"]:
        p.push_child(self.ruby(doc, regions))
    return p

  def div(self, doc, regions, depth):
    r = self.r
    d = m.Div(doc)
    d.set_id(self.nid())
    self.timing(d, 0.3)
    self.maybe_region(d, regions, 0.3)
    self.display(d)
    for _ in range(r.choice([0, 1, 1, 2, 3])):
      if r.random() < 0.8 or depth >= 1:
        d.push_child(self.p(doc, regions))
      else:
        d.push_child(self.div(doc, regions, depth + 1))
    return d

  def region_bgfocus(self, doc, rid):
    """regions whose background visibility is decided by the interplay of specified values, <initial> values and animation,
    at instants that lie outside the text content (the case the content-interval short cut of ISD.from_model must get right)"""
    r = self.r
    reg = m.Region(rid, doc)
    if r.random() < 0.3:
      reg.set_begin(r.choice([None, Fraction(0), Fraction(20)]))
      reg.set_end(r.choice([None, Fraction(50), Fraction(25)]))
    spec = [
      (SP.ShowBackground, [sp.ShowBackgroundType.whenActive, sp.ShowBackgroundType.always]),
      (SP.BackgroundColor, [sp.NamedColors.red.value, sp.ColorType((0, 0, 0, 0)), sp.NamedColors.transparent.value]),
      (SP.Opacity, [0, 1, 0.5]),
      (SP.Visibility, [sp.VisibilityType.hidden, sp.VisibilityType.visible]),
      (SP.Display, [sp.DisplayType.none, sp.DisplayType.auto]),
    ]
    for prop, vals in spec:
      if r.random() < 0.35:
        reg.set_style(prop, r.choice(vals))
    for _ in range(r.choice([0, 1, 1, 2])):
      prop, vals = r.choice(spec)
      vis = {SP.ShowBackground: sp.ShowBackgroundType.always, SP.BackgroundColor: sp.NamedColors.green.value, SP.Opacity: 1.0,
             SP.Visibility: sp.VisibilityType.visible, SP.Display: sp.DisplayType.auto}
      val = vis[prop] if r.random() < 0.7 else r.choice(vals)
      b = r.choice([None, Fraction(12), Fraction(30), Fraction(1)])
      e = r.choice([None, Fraction(14), Fraction(40), Fraction(3)])
      reg.add_animation_step(m.DiscreteAnimationStep(prop, b, e, val))
    doc.put_region(reg)
    return reg

  def region(self, doc, rid):
    if self.scope["bgfocus"]:
      return self.region_bgfocus(doc, rid)
    r = self.r
    reg = m.Region(rid, doc)
    self.timing(reg, 0.3)
    self.display(reg)
    if r.random() < 0.5:
      reg.set_style(SP.ShowBackground, r.choice([sp.ShowBackgroundType.always, sp.ShowBackgroundType.whenActive]))
    if r.random() < 0.4:
      reg.set_style(SP.BackgroundColor, r.choice([sp.NamedColors.transparent.value, sp.NamedColors.red.value, sp.ColorType((0, 0, 0, 0))]))
    if r.random() < 0.15:
      reg.set_style(SP.Opacity, r.choice([0, 0.5, 1]))
    if r.random() < 0.15:
      reg.set_style(SP.Visibility, r.choice([sp.VisibilityType.hidden, sp.VisibilityType.visible]))
    if self.scope["animation"] and r.random() < 0.2:
      prop, val = r.choice([(SP.BackgroundColor, sp.NamedColors.green.value), (SP.Opacity, 1.0), (SP.Visibility, sp.VisibilityType.visible),
                            (SP.ShowBackground, sp.ShowBackgroundType.always), (SP.Opacity, 0)])
      reg.add_animation_step(m.DiscreteAnimationStep(prop, r.choice([None, Fraction(1), Fraction(30)]), r.choice([None, Fraction(40)]), val))
    if r.random() < 0.5:
      reg.set_style(SP.Origin, sp.CoordinateType(x=sp.LengthType(10, sp.LengthType.Units.pct), y=sp.LengthType(r.choice([10, 70]), sp.LengthType.Units.pct)))
      reg.set_style(SP.Extent, sp.ExtentType(height=sp.LengthType(20, sp.LengthType.Units.pct), width=sp.LengthType(80, sp.LengthType.Units.pct)))
    if r.random() < 0.2:
      reg.set_style(SP.WritingMode, r.choice(list(sp.WritingModeType)))
    if r.random() < 0.3:
      reg.set_style(SP.DisplayAlign, r.choice(list(sp.DisplayAlignType)))
    doc.put_region(reg)
    return reg

  def document(self):
    r = self.r
    self.n = 0
    doc = m.ContentDocument()
    if r.random() < 0.5:
      doc.set_lang(r.choice(["en", "fr-CA", ""]))
    if r.random() < 0.3:
      doc.set_cell_resolution(m.CellResolutionType(rows=r.choice([15, 23, 1]), columns=r.choice([32, 40, 1])))
    if r.random() < 0.2:
      doc.set_px_resolution(m.PixelResolutionType(width=r.choice([1280, 640]), height=r.choice([720, 480])))
    if r.random() < 0.15:
      doc.set_active_area(m.ActiveAreaType(0.1, 0.1, 0.8, 0.8))
    if r.random() < 0.15:
      doc.set_display_aspect_ratio(Fraction(16, 9))
    if self.scope["display"] and r.random() < 0.1:
      doc.put_initial_value(SP.Display, sp.DisplayType.none)
    if r.random() < 0.15:
      doc.put_initial_value(SP.ShowBackground, sp.ShowBackgroundType.whenActive)
    if r.random() < 0.1:
      doc.put_initial_value(SP.Color, sp.NamedColors.yellow.value)
    if self.scope["bgfocus"] or r.random() < 0.08:
      if r.random() < 0.5:
        doc.put_initial_value(SP.BackgroundColor, r.choice([sp.NamedColors.red.value, sp.ColorType((0, 0, 255, 128))]))
      if r.random() < 0.2:
        doc.put_initial_value(SP.Opacity, r.choice([0, 1]))
      if r.random() < 0.2:
        doc.put_initial_value(SP.Visibility, sp.VisibilityType.hidden)
    lo, hi = self.scope["regions"]
    regions = [self.region(doc, f"r{i + 1}") for i in range(r.randint(lo, hi))]
    if r.random() < 0.95:
      body = m.Body(doc)
      body.set_id(self.nid())
      self.timing(body, 0.2)
      self.maybe_region(body, regions, 0.15)
      self.display(body)
      for _ in range(r.choice([1, 1, 2, 3])):
        body.push_child(self.div(doc, regions, 0))
      doc.set_body(body)
    return doc


def documents(r, count, scope=None):
  g = Gen(r, scope)
  for _ in range(count):
    yield g.document()


def all_elements(doc):
  out = list(doc.iter_regions())
  if doc.get_body() is not None:
    out += list(doc.get_body().dfs_iterator())
  return out


def describe(doc, limit=1500):
  """compact textual rendering of a document (for samples and failure messages)"""
  def attrs(e):
    a = []
    if e.get_id():
      a.append(f"#{e.get_id()}")
    if e.get_begin() is not None:
      a.append(f"b={e.get_begin()}")
    if e.get_end() is not None:
      a.append(f"e={e.get_end()}")
    if e.get_region() is not None:
      a.append(f"r={e.get_region().get_id()}")
    if not isinstance(e, (m.Br, m.Text)) and e.get_space() is m.WhiteSpaceHandling.PRESERVE:
      a.append("preserve")
    for p in e.iter_styles():
      v = e.get_style(p)
      a.append(f"{p.__name__}={getattr(v, 'name', v)}")
    for st in e.iter_animation_steps():
      a.append(f"set({st.style_property.__name__}={getattr(st.value, 'name', st.value)} {st.begin}..{st.end})")
    return " ".join(a)

  def rec(e):
    if isinstance(e, m.Text):
      return repr(e.get_text())
    kids = ",".join(rec(c) for c in e)
    return f"{type(e).__name__}[{attrs(e)}]" + (f"({kids})" if kids else "")

  parts = [f"Region[{attrs(r)}]" for r in doc.iter_regions()]
  iv = [f"initial({p.__name__}={getattr(v, 'name', v)})" for p, v in doc.iter_initial_values()]
  s = " ".join(parts + iv) + " " + (rec(doc.get_body()) if doc.get_body() is not None else "nobody")
  return s[:limit]
