"""C10 bounded tier: run-time contracts on the real `ttconv.srt.reader.to_model` (and its composition with
`ttconv.srt.writer.from_model` / `ttconv.imsc.writer.from_model`) against the independent SubRip oracle specs/srt.py.

Contracts (each evaluated once per cue unless stated):
  cues    one paragraph per cue, in file order (per file)
  times   begin/end of the paragraph == printed time as an exact rational (numbers.Rational; a float is a violation)
  lines   the text lines of the cue, in order, separated by Br elements
  styles  per character: bold / italic / underline / colour == those of the tags enclosing the character
  frames  reader -> IMSC writer in `frames` syntax: cue times that lie exactly on a frame boundary are written as that frame
  round trip   reader(writer(doc)) == cues(doc) for documents built with the model API; reader(text) == oracle(text) on the writer's text
  safety  (outside the quantifier of the property, kept separate) a cue without text / with a stray, unclosed or mis-nested tag
          neither raises an internal exception nor disturbs the other cues

Inputs: SRT texts generated from the cue grammar of the property (see `gen_file`), per-field exhaustive time grids, frame-boundary
times for 8 frame rates, generated model documents.  All randomness from rng(seed, salt)."""
import hashlib
import io
import logging
import numbers
import re
import sys
from fractions import Fraction

from rtc.common import Recorder, parse_args, rng, parallel
from specs import srt as S

QUICK = True
SEED = 0
WHITE = (255, 255, 255, 255)
# sizes: {quick?: n}
N_GRAMMAR_ITEMS = {True: 16, False: 64}
N_GRAMMAR_FILES = {True: 2500, False: 12000}          # per item
N_FRAME_TIMES = {True: 2000, False: 20000}              # per frame rate
N_RT_DOCS = {True: 250, False: 4000}                   # per item (16 items)
N_SAFETY = {True: 25, False: 400}                     # per kind per item (4 items)

C_CUES = "one paragraph per cue, in order"
C_TIMES = "begin/end == printed time, exact rational"
C_LINES = "lines in order separated by Br"
C_STYLES = "tags apply to exactly the enclosed characters"
C_FRAMES = "SRT -> IMSC frames syntax lands on the intended frame"
C_RT = "reader(writer(doc)) == cues(doc)"
C_RT_TEXT = "reader(writer text) == oracle(writer text)"
C_SAFETY = "safety: ill-formed cue neither crashes nor disturbs other cues"


# ---------------------------------------------------------------------------------------------------------------------
# observation of the real result


def open_stream(text, stream="universal"):
  """`universal`: the stream tt.py hands to the reader (open(path, "r", encoding="utf-8"): universal newlines);
  `string`: io.StringIO (used for LF-only texts)"""
  if stream == "string":
    return io.StringIO(text)
  return io.TextIOWrapper(io.BytesIO(text.encode("utf-8")), encoding="utf-8")


def read_real(text, stream="universal"):
  from ttconv.srt import reader
  return reader.to_model(open_stream(text, stream))


def paragraphs(doc):
  from ttconv import model
  out = []

  def walk(e):
    if isinstance(e, model.P):
      out.append(e)
      return
    if isinstance(e, (model.Body, model.Div)):
      for c in e:
        walk(c)
  if doc.get_body() is not None:
    walk(doc.get_body())
  return out


def observe_p(p):
  """-> list of lines, a line is a list of (character, Style) with the style specified on the nearest enclosing element up to the P"""
  from ttconv import model
  from ttconv import style_properties as sp
  lines = [[]]

  def walk(e, st):
    if isinstance(e, model.Text):
      for ch in e.get_text():
        lines[-1].append((ch, S.Style(*st)))
      return
    if isinstance(e, model.Br):
      lines.append([])
      return
    bold, italic, underline, col = st
    v = e.get_style(sp.StyleProperties.FontWeight)
    if v is not None:
      bold = v is sp.FontWeightType.bold
    v = e.get_style(sp.StyleProperties.FontStyle)
    if v is not None:
      italic = v is sp.FontStyleType.italic
    v = e.get_style(sp.StyleProperties.TextDecoration)
    if v is not None and v.underline is not None:
      underline = v.underline is True
    v = e.get_style(sp.StyleProperties.Color)
    if v is not None:
      col = tuple(v.components)
    for c in e:
      walk(c, (bold, italic, underline, col))
  walk(p, (False, False, False, None))
  return lines


def text_of(lines):
  return ["".join(ch for ch, _ in ln) for ln in lines]


def norm_style(st, underline=True):
  return (st.bold, st.italic, st.underline if underline else None, st.color or WHITE)


# ---------------------------------------------------------------------------------------------------------------------
# post-conditions


def check_time(value, expected, which):
  """-> list of (key, message)"""
  out = []
  if isinstance(value, bool) or not isinstance(value, numbers.Rational):
    if isinstance(value, float):
      out.append(("srt-time-is-float", f"{which} is the float {value!r}, required the exact rational {expected} (Fraction)"))
    else:
      out.append((f"srt-time-type:{type(value).__name__}", f"{which} is {value!r} of type {type(value).__name__}, required the rational {expected}"))
    try:
      close = abs(Fraction(value) - expected) <= Fraction(1, 1000000)
    except (TypeError, ValueError, OverflowError):
      close = False
    if not close:
      out.append(("srt-time-value", f"{which} is {value!r}, printed time is {expected} s ({float(expected)})"))
  elif Fraction(value) != expected:
    out.append(("srt-time-value", f"{which} is {value!r}, printed time is {expected} s"))
  return out


def compare_lines(obs_lines, want_lines, underline=True, prefix=""):
  """-> list of (contract, key, message)"""
  ot, wt = text_of(obs_lines), text_of(want_lines)
  if ot != wt:
    if len(ot) != len(wt) and "".join(ot) == "".join(wt):
      return [(C_LINES, prefix + "line-breaks", f"lines {ot!r}, required {wt!r}")]
    return [(C_LINES, prefix + "line-text", f"lines {ot!r}, required {wt!r}")]
  for li, (ol, wl) in enumerate(zip(obs_lines, want_lines)):
    for ci, ((ch, ost), (_, wst)) in enumerate(zip(ol, wl)):
      o, w = norm_style(ost, underline), norm_style(wst, underline)
      if o != w:
        attr = ["bold", "italic", "underline", "color"][[a != b for a, b in zip(o, w)].index(True)]
        return [(C_STYLES, prefix + "style-" + attr,
                 f"line {li + 1} char {ci + 1} {ch!r}: (bold, italic, underline, colour) = {o}, required {w}")]
  return []


def compare_cue(p, cue, cue_nobrace):
  """p: real model.P; -> list of (contract, key, message)"""
  out = []
  for key, msg in check_time(p.get_begin(), cue.begin, "begin") + check_time(p.get_end(), cue.end, "end"):
    out.append((C_TIMES, key, msg))
  obs = observe_p(p)
  want = cue
  if cue.has_brace_tags and text_of(obs) != cue.text() and cue_nobrace is not None and \
      re.search(r"\{/?[biu]\}", "".join(text_of(obs)), re.I):
    out.append((C_STYLES, "brace-tag-not-applied",
                f"brace tags are left in the text as characters: lines {text_of(obs)!r}, required {cue.text()!r} with the enclosed characters styled"))
    want = cue_nobrace            # everything else is still checked, reading the brace forms as text
  out += compare_lines(obs, want.lines)
  return out


def cue_fp(cue):
  return int.from_bytes(hashlib.md5(repr((cue.begin, cue.end, cue.raw_lines)).encode("utf-8")).digest()[:8], "big")


def mini_text(cue_index, text):
  """a one-cue file with the same timing line and text lines as cue `cue_index` of `text` (LF line ends)"""
  rows = S.split_lines(text)
  k = -1
  i = 0
  while i < len(rows):
    if S._TIMING.fullmatch(rows[i]):
      k += 1
      j = i + 1
      while j < len(rows) and rows[j].strip() != "":
        j += 1
      if k == cue_index:
        return "1\n" + "\n".join(rows[i:j]) + "\n"
      i = j
    else:
      i += 1
  return None


def check_text(rec, text, stream="universal", shrink=True, origin="grammar"):
  """all per-file and per-cue contracts of the reader on one SRT text of the grammar"""
  cues = S.parse(text)                      # SrtSyntaxError here is a bug of the generator: let it surface
  cues_nb = S.parse(text, brace_syntax=False)
  args = {"text": text, "stream": stream}
  rec.evaluated(C_CUES, hashlib.md5(text.encode("utf-8")).hexdigest()[:16], {"text": text[:300], "cues": len(cues)})
  try:
    doc = read_real(text, stream)
  except Exception as e:  # pylint: disable=broad-except
    rec.fail(f"reader-exception:{type(e).__name__}", C_CUES, f"to_model raised {e!r} on a text of the cue grammar", {"text": text},
             observed=repr(e), required=f"{len(cues)} paragraphs", replayer="replayers.c10:read", replay_args=args)
    return
  if doc is None:
    rec.fail("reader-returned-none", C_CUES, "to_model returned None (rejected) for a text of the cue grammar", {"text": text},
             observed=None, required=f"{len(cues)} paragraphs", replayer="replayers.c10:read", replay_args=args)
    return
  ps = paragraphs(doc)
  if len(ps) != len(cues):
    rec.fail("cue-count", C_CUES, f"{len(ps)} paragraphs for {len(cues)} cues", {"text": text}, observed=len(ps), required=len(cues),
             replayer="replayers.c10:read", replay_args=args)
    return
  for idx, (p, cue, cnb) in enumerate(zip(ps, cues, cues_nb)):
    fp = cue_fp(cue)
    sample = {"timing": [str(cue.begin), str(cue.end)], "lines": cue.raw_lines}
    rec.evaluated(C_TIMES, fp, sample)
    rec.evaluated(C_LINES, fp, sample)
    rec.evaluated(C_STYLES, fp, sample, nontrivial=any(st != S.PLAIN for ln in cue.lines for _, st in ln))
    for contract, key, msg in compare_cue(p, cue, cnb):
      if key in rec.failures:
        rec.failures[key]["count"] += 1
        continue
      wtext, widx = text, idx
      if shrink and len(cues) > 1:
        mt = mini_text(idx, text)
        if mt is not None:
          tmp = _rec()
          check_text(tmp, mt, "string", shrink=False)
          if key in tmp.failures:
            wtext, widx, msg = mt, 0, tmp.failures[key]["summary"].split(": ", 1)[1]
      rec.fail(key, contract, f"cue {widx + 1} ({origin}): {msg}", {"text": wtext, "cue": widx + 1}, observed=msg, required=None,
               replayer="replayers.c10:read", replay_args={"text": wtext, "stream": "string" if wtext is not text else stream})


# ---------------------------------------------------------------------------------------------------------------------
# generators


LETTERS = "abcdefghijklmnopqrstuvwxyzABCDEFGHIJKLMNOPQRSTUVWXYZ"
PUNCT = ".,!?'-:;\"()"
WIDE = "éßñçøЖλ日本語あ♪—…\U0001F600"
SPECIAL_WORDS = ["&", "<", ">", "<3", "&&", "1<2"]
# characters that Python calls white space or a line boundary (str.split, str.strip, str.splitlines, \s) but that are ordinary
# characters of a SubRip text line (only CR / LF end a line); inside a word, never at its edges
SPACE_LIKE_WORDS = ["a\u00a0b", "x\u3000y", "p\u2028q", "n\u0085m", "v\x0bw", "e\x1cf", "k\u2003l", "s\u2029t", "f\x0cg"]
COLOR_NAMES = sorted(S.NAMED)
H_EDGE = [0, 0, 0, 1, 9, 10, 11, 23, 24, 59, 60, 98, 99, 100, 101, 123, 255, 500, 998, 999]
MS_EDGE = [0, 1, 9, 10, 11, 99, 100, 101, 280, 290, 333, 500, 570, 999, 998, 40, 7, 70, 700]
MAX_MS = ((999 * 60 + 59) * 60 + 59) * 1000 + 999


def gen_word(r):
  k = r.random()
  n = r.choice([1, 1, 2, 3, 4, 5, 7])
  if k < 0.04:
    return r.choice(SPACE_LIKE_WORDS)
  if k < 0.70:
    return "".join(r.choice(LETTERS) for _ in range(n))
  if k < 0.80:
    return "".join(r.choice("0123456789") for _ in range(n))
  if k < 0.90:
    return "".join(r.choice(LETTERS + PUNCT) for _ in range(n))
  return "".join(r.choice(LETTERS + WIDE) for _ in range(n))


def gen_color(r):
  k = r.random()
  if k < 0.35:
    v = r.choice(COLOR_NAMES)
    j = r.random()
    return v if j < 0.8 else (v.upper() if j < 0.9 else v.capitalize())
  comps = [r.choice([0, 1, 15, 16, 127, 128, 254, 255, r.randrange(256)]) for _ in range(4)]
  fmt = "{:02x}" if r.random() < 0.6 else "{:02X}"
  if k < 0.85:
    return "#" + "".join(fmt.format(c) for c in comps[:3])
  return "#" + "".join(fmt.format(c) for c in comps)


def gen_tag(r, syntaxes):
  """-> (open text, close text)"""
  kind = r.choice(["b", "i", "u", "font", "b", "i", "u"])
  if kind == "font":
    c = gen_color(r)
    q = r.random()
    val = f'"{c}"' if q < 0.8 else c
    j = r.random()      # tag and attribute names are case-insensitive (html.parser lower-cases them)
    if j < 0.08:
      return f"<FONT COLOR={val}>", "</FONT>"
    if j < 0.14:
      return f"<Font Color={val}>", "</font>"
    if j < 0.24:      # a font tag WITHOUT a colour (face / size only): it encloses text like any tag and changes no colour
      return r.choice(['<font face="Arial">', "<font size=3>", '<font face="Arial" size="12">']), "</font>"
    if j < 0.30:      # colour together with other attributes, in either order
      return r.choice([f'<font face="Arial" color={val}>', f'<font color={val} size="12">']), "</font>"
    return f"<font color={val}>", "</font>"
  syn = r.choice(syntaxes)
  if syn == "brace":
    return "{" + kind + "}", "{/" + kind + "}"
  if r.random() < 0.12:
    return f"<{kind.upper()}>", f"</{kind.upper() if r.random() < 0.7 else kind}>"
  return f"<{kind}>", f"</{kind}>"


def gen_tree(r, lo, hi, depth, density):
  """well-nested tag intervals over token slots lo..hi"""
  if depth >= 4:
    return []
  k = r.choice(density)
  if k == 0:
    return []
  pts = sorted(r.randint(lo, hi) for _ in range(2 * k))
  out = []
  for j in range(k):
    a, b = pts[2 * j], pts[2 * j + 1]
    if a == b and r.random() < 0.8:       # empty tags only occasionally
      continue
    out.append((a, b, gen_tree(r, a, b, depth + 1, density)))
  return out


def gen_payload(r, nlines, syntaxes, density, special=False):
  """-> list of text lines of one cue"""
  nwords = nlines + r.choice([0, 0, 1, 1, 2, 3, 5])
  words = [gen_word(r) for _ in range(nwords)]
  seps = [" " if (special or r.random() < 0.85) else "" for _ in range(nwords - 1)]
  for j in r.sample(range(nwords - 1), nlines - 1):
    seps[j] = "\n"
  if special:
    for j in r.sample(range(nwords), min(nwords, r.choice([1, 1, 2]))):
      words[j] = r.choice(SPECIAL_WORDS)
  tokens = []
  for j, w in enumerate(words):
    tokens.append(w)
    if j < nwords - 1:
      tokens.append(seps[j])
  tree = [] if special else gen_tree(r, 0, len(tokens), 0, density)

  def ser(lo, hi, children):
    s = []
    cur = lo
    for a, b, sub in children:
      o, c = gen_tag(r, syntaxes)
      s += tokens[cur:a]
      s.append(o)
      s += ser(a, b, sub)
      s.append(c)
      cur = b
    s += tokens[cur:hi]
    return s
  return "".join(ser(0, len(tokens), tree)).split("\n")


def split_ms(t):
  ms = t % 1000
  s = t // 1000
  return s // 3600, (s // 60) % 60, s % 60, ms


def gen_label(r, t):
  h, m, s, ms = split_ms(t)
  digits = 3 if (h > 99 or r.random() < 0.15) else 2
  return S.time_label(h, m, s, ms, digits)


def gen_time(r):
  k = r.random()
  if k < 0.4:
    return ((r.choice(H_EDGE) * 60 + r.choice([0, 1, 9, 10, 30, 58, 59])) * 60 + r.choice([0, 1, 9, 10, 30, 58, 59])) * 1000 + r.choice(MS_EDGE)
  if k < 0.7:
    return r.randrange(0, 3 * 3600 * 1000)
  return r.randrange(0, MAX_MS)


def gen_counters(r, n):
  style = r.choice(["seq1", "seq1", "seq0", "random", "same", "padded", "huge", "space", "desc"])
  out = []
  for i in range(n):
    if style == "seq1":
      c = str(i + 1)
    elif style == "seq0":
      c = str(i)
    elif style == "random":
      c = str(r.randrange(0, 100000))
    elif style == "same":
      c = "1"
    elif style == "padded":
      c = f"{i + 1:04d}"
    elif style == "huge":
      c = str(10 ** 18 + i)
    elif style == "space":
      c = f"{i + 1} " if i % 2 else f" {i + 1}"
    else:
      c = str(n - i)
    out.append(c)
  return out


def assemble(r, cues, eol=None):
  """cues: list of (counter, timing line, text lines) -> SRT text"""
  eol = eol or r.choice(["\n", "\n", "\r\n"])
  rows = [""] * r.choice([0, 0, 0, 1, 2, 3])
  for j, (counter, timing, lines) in enumerate(cues):
    rows.append(counter)
    rows.append(timing)
    rows += lines
    if j < len(cues) - 1:
      rows += [""] * r.choice([1, 1, 1, 2, 3, 4])
  text = eol.join(rows)                    # no terminator after the last row yet
  if not cues:
    return eol * r.choice([0, 1, 3]), eol
  tail = r.choice(["none", "eol", "eol", "blank", "blanks"])
  text += {"none": "", "eol": eol, "blank": eol * 2, "blanks": eol * r.choice([3, 4])}[tail]
  return text, eol


def gen_file(r, ncues=None, profile=None):
  ncues = r.choice([0, 1, 1, 2, 3, 4, 6, 9]) if ncues is None else ncues
  profile = profile or r.choice(["plain", "angle", "angle", "brace", "mixed", "mixed", "special", "dense"])
  counters = gen_counters(r, ncues)
  t = gen_time(r)
  cues = []
  for j in range(ncues):
    dur = r.choice([1, 2, 40, 999, 1000, 1001, 2500, r.randrange(1, 10000), r.randrange(1, 4000000)])
    if t + dur > MAX_MS:
      t = r.randrange(0, 1000)
    b, e = t, t + dur
    t = e + r.choice([0, 0, 1, 80, r.randrange(0, 5000), r.randrange(0, 20000000)])
    if t >= MAX_MS:
      t = r.randrange(0, 1000)
    nlines = r.choice([1, 1, 2, 2, 3, 4, 5])
    if profile == "plain":
      lines = gen_payload(r, nlines, ["angle"], [0])
    elif profile == "special":
      lines = gen_payload(r, nlines, ["angle"], [0], special=r.random() < 0.7)
    elif profile == "angle":
      lines = gen_payload(r, nlines, ["angle"], [0, 1, 1, 2])
    elif profile == "brace":
      lines = gen_payload(r, nlines, ["brace"], [0, 1, 1, 2])
    elif profile == "dense":
      lines = gen_payload(r, nlines, ["angle"], [1, 2, 3])
    else:
      lines = gen_payload(r, nlines, ["angle", "angle", "brace"], [0, 1, 2, 2])
    cues.append((counters[j], gen_label(r, b) + " --> " + gen_label(r, e), lines))
  text, eol = assemble(r, cues)
  return text, eol


# ---------------------------------------------------------------------------------------------------------------------
# work items


class _Rec(Recorder):
  def fail(self, key, contract, summary, input_=None, observed=None, required=None, replayer=None, replay_args=None):
    if replay_args is not None:
      replay_args = dict(replay_args, key=key)
    super().fail(key, contract, summary, input_, observed, required, replayer, replay_args)


def _rec():
  return _Rec("C10", "", {})


def work_grammar(idx):
  logging.disable(logging.CRITICAL)
  rec = _rec()
  r = rng(SEED, f"c10/grammar/{idx}")
  n = N_GRAMMAR_FILES[QUICK]
  for _ in range(n):
    text, eol = gen_file(r)
    stream = "string" if (eol == "\n" and r.random() < 0.5) else "universal"
    check_text(rec, text, stream)
  return rec


def grid_times(idx, r):
  """per-field exhaustive grids: field `idx` takes every value, the other fields take edge/random values; as (begin, end) pairs in ms"""
  out = []
  edge_ms = lambda: ((min(r.choice(H_EDGE), 998) * 60 + r.randrange(60)) * 60 + r.randrange(60)) * 1000   # noqa: E731
  if idx == 0:          # every millisecond value, at 0 s and at an arbitrary second
    for ms in range(1000):
      out.append((ms, 1000 + ms))
      out.append((edge_ms() + ms, MAX_MS - 999 + ms))
  elif idx == 1:        # every hour value
    for h in range(1000):
      b = ((h * 60 + r.randrange(60)) * 60 + r.randrange(60)) * 1000 + r.choice(MS_EDGE)
      b = min(b, MAX_MS - 1)
      out.append((b, min(MAX_MS, b + r.choice([1, 1000, 3600000, 36000000]))))
  elif idx == 2:        # every minute x second value
    for m in range(60):
      for s in range(60):
        b = ((r.choice(H_EDGE) * 60 + m) * 60 + s) * 1000 + r.choice(MS_EDGE)
        b = min(b, MAX_MS - 1)
        out.append((b, min(MAX_MS, b + r.randrange(1, 100000))))
  else:                 # random points of the full range
    for _ in range(1500 if QUICK else 40000):
      b = r.randrange(0, MAX_MS)
      out.append((b, r.randrange(b + 1, MAX_MS + 1)))
  return out


def work_grid(idx):
  logging.disable(logging.CRITICAL)
  rec = _rec()
  r = rng(SEED, f"c10/grid/{idx}")
  pairs = grid_times(idx, r)
  for k in range(0, len(pairs), 250):
    part = pairs[k:k + 250]
    cues = []
    for j, (b, e) in enumerate(part):
      # hour field: two digits when possible; in the hour grid both spellings of h < 100
      lb = gen_label(r, b) if idx != 1 else S.time_label(*split_ms(b), 3 if (b >= 360000000 or j % 2) else 2)
      cues.append((str(j + 1), lb + " --> " + gen_label(r, e), ["x"]))
    text, _ = assemble(r, cues, eol="\n")
    check_text(rec, text, "string", origin="time grid")
  return rec


FPS = {"24": Fraction(24), "25": Fraction(25), "30": Fraction(30), "50": Fraction(50), "60": Fraction(60),
       "30000/1001": Fraction(30000, 1001), "24000/1001": Fraction(24000, 1001), "60000/1001": Fraction(60000, 1001)}


def frame_boundary_times(fps, r, n):
  """times (ms) that are an exact number of frames at `fps`"""
  step = None
  for ms in range(1, 100000):
    if (Fraction(ms, 1000) * fps).denominator == 1:
      step = ms
      break
  out = []
  per_s = max(1, 1000 // step)
  for k in range(per_s + 1):                 # every boundary of the first second(s)
    out.append(k * step)
  while len(out) < n:
    out.append(r.randrange(0, MAX_MS // step) * step if r.random() < 0.3 else r.randrange(0, 7200000 // step) * step)
  return sorted(set(out))


def frames_of(text, fps):
  """reader -> IMSC writer (frames) -> list of (begin, end) attribute strings of the p elements, and the paragraphs' times"""
  from ttconv.imsc import writer as imsc_writer
  from ttconv.imsc.config import IMSCWriterConfiguration
  from ttconv.imsc.attributes import TimeExpressionSyntaxEnum
  doc = read_real(text, "string")
  if doc is None:
    return None, None
  times = [(p.get_begin(), p.get_end()) for p in paragraphs(doc)]
  tree = imsc_writer.from_model(doc, IMSCWriterConfiguration(time_format=TimeExpressionSyntaxEnum.frames, fps=fps))
  root = tree.getroot() if hasattr(tree, "getroot") else tree
  attrs = [(e.get("begin"), e.get("end")) for e in root.iter("{http://www.w3.org/ns/ttml}p")]
  return attrs, times


def check_frames(rec, text, fps_name):
  fps = FPS[fps_name]
  cues = S.parse(text)
  args = {"text": text, "fps": fps_name}
  try:
    attrs, times = frames_of(text, fps)
  except Exception as e:  # pylint: disable=broad-except
    rec.evaluated(C_FRAMES, hashlib.md5(text.encode()).hexdigest()[:16])
    rec.fail(f"frames-exception:{type(e).__name__}", C_FRAMES, f"reader -> IMSC writer (frames, {fps_name} fps) raised {e!r}", {"text": text},
             replayer="replayers.c10:frames", replay_args=args)
    return
  if attrs is None or len(attrs) != len(cues):
    rec.evaluated(C_FRAMES, hashlib.md5(text.encode()).hexdigest()[:16])
    rec.fail("frames-cue-count", C_FRAMES, f"{None if attrs is None else len(attrs)} p elements written for {len(cues)} cues", {"text": text},
             replayer="replayers.c10:frames", replay_args=args)
    return
  for idx, (cue, (ab, ae), (tb, te)) in enumerate(zip(cues, attrs, times)):
    for which, attr, want_t, got_t in (("begin", ab, cue.begin, tb), ("end", ae, cue.end, te)):
      want = want_t * fps
      assert want.denominator == 1, "generator: not a frame boundary"
      rec.evaluated(C_FRAMES, (fps_name, str(want_t)), {"fps": fps_name, "time": str(want_t), "frame": int(want), "written": attr})
      if attr == f"{int(want)}f":
        continue
      float_only = isinstance(got_t, float) and abs(Fraction(got_t) - want_t) <= Fraction(1, 1000000)
      key = "srt-time-is-float:frames" if float_only else "frames-off-intended-frame"
      if key in rec.failures:
        rec.failures[key]["count"] += 1
        continue
      lb = S.time_label(*split_ms(int(cue.begin * 1000)), 2 if cue.begin < 360000 else 3)
      le = S.time_label(*split_ms(int(cue.end * 1000)), 2 if cue.end < 360000 else 3)
      mt = f"1\n{lb} --> {le}\nx\n"
      rec.fail(key, C_FRAMES, f"{which} {want_t} s of cue {idx + 1} at {fps_name} fps is frame {int(want)} exactly, written as {attr!r} "
               f"(paragraph {which} = {got_t!r})", {"text": mt, "fps": fps_name}, observed=attr, required=f"{int(want)}f",
               replayer="replayers.c10:frames", replay_args={"text": mt, "fps": fps_name})


def work_frames(fps_name):
  logging.disable(logging.CRITICAL)
  rec = _rec()
  r = rng(SEED, f"c10/frames/{fps_name}")
  ts = frame_boundary_times(FPS[fps_name], r, N_FRAME_TIMES[QUICK])
  for k in range(0, len(ts) - 1, 40):
    part = ts[k:k + 41]
    cues = [(str(j + 1), gen_label(r, b) + " --> " + gen_label(r, e), ["x"]) for j, (b, e) in enumerate(zip(part, part[1:]))]
    text, _ = assemble(r, cues, eol="\n")
    check_frames(rec, text, fps_name)
  return rec


# --- round trip -------------------------------------------------------------------------------------------------------


def gen_doc_spec(r):
  """a simple document as JSON-able data: list of cues {begin_ms, end_ms, items}; an item is "br" or
  {"text": str, "bold": bool, "italic": bool, "underline": bool, "color": [r,g,b,a] | None, "inner": item list (nested span)}"""
  ncues = r.choice([1, 1, 2, 3, 5])
  t = r.choice([0, 0, 280, 1000, r.randrange(0, 7200000), r.randrange(0, MAX_MS - 100000000)])
  cues = []

  def gen_span(depth):
    it = {"text": " ".join(gen_word_plain(r) for _ in range(r.choice([1, 1, 2, 3]))),
          "bold": r.random() < 0.3, "italic": r.random() < 0.3, "underline": r.random() < 0.2,
          "color": [r.choice([0, 255, 128, r.randrange(256)]) for _ in range(3)] + [r.choice([255, 255, 255, 128, 1])] if r.random() < 0.3 else None}
    if depth < 2 and r.random() < 0.25:
      it["inner"] = [gen_span(depth + 1)]
      if r.random() < 0.3:
        it["inner"] += ["br", gen_span(depth + 1)]
    return it
  for _ in range(ncues):
    dur = r.choice([1, 40, 1000, 2500, r.randrange(1, 10000)])
    b, e = t, t + dur
    t = e + r.choice([0, 0, 1, 500, r.randrange(0, 100000)])
    nlines = r.choice([1, 1, 2, 3, 5])
    items = []
    for ln in range(nlines):
      if ln:
        items.append("br")
      for _ in range(r.choice([1, 1, 2, 3])):
        items.append(gen_span(0))
    cues.append({"begin_ms": b, "end_ms": e, "items": items})
  return cues


def gen_word_plain(r):
  return "".join(r.choice(LETTERS + "0123456789" + (WIDE if r.random() < 0.1 else "")) for _ in range(r.choice([1, 2, 3, 5])))


def build_doc(spec):
  """build the document with the model API"""
  from ttconv import model
  from ttconv import style_properties as sp
  doc = model.ContentDocument()
  region = model.Region("r1", doc)
  doc.put_region(region)
  body = model.Body(doc)
  body.set_region(region)
  doc.set_body(body)
  div = model.Div(doc)
  body.push_child(div)

  def add(parent, it):
    if it == "br":
      parent.push_child(model.Br(doc))
      return
    span = model.Span(doc)
    if it["bold"]:
      span.set_style(sp.StyleProperties.FontWeight, sp.FontWeightType.bold)
    if it["italic"]:
      span.set_style(sp.StyleProperties.FontStyle, sp.FontStyleType.italic)
    if it["underline"]:
      span.set_style(sp.StyleProperties.TextDecoration, sp.TextDecorationType(underline=True))
    if it["color"] is not None:
      span.set_style(sp.StyleProperties.Color, sp.ColorType(tuple(it["color"])))
    span.push_child(model.Text(doc, it["text"]))
    for sub in it.get("inner", []):
      add(span, sub)
    parent.push_child(span)
  for c in spec:
    p = model.P(doc)
    p.set_begin(Fraction(c["begin_ms"], 1000))
    p.set_end(Fraction(c["end_ms"], 1000))
    for it in c["items"]:
      add(p, it)
    div.push_child(p)
  return doc


def spec_lines(items):
  lines = [[]]

  def add(it, st):
    if it == "br":
      lines.append([])
      return
    st = S.Style(st.bold or it["bold"], st.italic or it["italic"], st.underline or it["underline"],
                 tuple(it["color"]) if it["color"] is not None else st.color)
    for ch in it["text"]:
      lines[-1].append((ch, st))
    for sub in it.get("inner", []):
      add(sub, st)
  for it in items:
    add(it, S.PLAIN)
  return lines


def check_roundtrip(rec, spec):
  from ttconv.srt import writer
  args = {"spec": spec}
  fp = hashlib.md5(repr(spec).encode("utf-8")).hexdigest()[:16]
  rec.evaluated(C_RT, fp, {"doc": spec[:2]})
  try:
    text = writer.from_model(build_doc(spec))
  except Exception as e:  # pylint: disable=broad-except
    rec.fail(f"writer-exception:{type(e).__name__}", C_RT, f"srt.writer.from_model raised {e!r} on a simple document", {"spec": spec},
             replayer="replayers.c10:roundtrip", replay_args=args)
    return
  try:
    doc = read_real(text, "string")
  except Exception as e:  # pylint: disable=broad-except
    rec.fail(f"roundtrip-reader-exception:{type(e).__name__}", C_RT, f"to_model raised {e!r} on the SRT writer's output", {"spec": spec, "text": text},
             replayer="replayers.c10:roundtrip", replay_args=args)
    return
  ps = paragraphs(doc) if doc is not None else None
  if ps is None or len(ps) != len(spec):
    rec.fail("roundtrip-cue-count", C_RT, f"{None if ps is None else len(ps)} paragraphs read back for {len(spec)} cues written",
             {"spec": spec, "text": text}, replayer="replayers.c10:roundtrip", replay_args=args)
    return
  try:
    cues = S.parse(text)
  except S.SrtSyntaxError:
    cues = None                                     # the writer's text is the business of C06
  for idx, (p, c) in enumerate(zip(ps, spec)):
    found = [(C_RT, "roundtrip-" + k if not k.startswith("srt-time-is-float") else k, m)
             for k, m in check_time(p.get_begin(), Fraction(c["begin_ms"], 1000), "begin") + check_time(p.get_end(), Fraction(c["end_ms"], 1000), "end")]
    obs = observe_p(p)
    # underline is left out of the comparison with the document: what the writer does with underline belongs to C06
    found += [(C_RT, k, m) for _, k, m in compare_lines(obs, spec_lines(c["items"]), underline=False, prefix="roundtrip-")]
    if cues is not None and len(cues) == len(spec):
      rec.evaluated(C_RT_TEXT, cue_fp(cues[idx]))
      found += [(C_RT_TEXT, k, m) for _, k, m in compare_lines(obs, cues[idx].lines)]
    for contract, key, msg in found:
      rec.fail(key, contract, f"cue {idx + 1} of a written document: {msg}", {"spec": spec, "text": text}, observed=msg,
               replayer="replayers.c10:roundtrip", replay_args=args)


def work_roundtrip(idx):
  logging.disable(logging.CRITICAL)
  rec = _rec()
  r = rng(SEED, f"c10/roundtrip/{idx}")
  for _ in range(N_RT_DOCS[QUICK]):
    check_roundtrip(rec, gen_doc_spec(r))
  return rec


# --- safety (outside the quantifier) ---------------------------------------------------------------------------------

ILL = {
  "empty-cue": None,
  "stray-end-tag": ["a</b>b", "</i>x", "x</font>", "a</b></b>b", "<b>a</b></b>b", "a</u>", "a\n</b>b"],
  "unclosed-tag": ["<b>abc", "a<i>b", "<font color=\"red\">x", "<b><i>x</i>", "<u>a\nb"],
  "misnested-tag": ["<b>a<i>b</b>c</i>", "<i>a<font color=\"#ff0000\">b</i>c</font>"],
}


def check_safety(rec, kind, text):
  """`text` has exactly one ill-formed cue (of `kind`); all other cues are of the grammar"""
  cues = S.parse(text, allow_empty_cues=True)
  args = {"kind": kind, "text": text}
  rec.evaluated(C_SAFETY, (kind, hashlib.md5(text.encode("utf-8")).hexdigest()[:16]), {"kind": kind, "text": text[:200]})
  try:
    doc = read_real(text, "string")
  except ValueError:
    return                                  # a deliberate rejection is accepted
  except Exception as e:  # pylint: disable=broad-except
    rec.fail(f"{kind}-crash", C_SAFETY, f"to_model raised {type(e).__name__}: {e} on a file with one {kind} cue", {"text": text}, observed=repr(e),
             required="no internal exception (a result, None or ValueError)", replayer="replayers.c10:safety", replay_args=args)
    return
  if doc is None:
    return                                  # rejected with a log message: accepted
  ps = paragraphs(doc)
  good = [c for c in cues if c.well_formed]
  # accepted results: every cue a paragraph, or the ill-formed one dropped
  if len(ps) == len(cues):
    pairs = list(zip(ps, cues))
  elif len(ps) == len(good):
    pairs = list(zip(ps, good))
  else:
    rec.fail(f"{kind}-disturbs-other-cues", C_SAFETY, f"{len(ps)} paragraphs for {len(cues)} cues of which {len(good)} well-formed", {"text": text},
             replayer="replayers.c10:safety", replay_args=args)
    return
  for p, cue in pairs:
    obs = observe_p(p)
    if cue.well_formed:
      bad = [k for _, k, _ in compare_cue(p, cue, None)]
      if bad:
        # only what the neighbouring ill-formed cue causes: the same cue alone in a file must read correctly
        lb = [S.time_label(*split_ms(int(t * 1000)), 2 if t < 360000 else 3) for t in (cue.begin, cue.end)]
        alone = f"1\n{lb[0]} --> {lb[1]}\n" + "\n".join(cue.raw_lines) + "\n"
        try:
          ps1 = paragraphs(read_real(alone, "string"))
          bad_alone = [k for _, k, _ in compare_cue(ps1[0], cue, None)] if len(ps1) == 1 else bad
        except Exception:  # pylint: disable=broad-except
          bad_alone = bad                     # reported by the contracts on well-formed texts
        bad = [k for k in bad if k not in bad_alone]
      if bad:
        rec.fail(f"{kind}-disturbs-other-cues", C_SAFETY, f"a well-formed cue next to a {kind} cue is read wrongly ({bad[0]}): {text_of(obs)!r}, "
                 f"required {cue.text()!r}", {"text": text}, replayer="replayers.c10:safety", replay_args=args)
    elif "".join(text_of(obs)) != "".join(cue.text()):
      rec.fail(f"{kind}-text-lost", C_SAFETY, f"characters of the {kind} cue: {text_of(obs)!r}, required the characters of {cue.text()!r}", {"text": text},
               replayer="replayers.c10:safety", replay_args=args)


def work_safety(idx):
  logging.disable(logging.CRITICAL)
  rec = _rec()
  r = rng(SEED, f"c10/safety/{idx}")
  for kind in sorted(ILL):
    for _ in range(N_SAFETY[QUICK]):
      n = r.choice([1, 2, 3, 4])
      pos = r.choice([0, 0, n - 1, r.randrange(n)])
      cues = []
      for j in range(n):
        b = 1000 * (j + 1) + 280
        timing = S.time_label(*split_ms(b)) + " --> " + S.time_label(*split_ms(b + 700))
        if j == pos:
          lines = [] if kind == "empty-cue" else r.choice(ILL[kind]).split("\n")
        else:
          lines = gen_payload(r, r.choice([1, 2]), ["angle"], [0, 1])
        cues.append((str(j + 1), timing, lines))
      eol = "\n"
      rows = []
      for j, (c, t, ls) in enumerate(cues):
        rows += [c, t] + ls + [""]
      text = eol.join(rows) if r.random() < 0.7 else eol.join(rows[:-1])
      check_safety(rec, kind, text)
  return rec


# hand-written texts evaluated first (they also give the most readable first witness per failure key)
CANONICAL = [
  "1\n00:00:00,280 --> 00:00:02,000\nHello\n",
  "1\n00:00:01,000 --> 00:00:02,500\nfirst line\nsecond line\n\n2\n00:00:03,010 --> 00:00:04,570\nthird\n",
  "1\n00:00:01,000 --> 00:00:02,000\n<b>bold</b> plain <i>italic</i> <u>underline</u>\n",
  "1\n00:00:01,000 --> 00:00:02,000\n{b}bold{/b} plain\n",
  "1\n00:00:01,000 --> 00:00:02,000\n{i}italic{/i} plain {u}underline{/u}\n",
  "1\n00:00:01,000 --> 00:00:02,000\n<b>a<i>b<u>c</u>d</i>e</b>f\n",
  "1\n00:00:01,000 --> 00:00:02,000\n<font color=\"#ff0000\">red</font> <font color=\"yellow\">yellow</font><font color=#0000ff80>blue</font>\n",
  "1\n00:00:01,000 --> 00:00:02,000\n<font color=\"red\">r<font color=\"lime\">g</font>r</font>w\n",
  "1\n00:00:01,000 --> 00:00:02,000\n<b>spans\ntwo lines</b>\n",
  "1\n00:00:01,000 --> 00:00:02,000\n<i><font face=\"Arial\">Narrator:</font> it was a dark night</i> indeed\n",
  "1\n00:00:01,000 --> 00:00:02,000\n<font color=\"#ff0000\">red <font size=\"3\">still red</font> red again</font> white\n",
  "1\n00:00:01,000 --> 00:00:02,000\n<font color=\"red\">ALARM: <font color=\"white\">all clear</font> (for now)</font>\n",
  "1\n99:59:59,999 --> 100:00:00,000\nhundred hours\n\n2\n999:59:59,998 --> 999:59:59,999\nlast\n",
  "\n\n7\n012:00:00,001 --> 012:00:00,002\nx\n\n\n\n7\n12:00:01,000 --> 12:00:02,000\ny",
  "1\r\n00:00:01,000 --> 00:00:02,000\r\n<i>a\r\nb</i>\r\nc\r\n\r\n2\r\n00:00:02,000 --> 00:00:03,000\r\nd\r\n",
  "",
]


def work_canonical(_):
  logging.disable(logging.CRITICAL)
  rec = _rec()
  for text in CANONICAL:
    check_text(rec, text, "universal", origin="hand-written")
  for fps_name, text in (("25", "1\n00:00:00,280 --> 00:00:01,160\nx\n"), ("30", "1\n00:00:00,700 --> 00:00:02,300\nx\n"),
                         ("24", "1\n00:00:04,625 --> 01:00:00,875\nx\n"), ("30000/1001", "1\n00:00:01,001 --> 00:01:10,070\nx\n")):
    check_frames(rec, text, fps_name)
  for kind, text in (("empty-cue", "1\n00:00:01,000 --> 00:00:02,000\n\n2\n00:00:03,000 --> 00:00:04,000\nx\n"),
                     ("empty-cue", "1\n00:00:01,000 --> 00:00:02,000\nx\n\n2\n00:00:03,000 --> 00:00:04,000\n\n3\n00:00:05,000 --> 00:00:06,000\ny\n"),
                     ("empty-cue", "1\n00:00:01,000 --> 00:00:02,000"),
                     ("stray-end-tag", "1\n00:00:01,000 --> 00:00:02,000\na</b>b\n"),
                     ("unclosed-tag", "1\n00:00:01,000 --> 00:00:02,000\n<i>a\n\n2\n00:00:03,000 --> 00:00:04,000\nb\n"),
                     ("misnested-tag", "1\n00:00:01,000 --> 00:00:02,000\n<b>a<i>b</b>c</i>\n")):
    check_safety(rec, kind, text)
  return rec


WORK = {"canonical": work_canonical, "grammar": work_grammar, "grid": work_grid, "frames": work_frames, "roundtrip": work_roundtrip, "safety": work_safety}


def run_item(item):
  return WORK[item[0]](item[1])


def main():
  global QUICK, SEED
  args = parse_args()
  QUICK = args.tier == "quick"
  SEED = args.seed
  logging.disable(logging.CRITICAL)
  n_grammar = N_GRAMMAR_ITEMS[QUICK]
  rec = Recorder(
    "C10", "a case is a distinct (contract, cue) pair: cue = timing line + text lines; for the styles contract only cues with at least one "
    "styled character count; frames: distinct (rate, time); round trip / safety: distinct document / file",
    {"grammar_files": n_grammar * N_GRAMMAR_FILES[QUICK], "cues_per_file": "0..9", "text_lines": "1..5", "tag_nesting_depth": "<= 4",
     "time_grid": "every ms value 000..999, every hour 00..999 (two- and three-digit spellings), every mm:ss, random points of the full range",
     "frame_rates": sorted(FPS), "frame_boundary_times_per_rate": N_FRAME_TIMES[QUICK],
     "roundtrip_documents": 16 * N_RT_DOCS[QUICK], "safety_files": 4 * 4 * N_SAFETY[QUICK], "canonical_texts": len(CANONICAL)})
  items = [("canonical", 0)] + [("grammar", i) for i in range(n_grammar)] + [("grid", i) for i in range(4)] + \
          [("frames", f) for f in sorted(FPS)] + [("roundtrip", i) for i in range(16)] + [("safety", i) for i in range(4)]
  for part in parallel(run_item, items):
    rec.merge(part)
  return rec.dump(args.out)


if __name__ == "__main__":
  sys.exit(main())
