"""Bounded run-time contracts (Tier B): pre/post-conditions on the real public functions, evaluated natively over a
bounded-exhaustive or generated input set with a stated bound.  Never counted as proved."""
import argparse
import json
import random
import sys
import time
import traceback


class Recorder:
  def __init__(self, prop, rule, scope):
    self.prop = prop
    self.rule = rule
    self.scope = scope
    self.evaluations = 0
    self.fingerprints = set()
    self.samples = []
    self.failures = {}
    self.errors = []
    self.per_contract = {}
    self.exhaustive = False
    self.t0 = time.time()

  def evaluated(self, contract, fingerprint=None, sample=None, nontrivial=True):
    """one evaluation of a run-time contract"""
    self.evaluations += 1
    self.per_contract[contract] = self.per_contract.get(contract, 0) + 1
    if nontrivial and fingerprint is not None:
      self.fingerprints.add((contract, fingerprint))
    if sample is not None and len(self.samples) < 40 and self.per_contract[contract] <= 3:
      self.samples.append({"contract": contract, "case": sample})

  def fail(self, key, contract, summary, input_=None, observed=None, required=None, replayer=None, replay_args=None):
    """a failing evaluation; `key` identifies the witness class (stable across runs) -- first witness per key is kept"""
    if key not in self.failures:
      self.failures[key] = {"key": key, "contract": contract, "summary": summary, "input": input_, "observed": observed,
                            "required": required, "replayer": replayer, "replay_args": replay_args, "count": 0}
    self.failures[key]["count"] += 1

  def guard(self, contract, fn, *a, **k):
    """run a harness step; an exception of the harness itself is a checker error, not a verdict"""
    try:
      return fn(*a, **k)
    except Exception:  # pylint: disable=broad-except
      self.errors.append(f"{contract}: harness exception: {traceback.format_exc(limit=6)}")
      return None

  def merge(self, other):
    self.evaluations += other.evaluations
    self.fingerprints |= other.fingerprints
    for k, v in other.per_contract.items():
      self.per_contract[k] = self.per_contract.get(k, 0) + v
    for smp in other.samples:
      if len(self.samples) < 40:
        self.samples.append(smp)
    for k, v in other.failures.items():
      if k in self.failures:
        self.failures[k]["count"] += v["count"]
      else:
        self.failures[k] = v
    self.errors += other.errors

  def dump(self, path):
    data = {
      "evaluations": self.evaluations, "distinct_nontrivial": len(self.fingerprints), "rule": self.rule,
      "bounded_scope": self.scope, "exhaustive": self.exhaustive, "samples": self.samples,
      "per_contract": self.per_contract, "failures": list(self.failures.values()), "errors": self.errors,
      "wall_s": round(time.time() - self.t0, 2),
    }
    with open(path, "w", encoding="utf-8") as f:
      json.dump(data, f, indent=1, default=str)
    return 1 if self.failures else 0


def parse_args():
  ap = argparse.ArgumentParser()
  ap.add_argument("--tier", default="quick")
  ap.add_argument("--seed", type=int, default=0)
  ap.add_argument("--out", required=True)
  return ap.parse_args()


def rng(seed, salt=""):
  return random.Random(f"{seed}/{salt}")


def parallel(fn, items, jobs=16):
  """run fn(item) -> Recorder in worker processes and merge"""
  import multiprocessing as mp
  with mp.get_context("fork").Pool(min(jobs, max(1, len(items)))) as pool:
    return pool.map(fn, items)
