"""C09 bounded tier: byte-level EBU STL files x reader configurations through the real `ttconv.stl.reader.to_model`,
compared with the independent Tech 3264 oracle specs/stl.py.

What is observed: the model returned by to_model (body/div/p/span/br/text, begin/end, styles, region), flattened by a
representation-independent walker (absolute intervals by the TTML par rule, inherited colour/italic/underline, nearest
inline background), i.e. "which character, with which attributes, is visible from when to when, in which paragraph".

Contracts (one evaluation per file and contract, per paragraph for the paragraph-level ones):
  no-exception        to_model returns (ValueError accepted where the configuration points at an unusable TCP/MNR field)
  subtitle-set        exactly the subtitles that are not dropped/skipped come out
  timing              every character is visible exactly from TCI to TCO at the GSI frame rate minus the programme start
  text-characters     the characters are the text field decoded with the declared CCT up to the first unused-space byte
  line-breaks         lines break at newline codes (empty lines / runs of newlines: not demanded)
  word-spaces         characters separated by a space code stay separated, adjacent characters stay adjacent
  styles              foreground / background / italic / underline of every character
  text-align          JC -> text alignment
  region              VP -> top- or bottom-anchored region inside the safe area (preconditions see contracts/c09.py)
  iso6937-pairs / code-table   every diacritic+letter composition and every assigned single byte of the five tables
  sn-magnitude-invariance      the result does not depend on whether subtitle numbers are below or above 256
  line-count          tf.line_count (stubbed by a symbolic n >= 1 in the proof tier) is >= 1 and within the oracle's row range

Failure keys name the witness class.  A failing file is first compared with the oracle's result for TRANSFORMED inputs
(comment flags cleared, leading 0x8F removed, orphaned cumulative sets removed, programme start 23 s): if a transformation
explains every structural difference, the failure gets the key of that recognised misreading (one key per root cause);
otherwise the key is the contract-specific one (text-mismatch@cct=.., time-mismatch@DFC, style-fg, region-top-anchor, ...).
The first witness of every key is shrunk (whole subtitles, configuration entries, single text-field bytes).
"""
import io
import itertools
import logging
import sys
import traceback
import zlib
from fractions import Fraction

from rtc.common import Recorder, parse_args, rng, parallel
from specs import stl as S
from specs import smpte

logging.disable(logging.CRITICAL)

REPLAYER = "replayers.c09:file"
QUICK = True
SEED = 0

# ---------------------------------------------------------------------------------------------------------------------
# builders


def gsi_block(dfc=b"STL25.01", dsc=b"1", cct=b"00", lc=b"09", tcp=b"00000000", mnr=b"23", mnc=b"40", tnb=0, tns=0):
  g = bytearray(b" " * S.GSI_SIZE)
  g[0:3] = b"850"
  g[3:11] = dfc
  g[11:12] = dsc
  g[12:14] = cct
  g[14:16] = lc
  g[16:48] = b"C09 generated programme".ljust(32)
  g[224:230] = b"260101"
  g[230:236] = b"260101"
  g[236:238] = b"00"
  g[238:243] = b"%05d" % tnb
  g[243:248] = b"%05d" % tns
  g[248:251] = b"001"
  g[251:253] = mnc
  g[253:255] = mnr
  g[255:256] = b"1"
  g[256:264] = tcp
  g[264:272] = b"00000000"
  g[272:273] = b"1"
  g[273:274] = b"1"
  g[274:277] = b"GBR"
  assert len(g) == S.GSI_SIZE
  return bytes(g)


def tti_block(sn=0, ebn=0xFF, cs=0, tci=(0, 0, 0, 0), tco=(0, 0, 1, 0), vp=20, jc=2, cf=0, tf=b"", sgn=0, pad=True):
  assert len(tf) <= S.TF_SIZE
  t = tf + bytes([S.FILLER]) * (S.TF_SIZE - len(tf))
  b = bytes([sgn, sn & 0xFF, (sn >> 8) & 0xFF, ebn, cs, *tci, *tco, vp, jc, cf]) + t
  assert len(b) == S.TTI_SIZE
  return b


def stl_file(blocks, **gsi):
  n_sub = len({(b[1], b[2]) for b in blocks})
  return gsi_block(tnb=len(blocks), tns=n_sub, **gsi) + b"".join(blocks)


# ---------------------------------------------------------------------------------------------------------------------
# observation


class OCell:
  __slots__ = ("ch", "space", "fg", "bg", "italic", "underline", "begin", "end")

  def __init__(self, ch, space, fg, bg, italic, underline, begin, end):
    self.ch, self.space, self.fg, self.bg, self.italic, self.underline, self.begin, self.end = \
        ch, space, fg, bg, italic, underline, begin, end

  def key(self):
    return (self.ch, self.space, self.fg, self.bg, self.italic, self.underline, self.begin, self.end)


def _length_pct(v, St):
  if v is None or v.units is not St.LengthType.Units.pct:
    return None
  return v.value


def observe(doc):
  """-> list of paragraphs {"align", "region": (x, y, w, h, displayAlign) | None, "lines": [[OCell]]} in document order;
  paragraphs without a visible character are omitted"""
  import ttconv.model as M
  import ttconv.style_properties as St
  P = St.StyleProperties
  paras = []
  body = doc.get_body()
  if body is None:
    return paras

  def interval(e, pb, pe):
    b, en = e.get_begin(), e.get_end()
    begin = pb + (b if b is not None else 0)
    end = pb + en if en is not None else pe
    if pe is not None and end is not None:
      end = min(end, pe)
    return begin, end

  def styled(e, ctx):
    ctx = dict(ctx)
    c = e.get_style(P.Color)
    if c is not None:
      ctx["fg"] = tuple(c.components)
    bg = e.get_style(P.BackgroundColor)
    if bg is not None and isinstance(e, M.Span):
      ctx["bgs"] = ctx["bgs"] + [tuple(bg.components)]
    fs = e.get_style(P.FontStyle)
    if fs is not None:
      ctx["it"] = fs is not St.FontStyleType.normal
    td = e.get_style(P.TextDecoration)
    if td is not None and td.underline is not None:
      ctx["ul"] = bool(td.underline)
    ta = e.get_style(P.TextAlign)
    if ta is not None:
      ctx["align"] = ta.name
    if e.get_region() is not None:
      ctx["region"] = e.get_region()
    return ctx

  def inline(e, pb, pe, ctx, out):
    if isinstance(e, M.Text):
      bg = next((b for b in reversed(ctx["bgs"]) if b[3] != 0), None)
      for ch in e.get_text():
        out.append(("c", ch, ctx["fg"], bg if bg is not None else S.TRANSPARENT, ctx["it"], ctx["ul"], pb, pe))
      return
    begin, end = interval(e, pb, pe)
    if isinstance(e, M.Br):
      out.append(("br", begin, end))
      return
    c2 = styled(e, ctx)
    for ch in e:
      inline(ch, begin, end, c2, out)

  def block(e, pb, pe, ctx):
    begin, end = interval(e, pb, pe)
    c2 = styled(e, ctx)
    if isinstance(e, M.P):
      toks = []
      for ch in e:
        inline(ch, begin, end, c2, toks)
      lines = [[]]
      space = False
      for t in toks:
        if t[0] == "br":
          lines.append([])
          space = False
          continue
        _, ch, fg, bg, it, ul, b, en = t
        if en is not None and en <= b:
          continue
        if ch == " ":
          space = True
          continue
        lines[-1].append(OCell(ch, space, fg, bg, it, ul, b, en))
        space = False
      lines = [ln for ln in lines if ln]
      if lines:
        reg = c2.get("region")
        r = None
        if reg is not None:
          o, x = reg.get_style(P.Origin), reg.get_style(P.Extent)
          da = reg.get_style(P.DisplayAlign)
          if o is not None and x is not None:
            r = (_length_pct(o.x, St), _length_pct(o.y, St), _length_pct(x.width, St), _length_pct(x.height, St),
                 da.name if da is not None else "before")
        paras.append({"align": c2.get("align", "start"), "region": r, "lines": lines})
      return
    for ch in e:
      block(ch, begin, end, c2)

  block(body, Fraction(0), None, {"fg": S.WHITE, "bgs": [], "it": False, "ul": False})
  return paras


def canonical(paras):
  return [(p["align"], p["region"], [[c.key() for c in ln] for ln in p["lines"]]) for p in paras]


# ---------------------------------------------------------------------------------------------------------------------
# comparison


class ECell:
  __slots__ = ("cell", "begin", "end", "first")

  def __init__(self, cell, begin, end, first):
    self.cell, self.begin, self.end, self.first = cell, begin, end, first


def expected_paragraphs(spec):
  """spec paragraphs -> [{"lines": [[ECell]], "para": spec paragraph, "first": first shown member}] without the dropped /
  zero-duration / empty ones"""
  out = []
  for para in spec["paragraphs"]:
    lines = []
    first = None
    for m in para["members"]:
      if m.get("dropped") or m["begin"] is None or m["end"] is None or m["end"] <= m["begin"]:
        continue
      got = False
      for ln in m["lines"]:
        if ln:
          lines.append([ECell(c, m["begin"], m["end"], i == 0) for i, c in enumerate(ln)])
          got = True
      if got and first is None:
        first = m
    if lines:
      out.append({"lines": lines, "para": para, "first": first})
  return out


def _fmt_text(lines, observed):
  if observed:
    return "|".join("".join((" " if c.space and i else "") + c.ch for i, c in enumerate(ln)) for ln in lines)
  return "|".join("".join((" " if c.cell.sep in ("S", "S+") and i else "") + (c.cell.alts[0] if c.cell.alts else "?")
                          for i, c in enumerate(ln)) for ln in lines)


def _bg_eq(want, got):
  if want is None:
    return True
  if want == S.TRANSPARENT or got == S.TRANSPARENT:
    return want == got
  return tuple(want) == tuple(got)


def compare_paragraph(E, O, spec):
  """-> {contract: None (holds) | (default key, message)}; contracts that cannot be evaluated are absent"""
  res = {}
  ecells = [c for ln in E["lines"] for c in ln]
  ocells = [c for ln in O["lines"] for c in ln]
  etxt, otxt = _fmt_text(E["lines"], False), _fmt_text(O["lines"], True)
  same_chars = len(ecells) == len(ocells) and all(e.cell.alts is None or o.ch in e.cell.alts for e, o in zip(ecells, ocells))
  res["text-characters"] = None if same_chars else ("text-mismatch", f"text {otxt!r}, required {etxt!r}")
  if same_chars:
    el, ol = [len(ln) for ln in E["lines"]], [len(ln) for ln in O["lines"]]
    res["line-breaks"] = None if el == ol else ("line-break-mismatch", f"lines {otxt!r}, required {etxt!r}")
    if el == ol:
      bad = None
      for ln_e, ln_o in zip(E["lines"], O["lines"]):
        for i, (e, o) in enumerate(zip(ln_e, ln_o)):
          if i == 0:
            continue
          if e.cell.sep == "S" and not o.space:
            bad = ("word-space-dropped:single-space", f"text {otxt!r}: no space before {o.ch!r} although one space code separates "
                                                       f"it from the previous character; required {etxt!r}")
          elif e.cell.sep == "S+" and not o.space:
            bad = ("word-space-dropped:space-next-to-space-or-control-code",
                   f"text {otxt!r}: no space before {o.ch!r} although space codes (several, or next to a control code) separate it "
                   f"from the previous character; required {etxt!r}")
          elif e.cell.sep == "N" and o.space:
            bad = ("space-inserted", f"text {otxt!r}: space before {o.ch!r} although the characters are adjacent in the text field")
          if bad:
            break
        if bad:
          break
      res["word-spaces"] = bad
    bad = None
    for e, o in zip(ecells, ocells):
      c = e.cell
      if tuple(c.fg) != tuple(o.fg):
        bad = ("style-fg", f"{o.ch!r} has foreground {o.fg}, required {c.fg}")
      elif not _bg_eq(c.bg, o.bg):
        bad = ("style-bg", f"{o.ch!r} has background {o.bg}, required {c.bg}")
      elif bool(c.italic) != bool(o.italic):
        bad = ("style-italic", f"{o.ch!r} italic={o.italic}, required {c.italic}")
      elif bool(c.underline) != bool(o.underline):
        bad = ("style-underline", f"{o.ch!r} underline={o.underline}, required {c.underline}")
      if bad:
        bad = (bad[0], bad[1] + f" in {otxt!r}")
        break
    res["styles"] = bad
    bad = None
    for e, o in zip(ecells, ocells):
      if o.begin != e.begin or o.end != e.end:
        bad = ("time-mismatch", f"{o.ch!r} of {otxt!r} visible [{o.begin}, {o.end}), required [{e.begin}, {e.end})")
        break
    res["timing"] = bad
  else:
    ei = sorted({(c.begin, c.end) for c in ecells})
    oi = sorted({(c.begin, c.end) for c in ocells}, key=lambda t: (t[0], t[1] if t[1] is not None else 10 ** 9))
    res["timing"] = None if ei == oi else ("time-mismatch", f"{otxt!r} visible {oi}, required {ei}")
  para = E["para"]
  res["text-align"] = None if O["align"] in para["align"] else \
      (f"text-align@jc={E['first']['jc']}", f"{otxt!r}: JC {E['first']['jc']} gave textAlign {O['align']}, required one of {para['align']}")
  # region
  first = E["first"]
  rows = spec["rows"]
  if rows != "invalid" and first is E["para"]["members"][0] and first["vp"] >= 1:
    shown = [m for m in para["members"] if not m.get("dropped")]
    lo, hi = first["rows"]
    if all(first["vp"] + hi - 1 <= r for r in rows):
      if O["region"] is None or any(v is None for v in O["region"][:4]):
        res["region"] = ("region-missing", f"{otxt!r}: no region with percentage origin/extent")
      else:
        x, y, w, h, da = O["region"]
        # a cumulative set may be anchored by its first member (rows lo..hi) or by all the rows shown so far
        hi2 = hi
        if len(shown) > 1:
          hi2 = max(hi, shown[-1]["vp"] + shown[-1]["rows"][1] - first["vp"])
        bad = S.region_violations(x, y, w, h, da, first["vp"], (lo, max(hi, hi2)), rows)
        res["region"] = None if not bad else (f"region-{bad[0][0]}", f"{otxt!r} VP {first['vp']} rows {lo}..{hi} of {rows}: " + "; ".join(b[1] for b in bad))
  return res


WEIGHT = {"subtitle-set": 1000, "text-characters": 30, "line-breaks": 5}


def _score(r):
  return sum(WEIGHT.get(k, 1) for k, v in r.items() if v is not None)


def evaluate_reading(spec, observed):
  """-> (results: {contract: [None | (key, message)]}, weighted number of failures)"""
  results = {}
  E = expected_paragraphs(spec)
  O = list(observed)
  if len(E) != len(O):
    kind = "subtitle-missing" if len(O) < len(E) else "subtitle-extra"
    results["subtitle-set"] = [(kind, f"{len(O)} paragraphs with visible text {[_fmt_text(o['lines'], True) for o in O][:6]}, "
                                      f"required {len(E)} {[_fmt_text(e['lines'], False) for e in E][:6]}")]
    return results, WEIGHT["subtitle-set"] + 30 * abs(len(E) - len(O))
  results["subtitle-set"] = [None]
  # pairing is order-independent: perfect matches in file order first, then repeatedly the (expected, observed) pair with the
  # fewest failing contracts
  pairs = []
  left_e, left_o = list(range(len(E))), list(range(len(O)))
  for i in list(left_e):
    if i in left_o:
      r = compare_paragraph(E[i], O[i], spec)
      if _score(r) == 0:
        pairs.append(r)
        left_e.remove(i)
        left_o.remove(i)
  if left_e:
    cmp = {(i, j): compare_paragraph(E[i], O[j], spec) for i in left_e for j in left_o}
    for i in list(left_e):
      j = next((j for j in left_o if _score(cmp[(i, j)]) == 0), None)
      if j is not None:
        pairs.append(cmp[(i, j)])
        left_e.remove(i)
        left_o.remove(j)
    while left_e:
      i, j = min(((i, j) for i in left_e for j in left_o), key=lambda ij: (_score(cmp[ij]), abs(ij[0] - ij[1]), ij))
      pairs.append(cmp[(i, j)])
      left_e.remove(i)
      left_o.remove(j)
  n = 0
  for r in pairs:
    n += _score(r)
    for k, v in r.items():
      results.setdefault(k, []).append(v)
  return results, n


def readings_for(data):
  gsi = S.parse_gsi(data[:S.GSI_SIZE])
  body = data[S.GSI_SIZE:]
  ebns = [body[i + 3] for i in range(0, len(body), S.TTI_SIZE)]
  rate = (0, 1) if gsi["DFC"] == b"STL30.01" else (0,)
  ext = ("per-block", "concat") if any(e < 0xF0 for e in ebns) else ("per-block",)
  opn = (False, True) if not S.is_teletext(gsi["DSC"]) else (False,)
  return [dict(rate30=r, ext=e, open_reset=o) for r in rate for e in ext for o in opn]


def evaluate(data, cfg, observed):
  """best reading -> (results, n_failures, spec)"""
  best = None
  for rd in readings_for(data):
    spec = S.spec_stl(data, cfg, rd)
    if spec["start"] is None:
      spec = S.spec_stl(data, dict(cfg or {}, program_start_tc=None), rd)    # unusable TCP: no offset
      spec["start_invalid"] = True
    res, n = evaluate_reading(spec, observed)
    if best is None or n < best[1]:
      best = (res, n, spec)
    if n == 0:
      break
  return best


# recognised misreadings: the observation is compared with the oracle's result for a TRANSFORMED file; if that explains
# the observation the transformation names the defect (so that one root cause has one key)


def _map_blocks(data, fn):
  out = bytearray(data[:S.GSI_SIZE])
  for i in range(S.GSI_SIZE, len(data), S.TTI_SIZE):
    out += fn(bytes(data[i:i + S.TTI_SIZE]))
  return bytes(out)


def _h_comment(b):
  return b[:15] + b"\x00" + b[16:]


def _h_lstrip(b):
  tf = b[16:].lstrip(bytes([S.FILLER]))
  return b[:16] + tf + bytes([S.FILLER]) * (S.TF_SIZE - len(tf))


HYPOTHESES = [
  ("comment-block-shown", lambda d: _map_blocks(d, _h_comment)),
  ("text-after-leading-filler-shown", lambda d: _map_blocks(d, _h_lstrip)),
]


def run_reader(data, cfg):
  """-> ("ok", observed paragraphs) | ("raise", exception, key, text)"""
  from ttconv.stl.reader import to_model
  from ttconv.stl.config import STLReaderConfiguration
  try:
    config = STLReaderConfiguration.parse(dict(cfg)) if cfg is not None else None
    doc = to_model(io.BytesIO(data), config)
  except Exception as e:  # pylint: disable=broad-except
    tb = traceback.extract_tb(e.__traceback__)
    fr = next((f for f in reversed(tb) if "ttconv" in f.filename), tb[-1])
    msg = "".join(ch if ch.isalnum() else "-" for ch in str(e))[:48].strip("-")
    return ("raise", e, f"exception-{type(e).__name__}@{fr.name}:{msg}",
            f"{type(e).__name__}: {e} at {fr.filename.split('/')[-1]}:{fr.lineno} ({fr.name})")
  return ("ok", observe(doc))


HYP_TEXT = {
  "comment-block-shown": ("subtitle-set", "a comment block (CF = 1) is presented as a subtitle"),
  "text-after-leading-filler-shown": ("text-characters", "text after a leading unused-space byte (0x8F) of a text field is presented "
                                      "(the text ends at the first unused-space byte)"),
}


ORPHAN_KEY = "cumulative-set-after-dropped-first-member"
ORPHAN_TEXT = ("the first subtitle of a cumulative set starts before the programme start (dropped) and a later one does not: "
               "the later one is attached to whatever paragraph came before, or the reader crashes")


def _orphan(spec):
  for p in spec["paragraphs"]:
    ms = p["members"]
    if len(ms) > 1 and ms[0].get("dropped") and any(not m.get("dropped") for m in ms[1:]):
      return True
  return False


STRUCTURAL = ("subtitle-set", "text-characters", "timing", "line-breaks")


def _structural_failures(res):
  return sum(1 for c in STRUCTURAL for v in res.get(c, []) if v is not None)


def _without_orphan_sets(data, spec):
  sns = set()
  for p in spec["paragraphs"]:
    ms = p["members"]
    if len(ms) > 1 and ms[0].get("dropped") and any(not m.get("dropped") for m in ms[1:]):
      sns |= {m["sn"] for m in ms}
  out = bytearray(data[:S.GSI_SIZE])
  for i in range(S.GSI_SIZE, len(data), S.TTI_SIZE):
    if (data[i + 1] | (data[i + 2] << 8)) not in sns:
      out += data[i:i + S.TTI_SIZE]
  return bytes(out)


def _mnr_shift_explains(spec, observed):
  """the MNR error path of the reader sets the programme start to 23 (seconds) instead of the row count to 23"""
  import copy
  sp = copy.copy(spec)
  sp["paragraphs"] = []
  for p in spec["paragraphs"]:
    q = dict(p)
    q["members"] = []
    for m in p["members"]:
      m2 = dict(m)
      if m2["begin"] is not None and m2["end"] is not None:
        m2["begin"], m2["end"] = m2["begin"] - 23, m2["end"] - 23
        m2["dropped"] = m2.get("dropped") or m2["begin"] < 0
      q["members"].append(m2)
    sp["paragraphs"].append(q)
  return _structural_failures(evaluate_reading(sp, observed)[0]) == 0


def check_file(data, cfg, _reduced=False):
  """all contracts on one file -> (evaluated: [contract], failures: [(contract, key, message)])"""
  evaluated, failures = [], []
  out = run_reader(data, cfg)
  spec0 = S.spec_stl(data, cfg, readings_for(data)[0])
  may_refuse = spec0["start"] is None or spec0["rows"] == "invalid"
  evaluated.append("no-exception")
  gsi = S.parse_gsi(data[:S.GSI_SIZE])
  if out[0] == "raise":
    if may_refuse and isinstance(out[1], ValueError):
      return evaluated, failures
    if _orphan(spec0) and isinstance(out[1], AttributeError) and "NoneType" in str(out[1]):
      failures.append(("subtitle-set", ORPHAN_KEY, ORPHAN_TEXT + ": " + out[3]))
    elif spec0["start"] is None:
      failures.append(("no-exception", "invalid-tcp-error-path", "program_start_tc=TCP with a TCP field that is not a time code "
                       f"({gsi['TCP']!r}): " + out[3]))
    elif spec0["rows"] == "invalid":
      failures.append(("no-exception", "invalid-mnr-error-path", "max_row_count=MNR with an MNR field that is not a number "
                       f"({gsi['MNR']!r}): " + out[3]))
    else:
      failures.append(("no-exception", out[2], out[3]))
    return evaluated, failures
  observed = out[1]
  base = evaluate(data, cfg, observed)
  if any(v is not None for c in STRUCTURAL + ("text-align", "region") for v in base[0].get(c, [])) and _orphan(base[2]) and not _reduced:
    # attribute the failures to the orphaned cumulative set only if the file without that set satisfies every contract
    ev2, f2 = check_file(_without_orphan_sets(data, base[2]), cfg, True)
    if f2:
      return ev2, f2
    first = next((v for vals in base[0].values() for v in vals if v is not None), None)
    return evaluated + [c for c, vals in base[0].items() for _ in vals], [("subtitle-set", ORPHAN_KEY, ORPHAN_TEXT + ": " + first[1])]
  best = (base[1], 0, (), base)
  if base[1]:
    # recognised misreadings: compare the observation with the oracle's result for a transformed file; a misreading is accepted
    # only if it leaves no structural failure (subtitle set, characters, lines, times) unexplained
    names = [h[0] for h in HYPOTHESES]
    cands = [name for name, tr in HYPOTHESES if tr(data) != data]
    for k in range(1, len(cands) + 1):
      for combo in itertools.combinations(cands, k):
        d2 = data
        for name in combo:
          d2 = HYPOTHESES[names.index(name)][1](d2)
        r = evaluate(d2, cfg, observed)
        if _structural_failures(r[0]) == 0 and (r[1], k) < best[:2]:
          best = (r[1], k, combo, r)
  res, n, spec = best[3]
  for name in best[2]:
    contract, text = HYP_TEXT[name]
    first = next((v for vals in base[0].values() for v in vals if v is not None), None)
    failures.append((contract, name, text + (f": {first[1]}" if first else "")))
  for contract, vals in res.items():
    for v in vals:
      evaluated.append(contract)
      if v is None:
        continue
      key = v[0]
      if spec["rows"] == "invalid" and contract in ("timing", "subtitle-set") and _mnr_shift_explains(spec, observed):
        failures.append((contract, "invalid-mnr-error-path", "max_row_count=MNR with an MNR field that is not a number "
                         f"({gsi['MNR']!r}) shifts every subtitle: " + v[1]))
        continue
      if contract == "timing":
        key = f"{key}@{gsi['DFC'].decode('latin1')}"
      if contract == "text-characters" and key == "text-mismatch":
        key = f"text-mismatch@cct={gsi['CCT'].decode('latin1')}"
      failures.append((contract, key, v[1]))
  return evaluated, failures


def units(data):
  """TTI blocks grouped into removable units: a plain subtitle with its extension / user-data blocks, a whole cumulative
  set, a comment block"""
  out, cur = [], []
  for i in range(S.GSI_SIZE, len(data), S.TTI_SIZE):
    b = data[i:i + S.TTI_SIZE]
    cur.append(b)
    if b[15] == 1 and len(cur) == 1:
      out.append(cur)
      cur = []
    elif b[3] == 0xFF and b[4] in (0, 3):
      out.append(cur)
      cur = []
  if cur:
    out.append(cur)
  return out


def shrink(data, cfg, contract, key):
  """smaller witness with the same (contract, key): drop whole subtitles / cumulative sets, configuration entries and single
  text-field bytes while the failure persists -> (data, cfg)"""
  def fails(d, c):
    try:
      return any(c_ == contract and k == key for c_, k, _ in check_file(d, c)[1])
    except Exception:  # pylint: disable=broad-except
      return False
  us = units(data)
  i = 0
  while i < len(us) and len(us) > 1:
    cand = data[:S.GSI_SIZE] + b"".join(b for j, u in enumerate(us) if j != i for b in u)
    if fails(cand, cfg):
      us.pop(i)
      data = cand
    else:
      i += 1
  if cfg:
    for k in list(cfg):
      c2 = {a: b for a, b in cfg.items() if a != k}
      if fails(data, c2 or None):
        cfg = c2 or None
  budget = 400
  for off in range(S.GSI_SIZE, len(data), S.TTI_SIZE):
    if data[off + 3] in range(0xF0, 0xFF):
      continue
    j = 0
    while budget > 0:
      tf = data[off + 16:off + S.TTI_SIZE].rstrip(bytes([S.FILLER]))
      if j >= len(tf):
        break
      tf2 = tf[:j] + tf[j + 1:]
      cand = data[:off + 16] + tf2 + bytes([S.FILLER]) * (S.TF_SIZE - len(tf2)) + data[off + S.TTI_SIZE:]
      budget -= 1
      if fails(cand, cfg):
        data = cand
      else:
        j += 1
  return data, cfg


def describe(data):
  gsi = S.parse_gsi(data[:S.GSI_SIZE])
  out = {"GSI": {k: gsi[k].decode("latin1") for k in ("DFC", "DSC", "CCT", "TCP", "MNR")}, "TTI": []}
  for i in range(S.GSI_SIZE, len(data), S.TTI_SIZE):
    b = S.parse_tti(data[i:i + S.TTI_SIZE])
    tf = b["TF"].rstrip(bytes([S.FILLER]))
    out["TTI"].append({k: b[k] for k in ("SGN", "SN", "EBN", "CS", "TCI", "TCO", "VP", "JC", "CF")} | {"TF": tf.hex()})
  return out


def record(rec, data, cfg, sample_tag=None):
  evaluated, failures = check_file(data, cfg)
  fp = (zlib.crc32(data), repr(sorted((cfg or {}).items(), key=str)))
  for i, c in enumerate(evaluated):
    rec.evaluated(c, fp, {"tag": sample_tag, "config": cfg, "file": describe(data)} if (sample_tag and i == 0) else None)
  for contract, key, msg in failures:
    if key not in rec.failures:
      small, cfg2 = shrink(data, cfg, contract, key)
      ev2, f2 = check_file(small, cfg2)
      msg2 = next((m for c, k, m in f2 if c == contract and k == key), msg)
      rec.fail(key, contract, msg2, {"config": cfg2, "file": describe(small)}, msg2, f"contract `{contract}` of the statement",
               REPLAYER, {"data_hex": small.hex(), "config": cfg2, "key": key})
    else:
      rec.fail(key, contract, msg)


# ---------------------------------------------------------------------------------------------------------------------
# generators

DFCS = [b"STL23.01", b"STL24.01", b"STL25.01", b"STL30.01", b"STL50.01"]
CCTS = [b"00", b"01", b"02", b"03", b"04"]
CONTROL = [0x00, 0x01, 0x02, 0x03, 0x04, 0x05, 0x06, 0x07, 0x1C, 0x1D, 0x80, 0x81, 0x82, 0x83]
CONTROL_RARE = [0x0A, 0x0B, 0x0C, 0x84, 0x85, 0x08, 0x09]
_PAIRS = list(S.iso6937_pairs())
_DEFINED = {c: S.defined_character_bytes(c) for c in CCTS}


def rate_of(dfc):
  return S.DFC_RATES[dfc][0][1]


def gen_word(r, cct, n):
  out = bytearray()
  for _ in range(n):
    k = r.random()
    if k < 0.55:
      out.append(r.choice(b"abcdefghijklmnopqrstuvwxyzABCDEFGHIJKLMNOPQRSTUVWXYZ0123456789.,!?'-"))
    elif cct == b"00" and k < 0.75:
      out += bytes(r.choice(_PAIRS))
    elif cct == b"00" and k < 0.78:
      out += bytes([r.choice(sorted(S.SPACING)), 0x20, r.choice(b"abcXYZ")])
    else:
      b = r.choice(_DEFINED[cct])
      if b == 0x20 or (cct == b"00" and 0xC1 <= b <= 0xCF):
        b = 0x2A
      out.append(b)
  return bytes(out)


def gen_text(r, cct, max_len, double=False):
  """grammar-directed text field content (without filler)"""
  out = bytearray()
  n_items = r.randint(1, 9)
  if double:
    out += b"\x0d"
  for i in range(n_items):
    k = r.random()
    if k < 0.42:
      item = gen_word(r, cct, r.randint(1, 4))
    elif k < 0.60:
      item = b" " * r.choice((1, 1, 1, 2, 3))
    elif k < 0.80:
      item = bytes([r.choice(CONTROL)])
    elif k < 0.84:
      item = bytes([r.choice(CONTROL_RARE)])
    elif k < 0.96:
      item = bytes([S.NEWLINE]) * (2 if double or r.random() < 0.12 else 1)
    else:
      item = bytes([r.choice(CONTROL), r.choice(CONTROL)])
    if len(out) + len(item) > max_len:
      break
    out += item
  if not any(S.is_character_code(c) and c != 0x20 for c in out) and len(out) < max_len and r.random() < 0.9:
    out += b"Z"
  return bytes(out)


def labels_near(r, rate, base, quick):
  """frame counts for TCI: around `base` (the programme start) and at label boundaries"""
  nom = smpte.nominal(rate)
  k = r.random()
  day = 24 * 3600 * nom - 4000
  if k < 0.18:
    n = base + r.choice((-1, -2, -nom, -r.randint(1, 5000)))
  elif k < 0.30:
    n = base + r.choice((0, 1, 2))
  elif k < 0.55:
    n = base + r.randint(0, 3 * 3600 * nom)
  elif k < 0.8:
    m = r.randint(0, 23 * 60)
    n = smpte.count(m // 60, m % 60, 0, 0, rate) + r.choice((-3, -2, -1, 0, 1, 2, 3, 4, 5))
    if smpte.drop(rate) and (m % 10) and n >= smpte.count(m // 60, m % 60, 0, 0, rate):
      n = max(n, smpte.count(m // 60, m % 60, 0, smpte.drop(rate), rate))
  else:
    n = r.randint(0, day)
  return min(max(n, 0), day)


def gen_file(r, quick, force=None):
  """-> (data, cfg, tag)"""
  force = force or {}
  dfc = force.get("dfc") or r.choice(DFCS)
  dsc = force.get("dsc") or r.choice((b"0", b"1", b"1", b"2"))
  cct = force.get("cct") or r.choice((b"00", b"00", b"00", b"01", b"02", b"03", b"04"))
  rate = rate_of(dfc)
  nom = smpte.nominal(rate)
  teletext = dsc in (b"1", b"2")
  # programme start
  start_n = 0
  tcp_label = smpte.label(r.choice((0, 10 * 3600 * nom, r.randint(0, 20 * 3600 * nom))), rate)
  tcp = b"%02d%02d%02d%02d" % tcp_label
  k = r.random()
  cfg = {}
  if k < 0.35:
    pass
  elif k < 0.62:
    cfg["program_start_tc"] = "TCP"
    if r.random() < 0.12:
      tcp = r.choice((b"        ", b"XXXXXXXX", b"--------", b"10:00:00"))
    else:
      start_n = smpte.count(*tcp_label, rate)
  else:
    lab = smpte.label(r.choice((0, 1, 10 * 3600 * nom, r.randint(0, 20 * 3600 * nom))), rate)
    sep = ":" if rate.denominator == 1 or r.random() < 0.6 else r.choice((";", ":"))
    cfg["program_start_tc"] = f"%02d:%02d:%02d{sep}%02d" % lab
    start_n = smpte.count(*lab, rate)
  # rows
  mnr = r.choice((b"23", b"11", b"14", b"02", b"99", b"30"))
  k = r.random()
  if k < 0.4:
    rows = 23
  elif k < 0.65:
    cfg["max_row_count"] = "MNR"
    if r.random() < 0.12:
      mnr = r.choice((b"  ", b"ab", b" 9", b"00", b"-1", b"00"))       # not a number, or not a positive number: the default applies
      rows = 23
    else:
      rows = int(mnr)
  else:
    rows = r.choice((1, 2, 3, 11, 14, 23, 24, 30, 99))
    cfg["max_row_count"] = rows
  if teletext:
    rows = 23
  if r.random() < 0.3:
    cfg["disable_fill_line_gap"] = r.random() < 0.5
  if r.random() < 0.3:
    cfg["disable_line_padding"] = r.random() < 0.5
  if r.random() < 0.3:
    cfg["font_stack"] = r.choice(("Arial, sansSerif", "monospace", "\"Courier New\", monospace"))
  if not cfg and r.random() < 0.5:
    cfg = None

  max_tf = 14 if quick else 44
  blocks = []
  sn = r.choice((0, 1, 250, 254, 255, 256, 300, 1000, 65000, r.randint(0, 60000)))
  n_para = r.randint(1, 3 if quick else 6)
  tags = set()
  t_prev = None
  for _ in range(n_para):
    k = r.random()
    members = 1 if k < 0.72 else r.choice((2, 2, 3))
    tci_n = labels_near(r, rate, start_n, quick)
    jc = r.choice((0, 1, 2, 3))
    sgn = r.choice((0, 0, 0, 0, 1, 2))
    vp_line = None
    for mi in range(members):
      cs = 0 if members == 1 else (1 if mi == 0 else (3 if mi == members - 1 else 2))
      double = r.random() < 0.06
      long_text = r.random() < 0.07
      text = gen_text(r, cct, 300 if long_text else max_tf, double)
      nlines = text.count(bytes([S.NEWLINE])) + 1
      # vertical position
      if vp_line is None:
        k = r.random()
        span = nlines * (2 if double else 1)
        cands = [1, 2, rows // 2 - 1, rows // 2, rows // 2 + 1, rows - span, rows - span + 1, rows, r.randint(1, max(1, rows))]
        if k < 0.07:
          vp = 0
        elif k < 0.14:
          vp = min(255, rows - span + 2)
        else:
          vp = r.choice(cands)
        vp = min(max(vp, 0), 255)
        if teletext and vp == 0 and r.random() < 0.5:
          vp = 1
      else:
        vp = min(255, vp_line)
      vp_line = vp + nlines
      dur = r.choice((0, 1, 1, 2, nom, nom + 1, r.randint(1, 600), r.randint(1, 90000)))
      tco_n = min(tci_n + dur, 24 * 3600 * nom - 1)
      if mi and r.random() < 0.6 and t_prev is not None:
        tco_n = max(t_prev, tci_n)      # members of a cumulative set usually end together
      t_prev = tco_n
      tci, tco = smpte.label(tci_n, rate), smpte.label(tco_n, rate)
      # text field layout
      k = r.random()
      tfs = []
      if len(text) > S.TF_SIZE or k < 0.22:
        # extension chain
        tags.add("ext")
        rest = text
        full = r.random() < 0.5
        k_blocks = max(-(-len(text) // S.TF_SIZE), r.randint(2, 5))
        for bi in range(k_blocks - 1):
          left = k_blocks - 1 - bi
          lo, hi = max(0, len(rest) - S.TF_SIZE * left), min(S.TF_SIZE, len(rest))
          lo = max(lo, min(1, hi))
          cut = hi if (full and hi == S.TF_SIZE) else r.randint(lo, hi)
          tfs.append(rest[:cut])
          rest = rest[cut:]
        tfs.append(rest)
      else:
        tfs = [text[:S.TF_SIZE]]
      k = r.random()
      if k < 0.05:
        tfs[0] = (bytes([S.FILLER]) * r.choice((1, 2)) + tfs[0])[:S.TF_SIZE]
        tags.add("leading-filler")
      elif k < 0.10 and len(tfs[-1]) < S.TF_SIZE - 4:
        tfs[-1] = tfs[-1] + bytes([S.FILLER]) + bytes(r.choice(b"jkqJKQ") for _ in range(r.randint(1, 3)))
        tags.add("junk-after-filler")
      ebn0 = 0xF0 - (len(tfs) - 1) if (len(tfs) > 1 and r.random() < 0.15) else 0
      for bi, tf in enumerate(tfs):
        ebn = 0xFF if bi == len(tfs) - 1 else ebn0 + bi
        blocks.append(tti_block(sn=sn, ebn=ebn, cs=cs, tci=tci, tco=tco, vp=vp, jc=jc, tf=tf, sgn=sgn))
        if r.random() < 0.06:
          blocks.append(tti_block(sn=sn, ebn=r.choice((0xFE, 0xFE, 0xFE, 0xF0, 0xFD)), cs=cs, tci=tci, tco=tco, vp=vp, jc=jc, tf=b"USERDATA" + bytes(r.randrange(256) for _ in range(8)), sgn=sgn))
          tags.add("user-data")
          if bi == len(tfs) - 1:
            # a user-data block after the terminal block belongs to the same subtitle number: put it before instead
            blocks[-1], blocks[-2] = blocks[-2], blocks[-1]
      sn = (sn + 1) & 0xFFFF
      tci_n = min(tci_n + r.choice((0, 1, nom, r.randint(1, 400))), tco_n)
      if members > 1:
        tags.add("cumulative")
    if r.random() < 0.06:
      t = smpte.label(labels_near(r, rate, start_n, quick), rate)
      blocks.append(tti_block(sn=sn, cs=0, tci=t, tco=smpte.label(min(smpte.count(*t, rate) + 50, 24 * 3600 * nom - 1), rate),
                              vp=2, jc=2, cf=1, tf=b"editor's note", sgn=sgn))
      sn = (sn + 1) & 0xFFFF
      tags.add("comment")
  data = stl_file(blocks, dfc=dfc, dsc=dsc, cct=cct, tcp=tcp, mnr=mnr)
  return data, cfg, "+".join(sorted(tags)) or "plain"


# ---------------------------------------------------------------------------------------------------------------------
# deterministic sweeps


def sweep_tables(rec):
  """every diacritic pair, spacing accent and assigned single byte, each alone in a subtitle, through the reader"""
  for cct in CCTS:
    items = []
    if cct == b"00":
      items += [("iso6937-pairs", bytes(p), S.iso6937_pair(*p)) for p in _PAIRS]
      items += [("iso6937-pairs", bytes([d, 0x20, 0x78]), None) for d in sorted(S.SPACING)]
    for b in _DEFINED[cct]:
      if b == 0x20 or (cct == b"00" and 0xC1 <= b <= 0xCF):
        continue
      alts = S.iso6937_single(b) if cct == b"00" else S.iso8859_single(S.CCT_CODECS[cct], b)
      items.append(("code-table", bytes([b]), alts))
    for dsc in (b"1", b"0"):
      blocks = [tti_block(sn=i, tci=(0, 0, i // 25 % 60, i % 25), tco=(0, 1, i // 25 % 60, i % 25), tf=tf) for i, (_, tf, _) in enumerate(items)]
      data = stl_file(blocks, cct=cct, dsc=dsc)
      out = run_reader(data, None)
      if out[0] == "raise":
        rec.evaluated("no-exception", ("tables", cct, dsc))
        rec.fail(out[2], "no-exception", out[3], {"file": "code table sweep", "cct": cct.decode()})
        continue
      obs = out[1]
      texts = ["".join(c.ch for ln in p["lines"] for c in ln) for p in obs]
      if len(texts) != len(items):
        rec.evaluated("code-table", ("tables", cct, dsc))
        rec.fail(f"code-table-sweep-count@cct={cct.decode()}", "code-table", f"{len(texts)} subtitles for {len(items)} single-character subtitles",
                 {"cct": cct.decode()})
        continue
      for (contract, tf, alts), got in zip(items, texts):
        rec.evaluated(contract, (cct, dsc, tf), {"cct": cct.decode(), "tf": tf.hex(), "text": got})
        if len(tf) == 3:
          ok = got == S.SPACING[tf[0]] + "x"
          want = S.SPACING[tf[0]] + "x"
        else:
          ok = got in alts
          want = alts
        if not ok:
          key = "iso6937-composition" if contract == "iso6937-pairs" else f"code-table@cct={cct.decode()}"
          one = stl_file([tti_block(tf=tf)], cct=cct, dsc=dsc)
          rec.fail(key, contract, f"CCT {cct.decode()}: bytes {tf.hex()} decoded as {got!r} ({[hex(ord(c)) for c in got]}), required {want!r}",
                   {"cct": cct.decode(), "tf": tf.hex()}, got, want, "replayers.c09:text", {"cct": cct.decode(), "dsc": dsc.decode(), "tf_hex": tf.hex(), "want": list(want) if not isinstance(want, str) else [want]})


def sweep_times(rec):
  """label boundaries for every DFC, with and without a programme start"""
  for dfc in DFCS:
    rate = rate_of(dfc)
    nom = smpte.nominal(rate)
    labels = []
    for (h, m, s) in ((0, 0, 0), (0, 0, 1), (0, 0, 59), (0, 1, 0), (0, 9, 59), (0, 10, 0), (0, 59, 59), (1, 0, 0), (9, 59, 59), (10, 0, 0),
                      (10, 1, 0), (23, 59, 59)):
      for f in (0, 1, 2, 3, 4, nom // 2, nom - 2, nom - 1):
        if smpte.valid(h, m, s, f, rate):
          labels.append((h, m, s, f))
    labels = sorted(set(labels))
    for cfg in (None, {"program_start_tc": "TCP"}, {"program_start_tc": "10:00:00:00"}, {"program_start_tc": "00:00:00:01"},
                {"program_start_tc": "00:01:00:02"}):
      blocks = []
      for i, lab in enumerate(labels):
        n = smpte.count(*lab, rate)
        blocks.append(tti_block(sn=i, tci=lab, tco=smpte.label(n + 1 + i % 3, rate), tf=b"t%d" % i))
      data = stl_file(blocks, dfc=dfc, tcp=b"10000000")
      record(rec, data, cfg)


def sweep_regions(rec):
  """every VP x 1..3 lines for several row counts (open subtitles), and teletext"""
  for dsc, rows_list in ((b"1", [23]), (b"0", [1, 2, 3, 4, 5, 11, 14, 23, 24, 30, 99])):
    for rows in rows_list:
      for nl in (1, 2, 3):
        blocks = []
        for vp in range(0, min(rows + 3, 102)):
          tf = bytes([S.NEWLINE]).join(b"L%d" % k for k in range(nl))
          blocks.append(tti_block(sn=vp, tci=(0, 0, vp % 60, 0), tco=(0, 0, vp % 60, 10), vp=vp, jc=1 + vp % 3, tf=tf))
        for cfg in ({"max_row_count": rows}, {"max_row_count": "MNR"}):
          data = stl_file(blocks, dsc=dsc, mnr=b"%02d" % rows)
          record(rec, data, cfg)


C_SPLIT = "a text field split over extension blocks reads like the same bytes in one block"


def detailed(doc):
  """every paragraph with its region geometry, text, per-span styles (font size included) -- for comparing two readings of the same content"""
  import ttconv.model as M
  out = []
  if doc is None or doc.get_body() is None:
    return out
  for p in doc.get_body().dfs_iterator():
    if isinstance(p, M.P):
      reg = p.get_region()
      rs = tuple(sorted((k.__name__, repr(reg.get_style(k))) for k in reg.iter_styles())) if reg is not None else None
      items = []
      for e in p.dfs_iterator():
        if isinstance(e, M.Text):
          items.append(("T", e.get_text()))
        elif isinstance(e, M.Br):
          items.append(("BR",))
        elif e is not p:
          items.append((type(e).__name__, tuple(sorted((k.__name__, repr(e.get_style(k))) for k in e.iter_styles()))))
      out.append((p.get_begin(), p.get_end(), tuple(sorted((k.__name__, repr(p.get_style(k))) for k in p.iter_styles())), rs, tuple(items)))
  return out


def split_difference(split_data, single_data):
  import io
  import ttconv.stl.reader as stl_reader
  try:
    a = detailed(stl_reader.to_model(io.BytesIO(split_data)))
    b = detailed(stl_reader.to_model(io.BytesIO(single_data)))
  except Exception:  # pylint: disable=broad-except
    return None          # reported by the other contracts
  if a == b:
    return None
  k = next((i for i in range(min(len(a), len(b))) if a[i] != b[i]), min(len(a), len(b)))
  return f"paragraph {k}: split over blocks {a[k] if k < len(a) else None!r}; in one block {b[k] if k < len(b) else None!r}"


def sweep_full_text_fields(rec):
  """text fields WITHOUT any unused-space byte (all 112 bytes used): a single full block, a full block followed by an extension
  block (in both EBN numberings), a last block that is exactly full, for teletext and open subtitles, two code pages"""
  words = (b"The quick brown fox jumps over the lazy dog and keeps running until the very end of this text field. " * 3)
  for dsc in (b"1", b"0"):
    for cct in (b"00", b"01"):
      cases = {
        "single-full": [(0xFF, words[:S.TF_SIZE])],
        "full+extension": [(0x00, words[:S.TF_SIZE]), (0xFF, words[S.TF_SIZE:S.TF_SIZE + 30])],
        "full+full": [(0x00, words[:S.TF_SIZE]), (0xFF, words[S.TF_SIZE:2 * S.TF_SIZE])],
        "short+full": [(0x00, words[:40]), (0xFF, words[40:40 + S.TF_SIZE])],
        "three-blocks-F0": [(0xEE, words[:S.TF_SIZE]), (0xEF, words[S.TF_SIZE:2 * S.TF_SIZE]), (0xFF, words[2 * S.TF_SIZE:2 * S.TF_SIZE + 5])],
        "full-ending-in-newline": [(0xFF, words[:S.TF_SIZE - 1] + bytes([S.NEWLINE]))],
        # the double-height code (0Dh) in the FIRST block of a subtitle that continues in an extension block, and in the last block only
        "double-height-in-first-block": [(0x00, b"\x0d" + words[:50]), (0xFF, words[50:80])],
        "double-height-in-last-block": [(0x00, words[:50] + bytes([S.NEWLINE])), (0xFF, b"\x0d" + words[50:80])],
        "double-height-in-middle-block": [(0xEE, words[:30] + bytes([S.NEWLINE])), (0xEF, b"\x0d" + words[30:60] + bytes([S.NEWLINE])), (0xFF, words[60:80])],
      }
      for _name, tfs in sorted(cases.items()):
        blocks = [tti_block(sn=0, ebn=ebn, tci=(0, 0, 1, 0), tco=(0, 0, 3, 0), vp=18, jc=2, tf=tf) for ebn, tf in tfs]
        blocks.append(tti_block(sn=1, tci=(0, 0, 4, 0), tco=(0, 0, 5, 0), vp=20, jc=2, tf=b"next"))
        data = stl_file(blocks, dsc=dsc, cct=cct)
        record(rec, data, None)
        whole = b"".join(tf for _ebn, tf in tfs)
        if len(tfs) > 1 and len(whole) <= S.TF_SIZE:
          # metamorphic contract `extension blocks are concatenated`: the same bytes in ONE block give the same paragraphs (text, styles,
          # font size, alignment, region) -- whatever reading of the text field the reader follows, it must follow it for both layouts
          one = stl_file([tti_block(sn=0, ebn=0xFF, tci=(0, 0, 1, 0), tco=(0, 0, 3, 0), vp=18, jc=2, tf=whole), blocks[-1]], dsc=dsc, cct=cct)
          rec.evaluated(C_SPLIT, (zlib.crc32(data), "split"))
          diff = split_difference(data, one)
          if diff is not None:
            rec.fail("split-changes-result", C_SPLIT, diff, {"file": describe(data)}, None, None, "replayers.c09:split",
                     {"split_hex": data.hex(), "single_hex": one.hex()})


def sweep_line_count(rec, r, n):
  """tf.line_count (replaced by a symbolic n >= 1 in the proof tier) is at least 1 and within the oracle's row range"""
  from ttconv.stl import tf as TFM
  for i in range(n):
    double = r.random() < 0.3
    text = gen_text(r, r.choice(CCTS), r.choice((4, 14, 44, 112)), double)
    try:
      lc = TFM.line_count(text, TFM.has_double_height_char(text))
    except Exception as e:  # pylint: disable=broad-except
      rec.evaluated("line-count", (text,))
      rec.fail(f"exception-{type(e).__name__}@line_count", "line-count", f"line_count({text.hex()}) raised {e!r}", {"tf": text.hex()})
      continue
    lo, hi = S.row_count_range(text)
    rows = lc * (2 if 0x0D in text else 1)
    rec.evaluated("line-count", (text,), {"tf": text.hex(), "line_count": lc} if i < 2 else None)
    if not (isinstance(lc, int) and lc >= 1 and lo <= rows <= hi):
      rec.fail("line-count-outside-row-range", "line-count", f"line_count({text.hex()}) = {lc} ({rows} rows), the text occupies {lo}..{hi} rows",
               {"tf": text.hex()}, lc, [lo, hi])


def sweep_sn(rec, r, n):
  """metamorphic: the same file with every SN moved above 256 gives the same result (repeated SNs included)"""
  for i in range(n):
    blocks_lo, blocks_hi = [], []
    sn = r.choice((0, 5, 100, 200))
    k = r.randint(2, 4)
    for j in range(k):
      if j and r.random() < 0.5:
        pass                 # repeat the subtitle number
      else:
        sn += 1
      kw = dict(cs=0, tci=(0, 0, j, 0), tco=(0, 0, j, 20), vp=r.choice((2, 20)), jc=r.choice((1, 2, 3)), tf=b"T%d" % j)
      blocks_lo.append(tti_block(sn=sn, **kw))
      blocks_hi.append(tti_block(sn=sn + 300, **kw))
    lo, hi = stl_file(blocks_lo), stl_file(blocks_hi)
    a, b = run_reader(lo, None), run_reader(hi, None)
    rec.evaluated("sn-magnitude-invariance", (zlib.crc32(lo),), {"file": describe(lo)} if i < 2 else None)
    if a[0] != "ok" or b[0] != "ok":
      bad = a if a[0] != "ok" else b
      rec.fail(bad[2], "no-exception", bad[3], {"file": describe(lo)})
      continue
    if canonical(a[1]) != canonical(b[1]):
      ta = [_fmt_text(p["lines"], True) for p in a[1]]
      tb = [_fmt_text(p["lines"], True) for p in b[1]]
      rec.fail("same-sn-handling-depends-on-sn-magnitude", "sn-magnitude-invariance",
               f"subtitle numbers {[x['SN'] for x in describe(lo)['TTI']]} give paragraphs {ta}; the same blocks numbered +300 give {tb}",
               {"file": describe(lo)}, tb, ta, "replayers.c09:sn_shift", {"data_hex": lo.hex(), "shift": 300})


# ---------------------------------------------------------------------------------------------------------------------


def chunk(args):
  idx, n = args
  rec = Recorder("C09", "", {})
  r = rng(SEED, f"c09/{idx}")
  for i in range(n):
    force = {}
    if i % 5 == 0:
      force = {"dfc": DFCS[(i // 5) % 5], "cct": CCTS[(i // 25) % 5], "dsc": (b"0", b"1", b"2")[(i // 5) % 3]}
    data, cfg, tag = gen_file(r, QUICK, force)
    record(rec, data, cfg, tag if i < 2 and idx < 4 else None)
  return rec


def sweeps(job):
  rec = Recorder("C09", "", {})
  which = job[1]
  if which == 0:
    sweep_tables(rec)
  elif which == 1:
    sweep_times(rec)
  elif which == 2:
    sweep_regions(rec)
    sweep_full_text_fields(rec)
  else:
    sweep_sn(rec, rng(SEED, "c09/sn"), 40 if QUICK else 400)
    sweep_line_count(rec, rng(SEED, "c09/lc"), 3000 if QUICK else 60000)
  return rec


def main():
  global QUICK, SEED
  args = parse_args()
  QUICK = args.tier == "quick"
  SEED = args.seed
  per = 560 if QUICK else 3500
  jobs = [("sweeps", k) for k in range(4)] + [(i, per) for i in range(12 if QUICK else 60)]
  rec = Recorder("C09", "generated EBU STL files (GSI x TTI sequences x reader configurations) and exhaustive code-table / "
                 "label-boundary / VP sweeps through ttconv.stl.reader.to_model, against specs/stl.py",
                 {"files": per * (len(jobs) - 4), "ttis_per_file": "1..3 paragraphs, <=3 members, <=5 extension blocks" if QUICK else
                  "1..6 paragraphs, <=3 members, <=5 extension blocks", "tf_bytes": "<=14 (7% up to 300)" if QUICK else "<=44 (7% up to 300)",
                  "code_tables": "all 156 ISO 6937 pairs, 10 spacing accents, every assigned single byte of CCT 00-04",
                  "label_sweep": "12 x 8 boundary labels x 5 DFC x 5 programme starts", "vp_sweep": "VP 0..rows+2 x 1..3 lines x 12 row counts"})
  for part in parallel(_dispatch, jobs):
    rec.merge(part)
  rec.exhaustive = False
  return rec.dump(args.out)


def _dispatch(job):
  if job[0] == "sweeps":
    return sweeps(job)
  return chunk(job)


if __name__ == "__main__":
  sys.exit(main())
