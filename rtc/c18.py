"""C18 bounded tier: readers and writers fail only in documented ways, on any input.

Every input (text or bytes of one of the five input formats) goes through the pipeline of `tt convert`, stage by stage, on the REAL
public functions:

  read         ttml: xml.etree.ElementTree.parse + imsc.reader.to_model;  scc.reader.to_model(str, config);  stl.reader.to_model(BytesIO,
               config);  srt.reader.to_model(StringIO);  vtt.reader.to_model(StringIO)
               contract: terminates within the per-input time limit and
                   returns a ContentDocument | returns None after a FATAL log record | raises ParseError / ValueError (incl.
                   UnicodeDecodeError) / struct.error;            anything else (AttributeError, TypeError, IndexError, KeyError,
                   UnboundLocalError, AssertionError, RecursionError, ZeroDivisionError, RuntimeError, ...) is a failure
  isd          ISD.generate_isd_sequence(doc); ISD.from_model(doc, t) at boundary times (significant times, midpoints, just before, 0,
               after the end), with and without the significant-times cache            contract: no exception
  filter       LCDDocFilter(config).process(doc) for a few configurations, then isd + imsc/srt writer on the filtered document
  write-imsc   imsc.writer.from_model(doc, config) for every time_format configuration + serialisation of the tree
  write-srt    srt.writer.from_model(doc, config), text_formatting on/off
  write-vtt    vtt.writer.from_model(doc, config), all 8 combinations of line_position / text_align / cue_id

Inputs: grammar-generated valid files (specs/formats.py and, when importable, the generators of rtc/c08..c11), structure-aware single
and double mutations of those and of the bundled corpus under src/test/resources (truncation, token/line/element/attribute/block deletion,
duplication, swap and move, boundary values for numbers, attribute values and binary fields, dictionary tokens of the format, random
character / byte replacement), and a few hand-written boundary shapes (empty file, deep nesting, ...).

Failure key:  <stage>:<format>:<ExceptionType>:<function>   where <function> is the innermost ttconv frame outside the model guards
(module.qualname), followed by `/<guard>` when the exception was raised by a guard of ttconv.model / ttconv.style_properties, e.g.
`read:vtt:TypeError:vtt.reader._TextCueParser._handle_string/model.Div.push_child`; the two writer guards SrtParagraph.to_string / VttCue.to_string
raise for several distinct reasons with constant messages, there the reason is appended (`...VttCue.to_string[end-not-set]`).  One defect = one <ExceptionType>:<function> suffix;
the same defect may be reached at several stages and formats (glob `*:ValueError:isd.ISD._process_element/model.Ruby.push_children`).
Other keys: `<stage>:<format>:timeout`, `read:<format>:none-without-fatal-log`, `read:<format>:bad-return-type`.

Workers keep the smallest witness per key; after merging, each witness is shrunk (delta debugging on elements/attributes, lines,
tokens, characters, TTI blocks / fields / bytes, bounded effort) and stored base64 in replay_args (replayers.c18:replay).
"""
import base64
import io
import json
import logging
import os
import re
import signal
import struct
import sys
import time
import traceback
import zlib
import xml.etree.ElementTree as ET
from fractions import Fraction

from rtc.common import Recorder, parse_args, rng, parallel
from specs import formats as F

try:                                       # richer generators written for other properties (optional)
  from rtc import c08 as _c08
except Exception:  # pylint: disable=broad-except
  _c08 = None
try:
  from rtc import c09 as _c09
except Exception:  # pylint: disable=broad-except
  _c09 = None
try:
  from rtc import c10 as _c10
except Exception:  # pylint: disable=broad-except
  _c10 = None
try:
  from rtc import c11 as _c11
except Exception:  # pylint: disable=broad-except
  _c11 = None

import ttconv.model as model
import ttconv.imsc.reader as imsc_reader
import ttconv.imsc.writer as imsc_writer
import ttconv.scc.reader as scc_reader
import ttconv.stl.reader as stl_reader
import ttconv.srt.reader as srt_reader
import ttconv.srt.writer as srt_writer
import ttconv.vtt.reader as vtt_reader
import ttconv.vtt.writer as vtt_writer
from ttconv.isd import ISD
from ttconv.imsc.config import IMSCWriterConfiguration
from ttconv.srt.config import SRTWriterConfiguration
from ttconv.vtt.config import VTTWriterConfiguration
from ttconv.scc.config import SccReaderConfiguration
from ttconv.stl.config import STLReaderConfiguration
from ttconv.filters.doc.lcd import LCDDocFilter, LCDDocFilterConfig

REPLAYER = "replayers.c18:replay"
FORMATS = ("ttml", "scc", "stl", "srt", "vtt")
READ_LIMIT = 10          # seconds per input (termination, bounded)
STAGE_LIMIT = 30         # seconds per downstream stage
ACCEPTED = (ET.ParseError, ValueError, struct.error)          # UnicodeDecodeError is a ValueError

QUICK = True
SEED = 0

# ---------------------------------------------------------------------------------------------------------------------
# logging: only FATAL records matter ("returns nothing after logging a fatal message")


class _Capture(logging.Handler):
  def __init__(self):
    super().__init__(level=logging.CRITICAL)
    self.fatal = 0

  def emit(self, record):
    self.fatal += 1


CAPTURE = _Capture()
_lg = logging.getLogger("ttconv")
_lg.setLevel(logging.CRITICAL)
_lg.addHandler(CAPTURE)
_lg.propagate = False
logging.disable(logging.ERROR)               # the helper modules imported above disable everything; FATAL must get through

# ---------------------------------------------------------------------------------------------------------------------
# time limit


class Hang(BaseException):
  """not an Exception: must not be swallowed by an `except Exception` of the code under check"""


def _on_alarm(_sig, _frm):
  raise Hang()


signal.signal(signal.SIGALRM, _on_alarm)


def limited(seconds, fn, *a):
  signal.setitimer(signal.ITIMER_REAL, seconds)
  try:
    return fn(*a)
  finally:
    signal.setitimer(signal.ITIMER_REAL, 0)


# ---------------------------------------------------------------------------------------------------------------------
# where was it raised

_GUARD_MODULES = ("model", "style_properties")
_MESSAGE_KEYS = {("srt.paragraph", "SrtParagraph.to_string"), ("vtt.cue", "VttCue.to_string")}
_MESSAGE_SLUGS = (("end time code must be greater", "end-not-after-begin"), ("end time code must be set", "end-not-set"), ("begin time code must be set", "begin-not-set"))


def where(exc):
  """innermost ttconv frame outside the model guards [+ '/' + the guard that raised]"""
  frames = []
  tb = exc.__traceback__
  while tb is not None:
    code = tb.tb_frame.f_code
    fn = code.co_filename.replace("\\", "/")
    i = fn.rfind("/ttconv/")
    if i >= 0:
      mod = fn[i + len("/ttconv/"):].rsplit(".", 1)[0].replace("/", ".")
      frames.append((mod, getattr(code, "co_qualname", code.co_name)))
    tb = tb.tb_next
  if not frames:
    return "outside-ttconv"
  if isinstance(exc, RecursionError):
    # the frame where the stack ran out is arbitrary: name the function that recurses (the most frequent frame)
    counts = {}
    for f in frames:
      counts[f] = counts.get(f, 0) + 1
    top = max(counts.items(), key=lambda kv: (kv[1], kv[0]))[0]
    return f"recursion-in:{top[0]}.{top[1]}"
  inner = frames[-1]
  if inner in _MESSAGE_KEYS:
    # one guard, several distinct reasons (constant messages): the reason is part of the key
    msg = str(exc)
    slug = next((s for needle, s in _MESSAGE_SLUGS if needle in msg), "other")
    return f"{inner[0]}.{inner[1]}[{slug}]"
  if inner[0] in _GUARD_MODULES:
    callers = [f for f in frames if f[0] not in _GUARD_MODULES]
    if callers:
      return f"{callers[-1][0]}.{callers[-1][1]}/{inner[0]}.{inner[1]}"
  return f"{inner[0]}.{inner[1]}"


def exc_text(exc):
  tb = traceback.extract_tb(exc.__traceback__)
  tail = [f"{os.path.basename(f.filename)}:{f.lineno} {f.name}" for f in tb if "/ttconv/" in f.filename.replace("\\", "/")][-4:]
  return f"{type(exc).__name__}: {str(exc)[:200]}  [{' > '.join(tail)}]"


# ---------------------------------------------------------------------------------------------------------------------
# configurations

SCC_CFGS = [None, {"text_align": "auto"}, {"text_align": "left"}, {"text_align": "center"}, {"text_align": "right"}]
STL_CFGS = [None, None, {"disable_fill_line_gap": True}, {"disable_line_padding": True}, {"program_start_tc": "TCP"},
            {"program_start_tc": "10:00:00:00"}, {"max_row_count": "MNR"}, {"max_row_count": 11}, {"font_stack": "Arial, sansSerif"},
            {"program_start_tc": "TCP", "max_row_count": "MNR", "disable_fill_line_gap": True, "disable_line_padding": True}]
IMSC_CFGS = [None, {"time_format": "clock_time"}, {"time_format": "frames", "fps": "25/1"}, {"time_format": "frames", "fps": "30000/1001"},
             {"time_format": "clock_time_with_frames", "fps": "30/1"}, {"time_format": "clock_time_with_frames", "fps": "24/1"},
             {"fps": "24000/1001"}, {"time_format": "clock_time", "fps": "50/1"}]
SRT_CFGS = [None, {"text_formatting": True}, {"text_formatting": False}]
VTT_CFGS = [None] + [{"line_position": a, "text_align": b, "cue_id": c} for a in (False, True) for b in (False, True) for c in (False, True)]
LCD_CFGS = [{}, {"safe_area": 0, "preserve_text_align": True}, {"safe_area": 30, "color": "#FF0000", "bg_color": "black"},
            {"safe_area": 5, "bg_color": "#00000080"}, {"color": "white", "preserve_text_align": True}]


def reader_cfgs(fmt):
  return SCC_CFGS if fmt == "scc" else STL_CFGS if fmt == "stl" else [None]


# ---------------------------------------------------------------------------------------------------------------------
# the stages (real public functions only)


def to_bytes(fmt, payload):
  return payload if isinstance(payload, (bytes, bytearray)) else payload.encode("utf-8", "surrogatepass")


def call_reader(fmt, payload, rcfg):
  """-> document or None; raises whatever the reader raises.  The XML parse of tt.py is part of reading a TTML file; exceptions
  raised by the XML parser itself (no ttconv frame) are input rejections whatever their type (A-STDLIB-RAISES)."""
  if fmt == "ttml":
    data = to_bytes(fmt, payload)
    try:
      tree = ET.parse(io.BytesIO(data))
    except Hang:
      raise
    except BaseException as e:  # pylint: disable=broad-except
      if isinstance(e, (KeyboardInterrupt, SystemExit)):
        raise
      raise ET.ParseError(f"rejected by the XML parser: {type(e).__name__}: {e}") from None
    return imsc_reader.to_model(tree)
  if fmt == "scc":
    return scc_reader.to_model(payload, None if rcfg is None else SccReaderConfiguration.parse(rcfg))
  if fmt == "stl":
    return stl_reader.to_model(io.BytesIO(payload), None if rcfg is None else STLReaderConfiguration.parse(rcfg))
  if fmt == "srt":
    return srt_reader.to_model(io.StringIO(payload))
  if fmt == "vtt":
    return vtt_reader.to_model(io.StringIO(payload))
  raise AssertionError(fmt)


def read_stage(fmt, payload, rcfg):
  """-> (outcome, doc, detail): outcome in doc | none | rejected | <failure key tail>"""
  for attempt in (0, 1):
    CAPTURE.fatal = 0
    try:
      doc = limited(READ_LIMIT, call_reader, fmt, payload, rcfg)
    except Hang:
      if attempt == 0:
        continue                                  # a loaded machine must not produce a verdict: once more
      return "timeout", None, f"no result after {READ_LIMIT} s (twice)"
    except ACCEPTED as e:
      return "rejected", None, type(e).__name__
    except Exception as e:  # pylint: disable=broad-except
      return f"{type(e).__name__}:{where(e)}", None, exc_text(e)
    if doc is None:
      if CAPTURE.fatal:
        return "none", None, "None after a FATAL record"
      return "none-without-fatal-log", None, "the reader returned None without logging a FATAL record"
    if not isinstance(doc, model.ContentDocument):
      return "bad-return-type", None, f"the reader returned a {type(doc).__name__}"
    return "doc", doc, None
  raise AssertionError


def isd_times(st):
  pick = st[:3] + st[-1:]
  ts = {Fraction(0)}
  for i, t in enumerate(pick):
    ts.add(t)
    if t > 0:
      ts.add(t - Fraction(1, 1000000))
    if i + 1 < len(pick):
      ts.add((t + pick[i + 1]) / 2)
  ts.add((max(st) if st else 0) + 1)
  return sorted(ts)


def stage_isd(doc, _cfg):
  seq = ISD.generate_isd_sequence(doc)
  for _t, isd in seq:
    if isd is None:
      raise RuntimeError("generate_isd_sequence returned an entry without ISD")
  st = ISD.significant_times(doc)
  ts = isd_times(list(st))
  for i, t in enumerate(ts):
    ISD.from_model(doc, t, st)
    if i % 5 == 1:
      ISD.from_model(doc, t)                        # the path without the significant-times cache


def stage_isd_seq(doc, _cfg):
  ISD.generate_isd_sequence(doc)


def _imsc_cfg(cfg):
  return None if cfg is None else IMSCWriterConfiguration.parse(cfg)


def stage_write_imsc(doc, cfg):
  tree = imsc_writer.from_model(doc, _imsc_cfg(cfg))
  buf = io.BytesIO()
  tree.write(buf, encoding="utf-8")                # what tt.py does with the result
  if not buf.getvalue():
    raise RuntimeError("empty serialisation")


def stage_write_srt(doc, cfg):
  out = srt_writer.from_model(doc, None if cfg is None else SRTWriterConfiguration.parse(cfg))
  if not isinstance(out, str):
    raise TypeError(f"srt writer returned {type(out).__name__}")


def stage_write_vtt(doc, cfg):
  out = vtt_writer.from_model(doc, None if cfg is None else VTTWriterConfiguration.parse(cfg))
  if not isinstance(out, str):
    raise TypeError(f"vtt writer returned {type(out).__name__}")


def stage_filter(doc, cfg):
  LCDDocFilter(LCDDocFilterConfig.parse(cfg)).process(doc)


STAGES = {"isd": stage_isd, "write-imsc": stage_write_imsc, "write-srt": stage_write_srt, "write-vtt": stage_write_vtt, "filter": stage_filter,
          "filter+isd": stage_isd_seq, "filter+write-imsc": stage_write_imsc, "filter+write-srt": stage_write_srt, "filter+write-vtt": stage_write_vtt}


def run_stage(stage, doc, cfg):
  """-> None | (key tail, detail)"""
  for attempt in (0, 1):
    try:
      limited(STAGE_LIMIT, STAGES[stage], doc, cfg)
      return None
    except Hang:
      if attempt == 0:
        continue
      return "timeout", f"no result after {STAGE_LIMIT} s (twice)"
    except Exception as e:  # pylint: disable=broad-except
      return f"{type(e).__name__}:{where(e)}", exc_text(e)
  raise AssertionError


def plan_for(index, full):
  """which downstream configurations one document is taken through: every configuration in turn over the population (quick), all of
  them (thorough: `full`)"""
  if full:
    return {"imsc": IMSC_CFGS, "srt": SRT_CFGS, "vtt": VTT_CFGS, "lcd": LCD_CFGS}
  return {"imsc": [IMSC_CFGS[index % len(IMSC_CFGS)], IMSC_CFGS[(index // 3 + 3) % len(IMSC_CFGS)]],
          "srt": [SRT_CFGS[index % len(SRT_CFGS)]],
          "vtt": [VTT_CFGS[index % len(VTT_CFGS)], VTT_CFGS[(index // 2 + 4) % len(VTT_CFGS)]],
          "lcd": [LCD_CFGS[index % len(LCD_CFGS)]]}


def single_stage(fmt, payload, rcfg, stage, scfg, fcfg=None):
  """re-read the input and run ONE stage (used to confirm, shrink and replay) -> (key or None, detail)"""
  outcome, doc, detail = read_stage(fmt, payload, rcfg)
  if stage == "read":
    if outcome in ("doc", "none", "rejected"):
      return None, f"reader outcome: {outcome}" + (f" ({detail})" if detail else "")
    return f"read:{fmt}:{outcome}", detail
  if doc is None:
    return None, f"reader outcome: {outcome}"
  if stage.startswith("filter+"):
    res = run_stage("filter", doc, fcfg)
    if res is not None:
      return None, f"the filter itself failed: {res[1]}"
  res = run_stage(stage, doc, scfg)
  if res is None:
    return None, "no exception"
  return f"{stage}:{fmt}:{res[0]}", res[1]


def b64(payload):
  return base64.b64encode(to_bytes("", payload)).decode("ascii")


def preview(payload, n=400):
  if isinstance(payload, (bytes, bytearray)):
    return f"{len(payload)} bytes: " + bytes(payload[:n]).hex()
  return payload if len(payload) <= n else payload[:n] + f"... ({len(payload)} chars)"


class Rec(Recorder):
  """keeps the SMALLEST witness per key"""

  def fail(self, key, contract, summary, input_=None, observed=None, required=None, replayer=None, replay_args=None):
    size = (replay_args or {}).get("size", 1 << 30)
    old = self.failures.get(key)
    if old is None or size < (old.get("replay_args") or {}).get("size", 1 << 30):
      n = old["count"] if old else 0
      self.failures[key] = {"key": key, "contract": contract, "summary": summary, "input": input_, "observed": observed, "required": required,
                            "replayer": replayer, "replay_args": replay_args, "count": n}
    self.failures[key]["count"] += 1

  def merge(self, other):
    mine = dict(self.failures)
    self.failures = {}
    super().merge(other)
    for k, v in mine.items():
      o = self.failures.get(k)
      if o is None:
        self.failures[k] = v
      else:
        n = o["count"] + v["count"]
        best = v if (v.get("replay_args") or {}).get("size", 1 << 30) <= (o.get("replay_args") or {}).get("size", 1 << 30) else o
        best = dict(best)
        best["count"] = n
        self.failures[k] = best


def new_rec():
  return Rec("C18", "documented outcome only", {})


REQUIRED_READ = "a document | None after a FATAL log record | ParseError / ValueError / struct.error / UnicodeDecodeError, within the time limit"
REQUIRED_DOWN = "no exception (every document a reader returns can be snapshotted, filtered and written under every configuration)"


def _fail(rec, key, contract, fmt, payload, rcfg, stage, scfg, fcfg, detail, origin):
  args = {"fmt": fmt, "data_b64": b64(payload), "binary": isinstance(payload, (bytes, bytearray)), "reader_cfg": rcfg, "stage": stage,
          "stage_cfg": scfg, "filter_cfg": fcfg, "key": key, "size": len(payload), "origin": origin}
  rec.fail(key, contract, f"{stage} of a {fmt} input ({origin}): {detail}", {"format": fmt, "input": preview(payload), "reader_cfg": rcfg,
                                                                              "stage_cfg": scfg, "filter_cfg": fcfg},
           detail, REQUIRED_READ if stage == "read" else REQUIRED_DOWN, REPLAYER, args)


def evaluate(rec, fmt, payload, rcfg, index, origin, full=False):
  """one input through the whole pipeline"""
  fp = zlib.crc32(to_bytes(fmt, payload) + repr(rcfg).encode())
  sample = {"format": fmt, "origin": origin, "input": preview(payload, 160)}
  outcome, doc, detail = read_stage(fmt, payload, rcfg)
  c_read = f"read:{fmt} documented outcome only"
  rec.evaluated(c_read, fp, sample)
  STATS[(fmt, outcome if outcome in ("doc", "none", "rejected") else "FAIL")] = STATS.get((fmt, outcome if outcome in ("doc", "none", "rejected") else "FAIL"), 0) + 1
  if outcome not in ("doc", "none", "rejected"):
    _fail(rec, f"read:{fmt}:{outcome}", c_read, fmt, payload, rcfg, "read", None, None, detail, origin)
    return
  if doc is None:
    return
  plan = plan_for(index, full)
  steps = [("isd", None)] + [("write-imsc", c) for c in plan["imsc"]] + [("write-srt", c) for c in plan["srt"]] + [("write-vtt", c) for c in plan["vtt"]]
  for stage, scfg in steps:
    contract = f"{stage}:{fmt} no exception"
    rec.evaluated(contract, (fp, json.dumps(scfg, sort_keys=True)), None)
    res = run_stage(stage, doc, scfg)
    if res is not None:
      # confirm on a fresh document (the stages share one document object)
      key, det = single_stage(fmt, payload, rcfg, stage, scfg)
      if key is None:
        key, det = f"{stage}:{fmt}:only-after-other-stages:{res[0]}", res[1]
      _fail(rec, key, contract, fmt, payload, rcfg, stage, scfg, None, det, origin)
  for fcfg in plan["lcd"]:
    outcome2, doc2, _ = read_stage(fmt, payload, rcfg)
    if doc2 is None:
      _fail(rec, f"read:{fmt}:not-deterministic", c_read, fmt, payload, rcfg, "read", None, None, f"first call: a document, second call on the same input: {outcome2}", origin)
      return
    contract = f"filter:{fmt} no exception"
    rec.evaluated(contract, (fp, json.dumps(fcfg, sort_keys=True)), None)
    res = run_stage("filter", doc2, fcfg)
    if res is not None:
      _fail(rec, f"filter:{fmt}:{res[0]}", contract, fmt, payload, rcfg, "filter", fcfg, fcfg, res[1], origin)
      continue
    post = [("filter+isd", None), ("filter+write-imsc", plan["imsc"][0]), ("filter+write-srt", plan["srt"][0]), ("filter+write-vtt", plan["vtt"][0])]
    if not full:
      post = [post[0], post[1 + index % 3]]
    for stage, scfg in post:
      contract = f"{stage}:{fmt} no exception"
      rec.evaluated(contract, (fp, json.dumps([fcfg, scfg], sort_keys=True)), None)
      res = run_stage(stage, doc2, scfg)
      if res is not None:
        _fail(rec, f"{stage}:{fmt}:{res[0]}", contract, fmt, payload, rcfg, stage, scfg, fcfg, res[1], origin)


STATS = {}

# ---------------------------------------------------------------------------------------------------------------------
# corpus

_CORPUS = None


def corpus():
  """{fmt: [(name, payload)]} -- bundled test resources; large files are cut to a window when used as mutation seeds"""
  global _CORPUS
  if _CORPUS is not None:
    return _CORPUS
  out = {f: [] for f in FORMATS}
  roots = [os.path.join(os.environ.get("TTCONV_REPO", "/repo"), "src", "test", "resources"), "/repo/src/test/resources"]
  root = next((p for p in roots if os.path.isdir(p)), None)
  if root:
    for dp, dn, fns in os.walk(root):
      dn.sort()
      for fn in sorted(fns):
        ext = fn.rsplit(".", 1)[-1].lower()
        fmt = {"ttml": "ttml", "xml": "ttml", "scc": "scc", "stl": "stl", "srt": "srt", "vtt": "vtt"}.get(ext)
        if fmt is None:
          continue
        data = open(os.path.join(dp, fn), "rb").read()
        rel = os.path.relpath(os.path.join(dp, fn), root)
        if fmt == "stl":
          out[fmt].append((rel, data))
        else:
          out[fmt].append((rel, data.decode("utf-8", "replace")))
  _CORPUS = out
  return out


def window(r, fmt, payload):
  """a small seed cut out of a corpus file (whole blocks), so that the downstream stages stay cheap"""
  if fmt == "stl":
    gsi, blocks = payload[:1024], [payload[i:i + 128] for i in range(1024, len(payload), 128)]
    if len(blocks) > 6:
      i = r.randrange(0, len(blocks) - 5)
      blocks = blocks[i:i + 6]
    return gsi + b"".join(blocks)
  if fmt == "scc":
    lines = payload.split("\n")
    body = [ln for ln in lines[1:] if ln.strip()]
    if len(body) > 6:
      i = r.randrange(0, len(body) - 5)
      body = body[i:i + 6]
    return lines[0] + "\n\n" + "\n\n".join(body) + "\n"
  if fmt == "vtt" and len(payload) > 1500:
    blocks = re.split(r"(?:\r\n|\n|\r){2,}", payload)
    head, rest = blocks[0], blocks[1:]
    if len(rest) > 6:
      i = r.randrange(0, len(rest) - 5)
      rest = rest[i:i + 6]
    return "\n\n".join([head] + rest) + "\n"
  return payload


# ---------------------------------------------------------------------------------------------------------------------
# mutators: text

_TOKEN_RE = re.compile(r"\r\n|\n|\r|[ \t]+|-->|\d+|[A-Za-z_]+|</?[A-Za-z][^<>\n]{0,40}>|\{/?[a-z]{1,9}\}|&[#\w]{1,10};|.", re.S)
CHARS = ["\x00", "\t", "\n", "\r", "\x0b", "\x0c", "\x1c", "\x1d", "\x1e", "\x85", "\u2028", "\u2029", "\ufeff", " ", "<", ">", "&", ";", ":", ",", ".",
         "-", "/", "{", "}", "\"", "'", "=", "#", "%", "0", "9", "a", "Z", "é", "日", "\U0001F600", "\u0301", "\u200f", "\\"]
NUMBERS = ["0", "00", "000", "1", "01", "9", "23", "24", "29", "30", "59", "60", "61", "99", "100", "999", "1000", "0000", "-1", "", "9999999999",
           "1.5", "\u0663"]
DICT = {
  "srt": ["-->", "->", "<b>", "</b>", "<i>", "</i>", "<u>", "</u>", "<font>", "<font color>", "<font color=\"\">", "<font color=\"zzz\">", "<font color=\"#12\">",
          "<font color=\"rgb(300,0,0)\">", "<font size=\"3\">", "</font>", "{b}", "{/b}", "{i}", "{u}", "{/u}", "{bold}", "{/italic}", "<", ">", "<>", "</>", "<!--",
          "-->", "<![CDATA[", "]]>", "<![x[", "<?", "<!DOCTYPE", "&amp;", "&#0;", "&#x110000;", "&", "<br>", "<br/>", "<ruby>", "<rt>", "\n", "\n\n", "\r\n", "1", "00:00:01,000",
          "00:00:01,000 --> 00:00:02,000", "00:00:02,000 --> 00:00:01,000", "00:00:01.000 --> 00:00:02.000", "0:0:1,0 --> 0:0:2,0", "999:59:59,999", "<b", "</b", "<font color=\"red\"",
          "<a href=\"x\">", "<B>", "<b/>", "< b>", "<b >"],
  "vtt": ["WEBVTT", "NOTE", "NOTE ", "STYLE", "REGION", "-->", "->", "<b>", "</b>", "<i>", "</i>", "<u>", "</u>", "<c>", "<c.red>", "<c.bg_red>", "<c.>", "<c..>", "</c>",
          "<v>", "<v >", "<v Fred>", "</v>", "<lang>", "<lang >", "<lang en>", "</lang>", "<ruby>", "</ruby>", "<rt>", "</rt>", "<rb>", "<rtc>", "<r>", "<rubyx>", "<>", "</>", "<",
          ">", "</", "<b", "<00:00:01.000>", "<00:00:00.000>", "<99:59:59.999>", "<00:01.000>", "<0>", "<00:00:01,000>", "&amp;", "&", "&;", "&#0;", "&#x110000;", "&lt",
          "\n", "\n\n", "\r\n", "\r", "00:00:01.000 --> 00:00:02.000", "00:00:02.000 --> 00:00:01.000", "00:01.000 --> 00:02.000", "1:00:00.000", "line:0", "line:-1", "line:1e9",
          "line:99999999999999999999", "line:50%,", "line:,center", "line:50%,middle", "position:", "position:101%", "position:50%,", "size:", "size:1000%", "align:", "align:middle",
          "vertical:", "vertical:xx", "region:", ":", "a:b:c", "line:0.5%", "size:.5%", "position:50.%", "<i.>", "<b.x>", "<c.white.bg_black>", "<ruby.x>", "<rt.x>", "<RUBY>", "<RT>"],
  "scc": ["Scenarist_SCC V1.0", "Scenarist_SCC V2.0", "00:00:00:00", "00:00:00;00", "00:00:00:30", "00:00:60:00", "23:59:59:29", "24:00:00:00", "99:99:99:99", "0:0:0:0",
          "00:00:00", "00:00:00:00:00", "-1:00:00:00", "00:00:00.00", "\t", " ", "\n", "\n\n", "9420", "94ae", "942f", "942c", "9425", "9426", "94a7", "9429", "94ad", "94a1", "94a4",
          "94a8", "942a", "94ab", "97a1", "97a2", "9723", "1c20", "1c2f", "1c21", "1ca1", "1f21", "9140", "91d0", "9170", "13d0", "1040", "9120", "91ae", "912f", "91b0", "91b9", "9220",
          "923f", "1320", "133f", "8080", "0000", "ffff", "7f7f", "2020", "c180", "80c1", "1020", "102f", "172d", "172e", "172f", "97ad", "94", "942", "94200", "zzzz", "94 20", "9420,"],
}
DICT["ttml"] = ["<p>", "</p>", "<span>", "</span>", "<br/>", "<div>", "</div>", "<body>", "<set/>", "<!--", "-->", "<![CDATA[", "]]>", "<?xml?>", "&amp;", "&", "<", ">", "\"", "'",
                "xmlns=\"\"", "xmlns:tts=\"x\"", "tts:ruby=\"text\"", "begin=\"1s\"", "timeContainer=\"seq\"", "<!DOCTYPE tt [<!ENTITY a \"b\">]>", "&a;"]


def tokens(text):
  return _TOKEN_RE.findall(text)


def mutate_text(r, fmt, text):
  """one structure-aware mutation of a text file -> (text, name)"""
  toks = tokens(text)
  lines = text.splitlines(True)
  ops = ["truncate", "truncate-token", "truncate-line", "del-token", "dup-token", "swap-token", "swap-adjacent", "del-line", "dup-line", "swap-line", "del-span",
         "number", "dict-replace", "dict-insert", "char-replace", "char-insert", "char-delete", "eol", "case", "repeat-token"]
  if fmt == "scc":
    ops += ["scc-word", "scc-word", "scc-word", "scc-tc", "scc-insert-word", "scc-insert-word"]
  op = r.choice(ops)
  if not text:
    return r.choice(DICT[fmt]), "dict-insert"
  if op == "truncate":
    return text[:r.randrange(0, len(text))], op
  if op == "truncate-token" and toks:
    return "".join(toks[:r.randrange(0, len(toks))]), op
  if op == "truncate-line" and lines:
    k = r.randrange(0, len(lines))
    return "".join(lines[:k]) + (lines[k].rstrip("\r\n") if r.random() < 0.5 else ""), op
  if op in ("del-token", "dup-token", "repeat-token") and toks:
    i = r.randrange(len(toks))
    if op == "del-token":
      del toks[i]
    elif op == "dup-token":
      toks.insert(i, toks[i])
    else:
      toks[i] = toks[i] * r.choice([3, 10, 50, 400])
    return "".join(toks), op
  if op in ("swap-token", "swap-adjacent") and len(toks) > 1:
    i = r.randrange(len(toks) - 1)
    j = i + 1 if op == "swap-adjacent" else r.randrange(len(toks))
    toks[i], toks[j] = toks[j], toks[i]
    return "".join(toks), op
  if op == "del-span" and len(toks) > 2:
    i = r.randrange(len(toks))
    j = min(len(toks), i + r.choice([2, 3, 5, 10]))
    return "".join(toks[:i] + toks[j:]), op
  if op in ("del-line", "dup-line") and lines:
    i = r.randrange(len(lines))
    if op == "del-line":
      del lines[i]
    else:
      lines.insert(i, lines[i])
    return "".join(lines), op
  if op == "swap-line" and len(lines) > 1:
    i, j = r.randrange(len(lines)), r.randrange(len(lines))
    lines[i], lines[j] = lines[j], lines[i]
    return "".join(lines), op
  if op == "number":
    idx = [i for i, t in enumerate(toks) if t.isdigit()]
    if idx:
      i = r.choice(idx)
      k = r.random()
      if k < 0.5:
        toks[i] = r.choice(NUMBERS)
      elif k < 0.75:
        toks[i] = str(max(0, int(toks[i]) + r.choice([-1, 1]))).zfill(len(toks[i]))
      else:
        toks[i] = r.choice(["0", "9"]) * len(toks[i])
      return "".join(toks), op
  if op == "dict-replace" and toks:
    toks[r.randrange(len(toks))] = r.choice(DICT[fmt])
    return "".join(toks), op
  if op == "dict-insert":
    toks.insert(r.randrange(len(toks) + 1), r.choice(DICT[fmt]))
    return "".join(toks), op
  if op == "char-replace":
    i = r.randrange(len(text))
    return text[:i] + (r.choice(CHARS) if r.random() < 0.7 else chr(r.choice([r.randrange(0x20, 0x7F), r.randrange(0, 0x20), r.randrange(0x80, 0x3000)]))) + text[i + 1:], op
  if op == "char-insert":
    i = r.randrange(len(text) + 1)
    return text[:i] + r.choice(CHARS) + text[i:], op
  if op == "char-delete":
    i = r.randrange(len(text))
    return text[:i] + text[i + 1:], op
  if op == "eol":
    return re.sub(r"\r\n|\n|\r", r.choice(["\r\n", "\r", "\n", "\n\n", "\x0b", "\u2028", " \n", "\n "]), text), op
  if op == "case" and toks:
    i = r.randrange(len(toks))
    toks[i] = toks[i].swapcase()
    return "".join(toks), op
  if op == "scc-word":
    idx = [i for i, t in enumerate(re.split(r"(\s+)", text)) if re.fullmatch(r"[0-9a-fA-F]{4}", t)]
    parts = re.split(r"(\s+)", text)
    if idx:
      i = r.choice(idx)
      k = r.random()
      parts[i] = r.choice(DICT["scc"][28:]) if k < 0.5 else f"{r.randrange(0, 65536):04x}" if k < 0.8 else F.scc_word(r.choice([0x10, 0x11, 0x12, 0x13, 0x14, 0x15, 0x16, 0x17, 0x18, 0x1c, 0x1f]), r.randrange(0x20, 0x80))
      return "".join(parts), op
  if op == "scc-insert-word":
    parts = re.split(r"(\s+)", text)
    idx = [i for i, t in enumerate(parts) if re.fullmatch(r"[0-9a-fA-F]{4}", t)]
    if idx:
      i = r.choice(idx)
      w = r.choice(DICT["scc"][28:60])
      parts[i] = (w + " " + w + " " + parts[i]) if r.random() < 0.6 else (w + " " + parts[i])
      return "".join(parts), op
  if op == "scc-tc":
    ms = list(re.finditer(r"^\S+", text, re.M))
    if ms:
      m = r.choice(ms)
      return text[:m.start()] + r.choice(DICT["scc"][2:16]) + text[m.end():], op
  # the chosen operator does not apply to this text: fall back to one that always does
  i = r.randrange(len(text))
  return text[:i] + r.choice(DICT[fmt]) + text[i:], "dict-insert"


# ---------------------------------------------------------------------------------------------------------------------
# mutators: TTML trees

TTML_TAGS = ["tt", "head", "body", "div", "p", "span", "br", "set", "region", "style", "styling", "layout", "initial", "metadata", "animate", "image", "foo:bar"]
STRUCT_ATTRS = {
  "begin": ["0s", "1s", "00:00:01", "00:00:01.5", "00:00:01:12", "10f", "5t", "100ms", "0.0004s", "1h"],
  "end": ["0s", "2s", "00:00:02", "00:00:02:00", "20f", "1.0001s", "2h", "0.0008s"],
  "dur": ["0s", "1s", "0.0001s", "00:00:01", "1f", "10t"],
  "timeContainer": ["par", "seq"],
  "region": ["r1", "r2", "nosuch"],
  "style": ["s1", "s2", "s1 s2", "nosuch", "s1 s1"],
  "xml:space": ["default", "preserve"],
  "xml:lang": ["en", "", "fr"],
  "xml:id": ["r1", "s1", "x", "p1"],
  "tts:ruby": ["container", "base", "baseContainer", "text", "textContainer", "delimiter", "none"],
  "condition": ["true"],
}


def x_from_et(elem):
  """ElementTree element -> specs.formats.X (prefixed names)"""
  back = {v: k for k, v in F.NS.items()}
  back["http://www.w3.org/XML/1998/namespace"] = "xml"

  def name(qn):
    if qn.startswith("{"):
      uri, local = qn[1:].split("}")
      p = back.get(uri)
      if p is None:
        return "foo:" + local
      return local if p == "" else f"{p}:{local}"
    return qn

  def conv(e):
    if not isinstance(e.tag, str):
      return None
    x = F.X(name(e.tag), [(name(k), v) for k, v in e.attrib.items()])
    if e.text:
      x.children.append(e.text)
    for c in e:
      cx = conv(c)
      if cx is not None:
        x.children.append(cx)
      if c.tail:
        x.children.append(c.tail)
    return x
  return conv(elem)


def _mut_value(r, name, value):
  k = r.random()
  if k < 0.4:
    return r.choice(F.BOUNDARY_VALUES)
  if k < 0.55:
    other = r.choice(F.STYLE_NAMES + sorted(STRUCT_ATTRS) + sorted(F.ROOT_PARAMS))
    pool = F.STYLE_VALUES.get(other) or STRUCT_ATTRS.get(other) or F.ROOT_PARAMS.get(other)
    return r.choice(pool)
  if k < 0.65:
    pool = F.STYLE_VALUES.get(name) or STRUCT_ATTRS.get(name) or F.ROOT_PARAMS.get(name)
    if pool:
      return r.choice(pool)
  parts = re.findall(r"\d+|[^\d]+", value)
  idx = [i for i, p in enumerate(parts) if p.isdigit()]
  if idx and k < 0.85:
    i = r.choice(idx)
    parts[i] = r.choice(NUMBERS)
    return "".join(parts)
  comps = value.split(" ")
  k2 = r.random()
  if k2 < 0.25 and len(comps) > 1:
    del comps[r.randrange(len(comps))]
    return " ".join(comps)
  if k2 < 0.5:
    comps.insert(r.randrange(len(comps) + 1), r.choice(comps + ["1px", "10%", "red", "auto", "x"]))
    return " ".join(comps)
  if k2 < 0.6:
    return value.upper()
  if k2 < 0.7:
    return " " + value + "  "
  if k2 < 0.8:
    return value + r.choice(["x", "%", "px", " ", ",", ";", "\"", ".", "e5"])
  if k2 < 0.9 and value:
    i = r.randrange(len(value))
    return value[:i] + value[i + 1:]
  return value.replace(" ", r.choice(["  ", "\t", ",", ""]))


def mutate_tree(r, root):
  """one structure-aware mutation of a TTML tree (in place on a copy) -> (tree, name)"""
  root = root.copy()
  els = root.elements()
  pm = root.parent_map()
  ops = ["attr-value", "attr-value", "attr-value", "attr-value", "attr-delete", "attr-add", "attr-add", "attr-rename", "attr-copy", "el-delete", "el-dup", "el-swap", "el-move",
         "el-rename", "el-wrap", "el-unwrap", "text-change", "text-insert", "ruby-attr", "el-empty", "deep"]
  op = r.choice(ops)
  e = r.choice(els)
  with_attrs = [x for x in els if x.attrs]
  if op == "attr-value" and with_attrs:
    e = r.choice(with_attrs)
    i = r.randrange(len(e.attrs))
    e.attrs[i] = (e.attrs[i][0], _mut_value(r, *e.attrs[i]))
  elif op == "attr-delete" and with_attrs:
    e = r.choice(with_attrs)
    del e.attrs[r.randrange(len(e.attrs))]
  elif op == "attr-add":
    name = r.choice(F.STYLE_NAMES + sorted(STRUCT_ATTRS) * 2 + sorted(F.ROOT_PARAMS))
    pool = F.STYLE_VALUES.get(name) or STRUCT_ATTRS.get(name) or F.ROOT_PARAMS.get(name)
    e.attrs = [(n, v) for n, v in e.attrs if n != name] + [(name, r.choice(pool) if r.random() < 0.6 else r.choice(F.BOUNDARY_VALUES))]
  elif op == "attr-rename" and with_attrs:
    e = r.choice(with_attrs)
    i = r.randrange(len(e.attrs))
    name = r.choice(F.STYLE_NAMES + sorted(STRUCT_ATTRS) + sorted(F.ROOT_PARAMS))
    e.attrs = [(n, v) for n, v in e.attrs if n != name or n == e.attrs[i][0]]
    i = min(i, len(e.attrs) - 1)
    e.attrs[i] = (name, e.attrs[i][1])
  elif op == "attr-copy" and with_attrs:
    src = r.choice(with_attrs)
    a = r.choice(src.attrs)
    e.attrs = [(n, v) for n, v in e.attrs if n != a[0]] + [a]
  elif op in ("el-delete", "el-dup", "el-swap", "el-move", "el-unwrap") and len(els) > 1:
    e = r.choice(els[1:])
    p = pm[id(e)]
    i = next(k for k, c in enumerate(p.children) if c is e)
    if op == "el-delete":
      del p.children[i]
    elif op == "el-dup":
      p.children.insert(i, e.copy())
    elif op == "el-swap":
      sib = [k for k, c in enumerate(p.children) if isinstance(c, F.X) and k != i]
      if sib:
        j = r.choice(sib)
        p.children[i], p.children[j] = p.children[j], p.children[i]
      else:
        p.children.insert(i, e.copy())
    elif op == "el-move":
      inside = {id(x) for x in e.elements()}
      targets = [x for x in els if id(x) not in inside]
      del p.children[i]
      t = r.choice(targets)
      t.children.insert(r.randrange(len(t.children) + 1), e)
    else:
      p.children[i:i + 1] = e.children
  elif op == "el-rename":
    e.tag = r.choice(TTML_TAGS)
  elif op == "el-wrap" and len(els) > 1:
    e = r.choice(els[1:])
    p = pm[id(e)]
    i = next(k for k, c in enumerate(p.children) if c is e)
    at = []
    if r.random() < 0.5:
      name = r.choice(sorted(STRUCT_ATTRS))
      at = [(name, r.choice(STRUCT_ATTRS[name]))]
    p.children[i] = F.X(r.choice(["span", "div", "p", "body", "span", "region", "set"]), at, [e])
  elif op == "text-change":
    cands = [(x, k) for x in els for k, c in enumerate(x.children) if isinstance(c, str)]
    if cands:
      x, k = r.choice(cands)
      x.children[k] = r.choice(F.TEXTS + ["", " ", "\n", "a" * 500])
    else:
      e.children.append(r.choice(F.TEXTS))
  elif op == "text-insert":
    e.children.insert(r.randrange(len(e.children) + 1), r.choice(F.TEXTS))
  elif op == "ruby-attr":
    spans = [x for x in els if x.tag == "span"] or [e]
    e = r.choice(spans)
    e.attrs = [(n, v) for n, v in e.attrs if n != "tts:ruby"] + [("tts:ruby", r.choice(STRUCT_ATTRS["tts:ruby"]))]
  elif op == "el-empty":
    e.children = []
  elif op == "deep":
    # nest an element into copies of its own start tag
    if len(els) > 1:
      e = r.choice(els[1:])
      p = pm[id(e)]
      i = next(k for k, c in enumerate(p.children) if c is e)
      inner = e
      for _ in range(r.choice([3, 10, 40])):
        inner = F.X(e.tag, list(e.attrs), [inner])
      p.children[i] = inner
  else:
    op = "attr-add"
    e.attrs = [(n, v) for n, v in e.attrs if n != "begin"] + [("begin", r.choice(F.BOUNDARY_VALUES))]
  return root, op


# ---------------------------------------------------------------------------------------------------------------------
# mutators: STL bytes

BYTE_EDGE = [0x00, 0x01, 0x0A, 0x0B, 0x1C, 0x1F, 0x20, 0x7F, 0x80, 0x85, 0x8A, 0x8F, 0x90, 0xC1, 0xC9, 0xCF, 0xFE, 0xFF]
TTI_EDGE = {
  "SGN": [0, 1, 255], "EBN": [0, 1, 0xEF, 0xF0, 0xFD, 0xFE, 0xFF], "CS": [0, 1, 2, 3, 4, 255], "VP": [0, 1, 2, 11, 22, 23, 24, 25, 98, 99, 100, 255],
  "JC": [0, 1, 2, 3, 4, 255], "CF": [0, 1, 2, 255],
}
TC_EDGE = [0, 1, 9, 10, 23, 24, 25, 29, 30, 49, 50, 59, 60, 99, 100, 255]


def mutate_stl(r, data):
  data = bytearray(data)
  nblocks = max(0, (len(data) - 1024 + 127) // 128)
  ops = ["gsi-field", "gsi-field", "gsi-field", "tti-field", "tti-field", "tti-field", "tti-tc", "tti-tc", "tf-byte", "tf-byte", "tf-fill", "block-del", "block-dup", "block-swap",
         "truncate", "truncate-block", "byte", "byte", "gsi-byte", "extend"]
  op = r.choice(ops)

  def boff(i):
    return 1024 + 128 * i

  if op == "gsi-field" and len(data) >= 1024:
    name, off, ln = r.choice([f for f in F.GSI_FIELDS if f[0] not in ("SPARE", "UDA") or r.random() < 0.2])
    k = r.random()
    if name in F.GSI_BOUNDARY and k < 0.6:
      v = r.choice(F.GSI_BOUNDARY[name])
    elif k < 0.75:
      v = bytes(r.choice(b"0123456789") for _ in range(ln))
    elif k < 0.85:
      v = b" " * ln
    else:
      v = bytes(r.choice(BYTE_EDGE) for _ in range(ln))
    v = (v + b" " * ln)[:ln]
    data[off:off + ln] = v
  elif op == "tti-field" and nblocks:
    b = boff(r.randrange(nblocks))
    name = r.choice(["SGN", "SN", "EBN", "EBN", "CS", "CS", "VP", "VP", "JC", "CF"])
    off = {n: o for n, o, _ in F.TTI_FIELDS}[name]
    if b + off + 2 <= len(data):
      if name == "SN":
        data[b + off:b + off + 2] = r.choice([0, 1, 255, 256, 65535, 500]).to_bytes(2, "little")
      else:
        data[b + off] = r.choice(TTI_EDGE[name])
  elif op == "tti-tc" and nblocks:
    b = boff(r.randrange(nblocks))
    off = r.choice([5, 9]) + r.randrange(4)
    if b + off < len(data):
      data[b + off] = r.choice(TC_EDGE)
  elif op == "tf-byte" and nblocks:
    b = boff(r.randrange(nblocks))
    k = r.random()
    pos = b + 16 + (r.randrange(0, 12) if k < 0.6 else r.randrange(0, 112))
    if pos < len(data):
      if r.random() < 0.5:
        data[pos] = r.choice(BYTE_EDGE + list(range(0x00, 0x20)) + list(range(0x80, 0xA0)))
      else:
        ins = bytes([r.choice(BYTE_EDGE + list(range(0x00, 0x20)) + list(range(0x80, 0xA0)))])
        end = min(len(data), b + 128)
        data[pos:end] = (ins + bytes(data[pos:end]))[:end - pos]
  elif op == "tf-fill" and nblocks:
    b = boff(r.randrange(nblocks))
    end = min(len(data), b + 128)
    fill = r.choice([b"\x8f", b"\x8a", b" ", b"A", b"\x00", b"\xc2", b"\x0b", b"\x1c\x07", b"\x80"])
    data[b + 16:end] = (fill * 112)[:max(0, end - b - 16)]
  elif op in ("block-del", "block-dup", "block-swap") and nblocks:
    blocks = [bytes(data[boff(i):boff(i) + 128]) for i in range(nblocks)]
    i = r.randrange(nblocks)
    if op == "block-del":
      del blocks[i]
    elif op == "block-dup":
      blocks.insert(i, blocks[i])
    else:
      j = r.randrange(nblocks)
      blocks[i], blocks[j] = blocks[j], blocks[i]
    data = bytearray(bytes(data[:1024]) + b"".join(blocks))
  elif op == "truncate":
    data = data[:r.choice([0, 1, 3, 11, 255, 256, 1023, 1024, 1025, 1039, 1040, 1041, 1151, r.randrange(0, len(data) + 1)])]
  elif op == "truncate-block" and nblocks:
    data = data[:boff(r.randrange(nblocks)) + r.choice([0, 1, 5, 13, 16, 17, 127])]
  elif op == "gsi-byte" and len(data) >= 1024:
    data[r.randrange(0, 448)] = r.choice(BYTE_EDGE + [r.randrange(256)])
  elif op == "extend":
    data += bytes(r.choice(BYTE_EDGE) for _ in range(r.choice([1, 16, 127, 128, 129])))
  elif data:
    data[r.randrange(len(data))] = r.randrange(256)
    op = "byte"
  else:
    data = bytearray(F.gsi_block())
    op = "gsi-only"
  return bytes(data), op


# ---------------------------------------------------------------------------------------------------------------------
# input families

HANDMADE = {
  "ttml": ["", "<tt/>", "<tt xmlns=\"http://www.w3.org/ns/ttml\"/>", "<tt xmlns=\"http://www.w3.org/ns/ttml\"><body/></tt>", "<a/>",
           "<tt xmlns=\"http://www.w3.org/ns/ttml\"><head/><head/><body/><body/></tt>",
           "<tt xmlns=\"http://www.w3.org/ns/ttml\"><body><div><p>" + "<span>" * 60 + "x" + "</span>" * 60 + "</p></div></body></tt>",
           "<tt xmlns=\"http://www.w3.org/ns/ttml\"><body>" + "<div>" * 120 + "<p>x</p>" + "</div>" * 120 + "</body></tt>",
           "<tt xmlns=\"http://www.w3.org/ns/ttml\"><body><div><p>" + "<span>" * 400 + "x" + "</span>" * 400 + "</p></div></body></tt>",
           "\ufeff<tt xmlns=\"http://www.w3.org/ns/ttml\"/>", "<?xml version=\"1.0\" encoding=\"utf-16\"?><tt xmlns=\"http://www.w3.org/ns/ttml\"/>"],
  "srt": ["", "\n", "1", "1\n", "1\n00:00:01,000 --> 00:00:02,000", "1\n00:00:01,000 --> 00:00:02,000\n", "1\n00:00:01,000 --> 00:00:02,000\n\n", "x\n",
          "1\n00:00:01,000 --> 00:00:02,000\n" + "<b>" * 1100 + "x\n", "1\n00:00:01,000 --> 00:00:02,000\n" + "<b>" * 60 + "x" + "</b>" * 60 + "\n",
          "1\n00:00:02,000 --> 00:00:01,000\nx\n", "1\n00:00:01,000 --> 00:00:01,000\nx\n", "\ufeff1\n00:00:01,000 --> 00:00:02,000\nx\n"],
  "vtt": ["", "\n", "WEBVTT", "WEBVTT\n", "WEBVTT\n\n", "x", "\ufeffWEBVTT\n\n00:01.000 --> 00:02.000\nx\n", "WEBVTT\n\n00:01.000 --> 00:02.000", "WEBVTT\n\n00:01.000 --> 00:02.000\n",
          "WEBVTT\n\n00:02.000 --> 00:01.000\nx\n", "WEBVTT\n\n00:01.000 --> 00:01.000\nx\n", "WEBVTT\n\n00:01.000 --> 00:02.000\n" + "<b>" * 1100 + "x\n",
          "WEBVTT\n\n00:01.000 --> 00:02.000\n" + "<b>" * 60 + "x" + "</b>" * 60 + "\n", "WEBVTT\n\n00:01.000 --> 00:02.000\n<rt>x\n", "WEBVTT\n\nNOTE", "WEBVTT\n\nSTYLE\n"],
  "scc": ["", "\n", "Scenarist_SCC V1.0", "Scenarist_SCC V1.0\n\n", "x", "00:00:00:00\t9420", "Scenarist_SCC V1.0\n\n00:00:00:00\t", "Scenarist_SCC V1.0\n\n00:00:00:00",
          "Scenarist_SCC V1.0\n\n00:00:00:00\t94a1 94a1", "Scenarist_SCC V1.0\n\n00:00:00:00\t97a1 97a1", "Scenarist_SCC V1.0\n\n00:00:00:00\tc1c2", "Scenarist_SCC V1.0\n\n00:00:00:00\t942f 942f",
          "Scenarist_SCC V1.0\n\n00:00:00:00\t942c 942c", "Scenarist_SCC V1.0\n\n00:00:00:00\t94ad 94ad", "Scenarist_SCC V1.0\n\n00:00:00:00\t9140 9140 c1c2", "Scenarist_SCC V1.0\n\n00:00:00:00\t91ae 91ae",
          "Scenarist_SCC V1.0\n\n00:00:00:00\t91b0 91b0", "Scenarist_SCC V1.0\n\n00:00:00:00\t9220 9220", "Scenarist_SCC V1.0\n\n00:00:00:00\t94a4 94a4", "Scenarist_SCC V1.0\n\n00:00:00:00\t1020 1020"],
  "stl": [b"", b"\x00", b" " * 1023, b" " * 1024, b"\x00" * 1024, F.gsi_block(), F.gsi_block() + b"\x00" * 128, F.gsi_block() + b"\xff" * 128, F.gsi_block(TNB=b"00000", TNS=b"00000") + F.tti_block(tf=b"x"),
          F.gsi_block() + F.tti_block(tf=b"x")[:64], F.gsi_block() + F.tti_block(cs=2, tf=b"x"), F.gsi_block() + F.tti_block(cs=3, tf=b"x"), F.gsi_block() + F.tti_block(ebn=0, tf=b"x"),
          F.gsi_block() + F.tti_block(ebn=0xFE, tf=b"x"), F.gsi_block(DSC=b"0") + F.tti_block(tf=b"x"), F.gsi_block(DSC=b" ") + F.tti_block(tf=b"x"), F.gsi_block(DFC=b"STL00.01") + F.tti_block(tf=b"x"),
          F.gsi_block() + F.tti_block(tf=b""), F.gsi_block() + F.tti_block(tf=b"\x8a"), F.gsi_block() + F.tti_block(tf=b"A" * 112), F.gsi_block() + F.tti_block(tci=b"\xff\xff\xff\xff", tf=b"x"),
          F.gsi_block() + F.tti_block(tci=b"\0\0\2\0", tco=b"\0\0\1\0", tf=b"x"), F.gsi_block(CCT=b"99") + F.tti_block(tf=b"x"), F.gsi_block(CPN=b"000") + F.tti_block(tf=b"x")],
}


_T = '<tt xmlns="http://www.w3.org/ns/ttml" xmlns:tts="http://www.w3.org/ns/ttml#styling" xmlns:ttp="http://www.w3.org/ns/ttml#parameter">'
_CUE = "WEBVTT\n\n00:00:01.000 --> 00:00:02.000\n"
# one small input per shape that has been seen to fail (keeps the quick tier's verdict per defect independent of the seed)
DIRECTED = {
  "ttml": [
    _T + '<body><div><p begin="0s" end="3s"><span tts:ruby="container"><span tts:ruby="baseContainer"><span tts:ruby="base">x</span></span><span tts:ruby="textContainer">'
         '<span tts:ruby="delimiter">(</span><span tts:ruby="text" end="1s">y</span><span tts:ruby="delimiter">)</span></span></span></p></div></body></tt>',
    _T + '<head><layout><region xml:id="r1"/><region xml:id="r2"/></layout></head><body><div><p><span tts:ruby="container"><span tts:ruby="baseContainer"><span tts:ruby="base">x</span>'
         '</span><span tts:ruby="textContainer"><span>)</span></span></span></p></div></body></tt>',
    _T + '<body><div><p><span tts:ruby="container"><span tts:ruby="base">x</span><span tts:ruby="text" begin="1s">y</span></span></p></div></body></tt>',
    _T + '<body><div><p begin="1.0001s" end="1.0004s">x</p></div></body></tt>',
    _T + '<body><div><p begin="1s" end="1s">x</p><p begin="2s" end="1s">y</p></div></body></tt>',
    _T + '<body><div timeContainer="seq"><p>x</p><p>y</p></div></body></tt>',
    _T + '<body><div><p>a<br tts:padding="1c" tts:textOutline="5%" tts:rubyReserve="both"/>b</p></div></body></tt>',
    _T + '<body><div><p tts:textShadow="none" tts:textEmphasis="none" tts:rubyReserve="none">x</p></div></body></tt>',
    _T + '<head><layout><region xml:id="r1" tts:position="center"/><region xml:id="r2" tts:position="top left" tts:extent="100px 50px"/></layout></head><body><div><p region="r1">x</p></div></body></tt>',
    _T + '<head><layout><region xml:id="r1"/><region xml:id="r2"/></layout></head><body><div><p region="r1">x</p><p region="r2">y</p></div></body></tt>',
    _T.replace(">", ' ttp:tickRate="0">') + '<body><div><p begin="10t">x</p></div></body></tt>',
    _T.replace(">", ' ttp:frameRate="0">') + '<body><div><p begin="10f">x</p></div></body></tt>',
    _T.replace(">", ' ttp:frameRateMultiplier="1000 0">') + '<body><div><p begin="10f">x</p></div></body></tt>',
    _T.replace(">", ' ttp:cellResolution="0 0">') + '<body><div><p tts:fontSize="1c">x</p></div></body></tt>',
    _T.replace(">", ' tts:extent="0px 0px">') + '<body><div><p tts:fontSize="10px">x</p></div></body></tt>',
    # reference graphs: loops of two and three styles, a self reference, a loop reached from a region and from a nested style, forward and unknown references
    _T + '<head><styling><style xml:id="a" style="b" tts:color="red"/><style xml:id="b" style="a" tts:fontWeight="bold"/></styling></head><body><div><p style="a">x</p></div></body></tt>',
    _T + '<head><styling><style xml:id="s1" style="s2"/><style xml:id="s2" style="s3" tts:color="red"/><style xml:id="s3" style="s1"/></styling></head><body style="s3"><div><p style="s1 s2">x</p></div></body></tt>',
    _T + '<head><styling><style xml:id="a" style="a a" tts:color="red"/></styling></head><body><div><p style="a">x<span style="a a">y</span></p></div></body></tt>',
    _T + '<head><styling><style xml:id="a" style="b"/><style xml:id="b" style="a c"/><style xml:id="c" style="zz b"/></styling><layout><region xml:id="r1" style="c"><style style="a"/></region></layout></head>'
         '<body><div><p region="r1">x<br style="b"/></p></div></body></tt>',
    _T + '<head><styling><style xml:id="a" style="later"/><style xml:id="later" style="missing" tts:color="red"/></styling></head><body><div><p style="a missing">x<set style="a" tts:color="blue"/></p></div></body></tt>',
    _T + '<body><div><p region="nowhere" style="nothing">x</p></div></body></tt>',
    _T + '<body><div><p begin="' + "39" * 180 + 's" end="' + "39" * 180 + '.5s">x<set begin="' + "7" * 320 + 'h" tts:color="red"/></p></div></body></tt>',
    _T.replace(">", ' ttp:frameRate="30">') + '<body><div><p begin="' + "8" * 320 + 'f">x</p></div></body></tt>',
    _T + '<body><set><div/></set><div><p><set><span>y</span></set>x</p></div></body></tt>',
    # reference chains far longer than the interpreter stack: forward, backward, and one reached from a region and an initial
    _T + '<head><styling>' + "".join(f'<style xml:id="s{i}" style="s{i + 1}" tts:color="red"/>' for i in range(3000)) + '<style xml:id="s3000"/></styling></head><body style="s0"><div><p>x</p></div></body></tt>',
    _T + '<head><styling><style xml:id="s0" tts:fontWeight="bold"/>' + "".join(f'<style xml:id="s{i + 1}" style="s{i}"/>' for i in range(3000)) + '</styling><layout><region xml:id="r1" style="s3000"/></layout></head>'
         '<body><div><p region="r1" style="s2999 s3000">x</p></div></body></tt>',
    _T + '<head><styling>' + "".join(f'<style xml:id="s{i}" style="s{(i + 1) % 2500} s{(i * 7) % 2500}"/>' for i in range(2500)) + '</styling></head><body><div><p style="s1">x</p></div></body></tt>',
  ],
  "srt": ["1\n00:00:01,000 --> 00:00:02,000\n" + "<x>" * 1500 + "y\n", "1\n00:00:01,000 --> 00:00:02,000\n" + "<font size=\"3\">" * 1500 + "y\n",
          "1\n00:00:01,000 --> 00:00:02,000\n" + "<x></x>" * 1500 + "<b>" * 1500 + "y\n", "1\n00:00:01,000 --> 00:00:02,000\n" + "<font>" * 800 + "<i>" * 800 + "y" + "</i>" * 800 + "\n",
          "1\n00:00:01,000 --> 00:00:02,000\n" + "{b}{i}{u}" * 600 + "y\n", "1\n00:00:01,000 --> 00:00:02,000\n" + "<b/>" * 1500 + "<x/>" * 1500 + "y\n",
          "1\n00:00:01,000 --> 00:00:02,000\n<font color>x</font>\n", "1\n00:00:01,000 --> 00:00:02,000\n<![ x\n", "1\n00:00:01,000 --> 00:00:02,000\na</b></b></b>b<i>c\n",
          "1\n00:00:01,000 --> 00:00:02,000\n\n2\n00:00:03,000 --> 00:00:04,000\n\n"],
  "vtt": [_CUE + "</b></b></b></b>\n", _CUE + "</b></b></b>x\n", _CUE + "</b>x\n", _CUE + "</b></b>x\n", _CUE + "</b><b>x\n", _CUE + "</b></b><b>x\n", _CUE + "</b><00:00:01.500>x\n", _CUE + "</b></b><00:00:01.500>x\n",
          _CUE + "<rrt></r><ruby><rt>\nx\n", _CUE + "<rt>x\n", _CUE + "<ruby><ruby>x\n", _CUE + "<b><ruby>x<rt>y</rt></ruby></b>\n", _CUE + "<ruby>a<b>b</b><rt>y</rt></ruby>\n",
          _CUE + "<ruby>a\nb<rt>y</rt></ruby>\n", _CUE + "<ruby>a<00:00:01.500>b<rt>y</rt></ruby>\n", _CUE + "<ruby>a<rt>y</rt></ruby>\n",
          "WEBVTT\n\n00:00:01.000 --> 00:00:02.000 size:" + "9" * 400 + "%\nx\n",
          "WEBVTT\n\n00:01.000 --> 00:20.000\n" + "".join(f"<00:{2 + k % 10:02d}.000>w" for k in range(1100)) + "\n",
          "WEBVTT\n\n00:01.000 --> 00:20.000\n" + "<b><i><u><c.red><lang en><v x>" * 200 + "x\n",
          "WEBVTT\n\n00:01.000 --> 00:20.000\n" + "<x>" * 1500 + "y\n", "WEBVTT\n\n00:01.000 --> 00:20.000\n" + "<x></x>" * 1500 + "<b>" * 1500 + "y\n",
          "WEBVTT\n\n00:01.000 --> 00:20.000\n" + "<ruby><rt>" * 800 + "y\n", "WEBVTT\n\n00:01.000 --> 00:20.000\n" + "<c>" * 1500 + "y" + "</c>" * 1500 + "\n",
          "WEBVTT\n\n00:00.040 --> " + "01" * 200 + ":00:00.000\nx\n", "WEBVTT\n\n" + "9" * 330 + ":00:00.000 --> " + "9" * 330 + ":00:00.001\nx\n", "WEBVTT\n\n00:00:01.000 --> 00:00:02.000\n\n00:00:03.000 --> 00:00:04.000\n\n"],
  "scc": [("Scenarist_SCC V1.0\n\n00:00:01:00\t9425 9425 94ad 94ad c1c2\n\n00:00:02:00\t942c 942c 1320 1320\n", None), ("Scenarist_SCC V1.0\n\n00:00:01:00\t9723 9723 c8e9\n", None),
          ("Scenarist_SCC V1.0\n\n00:00:01:00\t9429 9429 9723 9723 c8e9\n", None), ("Scenarist_SCC V1.0\n\n00:00:01:00\t94a1 94a1\n", None),
          ("Scenarist_SCC V1.0\n\n00:00:05:00\t9429 9429 94ec 94ec\n\n00:00:02:00\tc1c2 2080\n", None),
          # every miscellaneous / mid-row / attribute / tab code with no caption in each of the three modes, and again after an erase
          ("Scenarist_SCC V1.0\n\n00:00:01:00\t9429 9429 91ae 91ae 9120 9120 1020 1020 97a1 97a1 94a1 94a1 94ad 94ad 94a4 94a4 c1c2\n", None),
          ("Scenarist_SCC V1.0\n\n00:00:01:00\t9425 9425 91ae 91ae 9120 9120 1020 1020 97a1 97a1 94a1 94a1 94a4 94a4 c1c2\n", None),
          ("Scenarist_SCC V1.0\n\n00:00:01:00\t9420 9420 91ae 91ae 9120 9120 1020 1020 97a1 97a1 94a1 94a1 94a4 94a4 c1c2 942f 942f\n", None),
          ("Scenarist_SCC V1.0\n\n00:00:01:00\t9429 9429 9470 9470 c8e5 ecec ef80\n\n00:00:03:00\t942c 942c 91ae 91ae 9120 9120 1020 1020 97a2 97a2 94a1 94a1 c1c2\n", None),
          ("Scenarist_SCC V1.0\n\n00:00:01:00\t9425 9425 9470 9470 c8e5 ecec ef80\n\n00:00:03:00\t942c 942c 91ae 91ae 9120 9120 1020 1020 97a2 97a2 94a1 94a1 c1c2\n", None)],
  "stl": [(F.gsi_block(DSC=b"0", MNR=b"00") + F.tti_block(tf=b"x"), {"max_row_count": "MNR"}), (F.gsi_block(DSC=b" ", MNR=b"00") + F.tti_block(vp=1, tf=b"x"), {"max_row_count": "MNR"}),
          (F.gsi_block(TNB=b"00000") + F.tti_block(tf=b"x"), None), (F.gsi_block(TNB=b"     ") + F.tti_block(tf=b"x"), None),
          (F.gsi_block() + F.tti_block(cs=2, tf=b"x") + F.tti_block(sn=1, cs=3, tf=b"y"), None)],
}


def grammar_input(r, fmt, k):
  """-> (payload, tree or None, reader cfg, origin)"""
  if fmt == "ttml":
    tree = F.gen_ttml(r)
    return F.to_xml(tree), tree, None, "grammar"
  if fmt == "srt":
    if _c10 is not None and k % 3 == 2:
      return _c10.gen_file(r)[0], None, None, "grammar(c10)"
    return F.gen_srt(r), None, None, "grammar"
  if fmt == "vtt":
    if _c11 is not None and k % 3 == 2:
      return _c11.gen_file(r, r.choice([None, None] + list(_c11.SPECIALS))), None, None, "grammar(c11)"
    return F.gen_vtt(r), None, None, "grammar"
  if fmt == "scc":
    cfg = SCC_CFGS[k % len(SCC_CFGS)]
    if _c08 is not None and k % 3 == 2:
      try:
        return _c08.make_case(r.randrange(1 << 30), r.choice(_c08.FAMILIES), k, 2)[0], None, cfg, "grammar(c08)"
      except RuntimeError:
        pass
    return F.gen_scc(r), None, cfg, "grammar"
  if fmt == "stl":
    cfg = STL_CFGS[k % len(STL_CFGS)]
    if _c09 is not None and k % 3 == 2:
      data, _cfg, _tag = _c09.gen_file(r, True)
      if len(data) <= 1024 + 128 * 8:
        return data, None, cfg, "grammar(c09)"
    return F.gen_stl(r), None, cfg, "grammar"
  raise AssertionError(fmt)


def corpus_input(r, fmt, k):
  files = corpus()[fmt]
  if not files:
    return None
  name, payload = files[k % len(files)]
  payload = window(r, fmt, payload)
  tree = None
  if fmt == "ttml":
    try:
      tree = x_from_et(ET.fromstring(payload.encode("utf-8")))
    except ET.ParseError:
      tree = None
  cfg = SCC_CFGS[k % len(SCC_CFGS)] if fmt == "scc" else STL_CFGS[k % len(STL_CFGS)] if fmt == "stl" else None
  return payload, tree, cfg, f"corpus:{name}"


def mutated(r, fmt, payload, tree, n):
  """n structure-aware mutations -> (payload, [names])"""
  names = []
  for _ in range(n):
    if fmt == "stl":
      payload, nm = mutate_stl(r, payload)
    elif fmt == "ttml" and tree is not None and r.random() < 0.85:
      tree, nm = mutate_tree(r, tree)
      payload = F.to_xml(tree, declaration=r.random() < 0.8)
    else:
      payload, nm = mutate_text(r, fmt, payload)
      tree = None
    names.append(nm)
  return payload, names


def _ttml_doc(body="", head="", root_attrs=""):
  ns = " ".join(f'xmlns:{p}="{u}"' for p, u in sorted(F.NS.items()) if p and p != "foo")
  return f'<tt xmlns="{F.NS[""]}" {ns} xml:lang="en"{root_attrs}>{head}{body}</tt>'


def _q(v):
  from xml.sax.saxutils import quoteattr
  return quoteattr(v)


GRID_VALUES_QUICK = ["", "foo", "0", "-1", "1e9", "10%", "10% 10%", "1px", "1px 1px", "1px 1px 1px 1px 1px", "1c", "red", "none", "auto", "a b",
                     "16 0", "0 9", "0 1", "1 0", "1000 0", "0s", "1f", "1t", "00:00:01:00", "before 10%", "both 1em", "1em both", "left 10%", ",", "\"\""]
_N = "9" * 400                  # a number no float holds
GRID_VALUES_HUGE = [_N, _N + "px", _N + "px 10px", "10px " + _N + "px", _N + "%", _N + "% 10%", "10% " + _N + "%", _N + "c", _N + "em", _N + "rh " + _N + "rw",
                    _N + " 10", "10 " + _N, _N + " " + _N, "0." + "0" * 400 + "1px", "red " + _N + "px", _N + "px " + _N + "px red", "left " + _N + "px top 1px",
                    "rgba(" + _N + ",0,0,0)", "#" + "f" * 400, _N + "s", _N + "f", _N + "t", _N + "ms", _N + ":00:00", "00:00:" + _N, "00:00:00:" + _N, "00:00:00." + _N,
                    _N + "% " + _N + "% " + _N + "% " + _N + "%", "nan", "inf", "-inf", "1e999", "-1e999", "Infinity", "1_0", " 1 ", "1e-999", "nanpx", "infpx", "1e5px"]
GRID_VALUES_QUICK += GRID_VALUES_HUGE


def grid(fmt, quick=True):
  """deterministic families: every attribute x boundary value, every pair of markup tokens, every field x boundary value"""
  out = []
  if fmt == "ttml":
    values = GRID_VALUES_QUICK if quick else F.BOUNDARY_VALUES + GRID_VALUES_HUGE
    region = '<head><layout><region xml:id="r1" tts:extent="80% 20%" tts:origin="10% 70%"/></layout></head>'
    for name in F.STYLE_NAMES:
      pool = values + (F.STYLE_VALUES[name] if not quick else F.STYLE_VALUES[name][:3] + F.STYLE_VALUES[name][-2:])
      for i, v in enumerate(pool):
        where_ = i % 4
        if where_ == 0:
          doc = _ttml_doc(f'<body><div><p region="r1" {name}={_q(v)} begin="1s" end="2s">x<span>y</span></p></div></body>', region)
        elif where_ == 1:
          doc = _ttml_doc('<body><div><p region="r1" begin="1s" end="2s">x</p></div></body>',
                          f'<head><layout><region xml:id="r1" tts:extent="80% 20%" {name}={_q(v)}/></layout></head>' if name != "tts:extent" else
                          f'<head><layout><region xml:id="r1" {name}={_q(v)}/></layout></head>')
        elif where_ == 2:
          doc = _ttml_doc('<body><div><p region="r1" style="s1" begin="1s" end="2s">x<span style="s1">y</span></p></div></body>',
                          f'<head><styling><initial {name}={_q(v)}/><style xml:id="s1" {name}={_q(v)}/></styling><layout><region xml:id="r1"/></layout></head>')
        else:
          doc = _ttml_doc(f'<body><div><p region="r1" begin="1s" end="3s"><set begin="1s" {name}={_q(v)}/><span {name}={_q(v)}>y</span><br {name}={_q(v)}/></p></div></body>', region)
        out.append((doc, None, f"grid:{name}"))
    body = '<body><div><p begin="10f" end="00:00:02:00">a</p><p begin="1000t" dur="2s">b</p></div></body>'
    for name in sorted(F.ROOT_PARAMS):
      for v in values + F.ROOT_PARAMS[name]:
        out.append((_ttml_doc(body, "", f" {name}={_q(v)}" if name != "xml:lang" else "").replace(' xml:lang="en"', f" xml:lang={_q(v)}" if name == "xml:lang" else ' xml:lang="en"'),
                    None, f"grid:{name}"))
    tvals = [v for v in F.BOUNDARY_VALUES if re.search(r"\d", v)][:60] if not quick else ["", "foo", "0", "-1s", "1e3s", "0s", "1s", "0.0001s", "1.5f", "1t", "1.5t", "00:00:01", "00:00:01:99",
                                                                                            "99:99:99.999", "00:00:60", "1h", "1d", "10", "9999999999s", "00:00:01.0000001"]
    tvals = tvals + [v for v in GRID_VALUES_HUGE if v[-1] in "sft" or ":" in v]
    for name in ("begin", "end", "dur"):
      for v in tvals:
        for tc in ("", ' timeContainer="seq"', ' timeContainer="par"'):
          out.append((_ttml_doc(f'<body><div{tc}><p {name}={_q(v)}>x<span {name}={_q(v)}>y</span></p><p begin="1s" end="1.0004s">z</p></div></body>'), None, f"grid:{name}"))
    for v in ["par", "seq", "", "foo", "PAR"]:
      for el in ("body", "div", "p", "span", "region", "br"):
        body2 = {"body": f'<body timeContainer={_q(v)}><div><p>x</p></div><div><p>y</p></div></body>',
                 "div": f'<body><div timeContainer={_q(v)}><p>x</p><p>y</p><p dur="1s">z</p></div></body>',
                 "p": f'<body><div><p timeContainer={_q(v)}>x<span dur="1s">y</span><span>z</span><br/><span>w</span></p></div></body>',
                 "span": f'<body><div><p><span timeContainer={_q(v)}><span>y</span>t<span dur="1s">z</span></span></p></div></body>',
                 "region": '<body><div><p region="r1">x</p></div></body>',
                 "br": f'<body><div><p>x<br timeContainer={_q(v)}><set tts:color="red"/><set tts:color="blue"/></br></p></div></body>'}[el]
        head2 = f'<head><layout><region xml:id="r1" timeContainer={_q(v)}><set tts:color="red" dur="1s"/><set tts:color="blue"/></region></layout></head>' if el == "region" else ""
        out.append((_ttml_doc(body2, head2), None, "grid:timeContainer"))
    kinds = STRUCT_ATTRS["tts:ruby"]
    for a in kinds:
      for b in kinds:
        out.append((_ttml_doc(f'<body><div><p><span tts:ruby={_q(a)}><span tts:ruby={_q(b)}>x</span><span tts:ruby="text" begin="1s">y</span></span></p></div></body>'), None, "grid:ruby"))
        out.append((_ttml_doc(f'<body><div><p><span tts:ruby="container"><span tts:ruby={_q(a)}>x</span><span tts:ruby={_q(b)} end="1s">y</span></span></p></div></body>',
                              '<head><layout><region xml:id="r1"/><region xml:id="r2"/></layout></head>'), None, "grid:ruby"))
  elif fmt in ("vtt", "srt"):
    toks = {"vtt": ["x", "<b>", "</b>", "<i>", "<c.red>", "</c>", "<v A>", "<lang en>", "<lang>", "<ruby>", "</ruby>", "<rt>", "</rt>", "<00:00:01.500>", "<00:00:00.000>", "\n", "&amp;", "<",
                    "<rb>", "<u"],
            "srt": ["x", "<b>", "</b>", "<i>", "</i>", "<u>", "<font color=\"red\">", "<font color=\"zzz\">", "<font color>", "<font>", "</font>", "{b}", "{/b}", "\n", "&amp;", "<", "<![ ", "<!--",
                    "<?", "<b"]}[fmt]
    head = "WEBVTT\n\n00:00:01.000 --> 00:00:02.000\n" if fmt == "vtt" else "1\n00:00:01,000 --> 00:00:02,000\n"
    for a in toks:
      out.append((head + a + "\n", None, "grid:token"))
      for b in toks:
        out.append((head + a + b + "\n", None, "grid:token-pair"))
        if not quick:
          for c in toks:
            out.append((head + a + b + c + "\n", None, "grid:token-triple"))
    if fmt == "vtt":
      for st in DICT["vtt"]:
        if ":" in st and "-->" not in st and "<" not in st:
          out.append((f"WEBVTT\n\n00:00:01.000 --> 00:00:02.000 {st}\nx\n", None, "grid:setting"))
          out.append((f"WEBVTT\n\n00:00:01.000 --> 00:00:02.000 vertical:rl {st} size:50%\nx\n", None, "grid:setting"))
      for n in ("0", "-1", "100", "101", "1e3", "9" * 400, "0.5", ".5", "50.", "-0"):
        for key in ("line", "position", "size"):
          out.append((f"WEBVTT\n\n00:00:01.000 --> 00:00:02.000 {key}:{n}%\nx\n", None, "grid:setting-number"))
          out.append((f"WEBVTT\n\n00:00:01.000 --> 00:00:02.000 {key}:{n}\nx\n", None, "grid:setting-number"))
  elif fmt == "scc":
    modes = {"none": [], "pop": ["9420", "9420"], "roll": ["9425", "9425", "94ad", "94ad"], "paint": ["9429", "9429"], "roll-erased": ["9425", "9425", "94ad", "94ad", "c1c2", "942c", "942c"],
             "paint-erased": ["9429", "9429", "c1c2", "942c", "942c"], "pop-shown": ["9420", "9420", "9470", "9470", "c1c2", "942f", "942f"]}
    words = ["94a1", "97a1", "97a2", "9723", "1320", "9220", "91b0", "c1c2", "9470", "9140", "91ae", "1020", "942c", "94ae", "942f", "94ad", "94a4", "9425", "9429", "9420", "94a8", "942a", "94ab", "8080",
             "1ca1", "1c20"]
    for mname, pre in sorted(modes.items()):
      for i, w in enumerate(words):
        out.append(("Scenarist_SCC V1.0\n\n00:00:01:00\t" + " ".join(pre + [w, w, "c8e9"]) + "\n\n00:00:03:00\t942c 942c\n", SCC_CFGS[i % len(SCC_CFGS)], f"grid:{mname}"))
        if not quick or w in ("94a1", "97a2", "1320"):
          for w2 in words:
            out.append(("Scenarist_SCC V1.0\n\n00:00:01:00\t" + " ".join(pre + [w, w, w2, w2, "c8e9"]) + "\n", None, f"grid:{mname}-pair"))
    for tc in DICT["scc"][2:16]:
      out.append((f"Scenarist_SCC V1.0\n\n{tc}\t9420 9420 9470 9470 c1c2 942f 942f\n\n00:00:05:00\t942c 942c\n", None, "grid:timecode"))
  elif fmt == "stl":
    tti = F.tti_block(tf=b"Hello") + F.tti_block(sn=1, tci=b"\0\0\2\0", tco=b"\0\0\3\0", tf=b"World")
    for name in sorted(F.GSI_BOUNDARY):
      for v in F.GSI_BOUNDARY[name]:
        for cfg in (None, STL_CFGS[-1]):
          out.append((F.gsi_block(**{"TNB": b"00002", "TNS": b"00002", name: v}) + tti, cfg, f"grid:GSI.{name}"))
    off = {n: o for n, o, _ in F.TTI_FIELDS}
    for name, vals in sorted(TTI_EDGE.items()):
      for v in vals:
        for first in (True, False):
          b1, b2 = bytearray(tti[:128]), bytearray(tti[128:])
          (b1 if first else b2)[off[name]] = v
          out.append((F.gsi_block(TNB=b"00002", TNS=b"00002") + bytes(b1) + bytes(b2), None, f"grid:TTI.{name}"))
    for pos in range(5, 13):
      for v in TC_EDGE:
        b1 = bytearray(tti[:128])
        b1[pos] = v
        out.append((F.gsi_block() + bytes(b1), None, "grid:TTI.TC"))
    for tf in F.STL_TEXT + [bytes([c]) for c in range(0, 0x20)] + [bytes([c]) for c in range(0x80, 0xA0)] + [bytes([c]) + b"a" for c in range(0xC0, 0xD0)] + \
        [t for c in range(0xC0, 0xD0) for t in (b"caf" + bytes([c]), bytes([c]), b"a" + bytes([c, 0x8A, 0x8A]) + b"b", bytes([c, 0x02]) + b"g", bytes([c, c]), bytes([c]) * 111 + b"\x8f")]:
      for cct in (b"00", b"01", b"02", b"03", b"04"):
        if quick and cct not in (b"00", b"03") and len(tf) == 1:
          continue
        out.append((F.gsi_block(CCT=cct) + F.tti_block(tf=tf), None, "grid:TF"))
  return out


_PREFIX = {}


def prefix(fmt):
  """handmade boundary files, then the deterministic grids, then the corpus files as they are"""
  key = (fmt, QUICK)
  if key not in _PREFIX:
    hm = [(p, SCC_CFGS[i % len(SCC_CFGS)] if fmt == "scc" else STL_CFGS[i % len(STL_CFGS)] if fmt == "stl" else None, "handmade") if not isinstance(p, tuple) else (p[0], p[1], "handmade")
          for i, p in enumerate(HANDMADE[fmt] + DIRECTED[fmt])]
    files = []
    for name, payload in corpus()[fmt]:
      if len(payload) > 12000:
        payload = window(rng(0, "c18/window/" + name), fmt, payload)
      files.append((payload, None, f"corpus:{name}"))
    _PREFIX[key] = hm + grid(fmt, QUICK) + files
  return _PREFIX[key]


def make_input(seed, fmt, k):
  """the k-th input of a format: deterministic in (seed, fmt, k) -> (payload, reader cfg, origin, all configurations?)"""
  pre = prefix(fmt)
  if k < len(pre):
    p, cfg, origin = pre[k]
    return p, cfg, origin, origin == "handmade"
  r = rng(seed, f"c18/{fmt}/{k}")
  files = corpus()[fmt]
  use_corpus = bool(files) and r.random() < (0.15 if fmt == "ttml" else 0.3)
  got = corpus_input(r, fmt, r.randrange(1 << 20)) if use_corpus else None
  if got is None:
    got = grammar_input(r, fmt, k)
  payload, tree, cfg, origin = got
  x = r.random()
  n = 0 if (x < 0.18 and not use_corpus) else 1 if x < 0.62 else 2 if x < 0.95 else 3
  if n:
    payload, names = mutated(r, fmt, payload, tree, n)
    origin += " + " + " + ".join(names)
  return payload, cfg, origin, False


SHARE = {"ttml": 0.36, "vtt": 0.2, "srt": 0.12, "scc": 0.14, "stl": 0.18}
TOTAL = {"quick": 12000, "thorough": 500000}
CHUNK = 80


def work(item):
  fmt, lo, hi, seed, full = item
  rec = new_rec()
  STATS.clear()
  for k in range(lo, hi):
    payload, cfg, origin, every = make_input(seed, fmt, k)
    evaluate(rec, fmt, payload, cfg, k, origin, full or every)
  rec.stats = dict(STATS)
  return rec


# ---------------------------------------------------------------------------------------------------------------------
# shrinking


class Budget:
  def __init__(self, evals, seconds):
    self.evals = evals
    self.deadline = time.time() + seconds

  def ok(self):
    self.evals -= 1
    return self.evals >= 0 and time.time() < self.deadline


def ddmin(units, test, budget, join):
  """classic delta debugging (complement removal); `test(payload)` is True when the failure is still there"""
  n = 2
  while len(units) >= 2:
    size = max(1, len(units) // n)
    removed = False
    for i in range(0, len(units), size):
      cand = units[:i] + units[i + size:]
      if not budget.ok():
        return units
      if test(join(cand)):
        units = cand
        n = max(n - 1, 2)
        removed = True
        break
    if not removed:
      if size == 1:
        break
      n = min(len(units), n * 2)
  return units


def shrink_text(text, test, budget):
  j = "".join
  lines = ddmin(text.splitlines(True), test, budget, j)
  text = j(lines)
  toks = ddmin(tokens(text), test, budget, j)
  text = j(toks)
  if len(text) <= 160:
    text = j(ddmin(list(text), test, budget, j))
  return text


def shrink_ttml(text, test, budget):
  try:
    root = x_from_et(ET.fromstring(text.encode("utf-8", "surrogatepass")))
  except Exception:  # pylint: disable=broad-except
    return shrink_text(text, test, budget)
  if root is None or not test(F.to_xml(root, False)):
    return shrink_text(text, test, budget)
  changed = True
  while changed and budget.evals > 0:
    changed = False
    for e in root.elements():
      # drop children (elements and text), one by one, last first
      for i in range(len(e.children) - 1, -1, -1):
        keep = e.children[i]
        del e.children[i]
        if budget.ok() and test(F.to_xml(root, False)):
          changed = True
        else:
          e.children.insert(i, keep)
          # replace an element by its children
          if isinstance(keep, F.X) and keep.children:
            e.children[i:i + 1] = keep.children
            if budget.ok() and test(F.to_xml(root, False)):
              changed = True
            else:
              e.children[i:i + len(keep.children)] = [keep]
      for i in range(len(e.attrs) - 1, -1, -1):
        keep = e.attrs[i]
        del e.attrs[i]
        if budget.ok() and test(F.to_xml(root, False)):
          changed = True
        else:
          e.attrs.insert(i, keep)
  for e in root.elements():
    for i, c in enumerate(e.children):
      if isinstance(c, str) and len(c) > 1:
        e.children[i] = "x"
        if not (budget.ok() and test(F.to_xml(root, False))):
          e.children[i] = c
  return F.to_xml(root, False)


def shrink_stl(data, test, budget):
  gsi = data[:1024]
  blocks = [data[i:i + 128] for i in range(1024, len(data), 128)]
  blocks = ddmin(blocks, test, budget, lambda bs: gsi + b"".join(bs))
  data = gsi + b"".join(blocks)
  if len(gsi) == 1024:
    canon = F.gsi_block(TNB=b"%05d" % len(blocks), TNS=b"%05d" % len(blocks))
    for name, off, ln in F.GSI_FIELDS:
      if data[off:off + ln] != canon[off:off + ln]:
        cand = data[:off] + canon[off:off + ln] + data[off + ln:]
        if budget.ok() and test(cand):
          data = cand
  canon_b = F.tti_block()
  for bi in range(len(blocks)):
    b0 = 1024 + 128 * bi
    if b0 + 128 > len(data):
      break
    for name, off, ln in F.TTI_FIELDS:
      if name == "TF":
        tf = data[b0 + 16:b0 + 128].rstrip(b"\x8f")
        units = ddmin([bytes([c]) for c in tf], lambda d, b0=b0: test(data[:b0 + 16] + (d + b"\x8f" * 112)[:112] + data[b0 + 128:]), budget, b"".join)
        data = data[:b0 + 16] + (b"".join(units) + b"\x8f" * 112)[:112] + data[b0 + 128:]
      elif data[b0 + off:b0 + off + ln] != canon_b[off:off + ln]:
        cand = data[:b0 + off] + canon_b[off:off + ln] + data[b0 + off + ln:]
        if budget.ok() and test(cand):
          data = cand
  return data


def shrink_failure(f):
  """-> the failure with a smaller (still failing, same key) input"""
  a = dict(f["replay_args"])
  fmt, key = a["fmt"], a["key"]
  raw = base64.b64decode(a["data_b64"])
  payload = raw if a["binary"] else raw.decode("utf-8", "surrogatepass")
  if key.endswith(":timeout") or ":only-after-other-stages:" in key or ":RecursionError:" in key:
    return f                                     # (deep inputs are regular already and every evaluation is slow)
  budget = Budget(400 if QUICK else 1500, 25 if QUICK else 90)

  def test(p):
    k, _ = single_stage(fmt, p, a["reader_cfg"], a["stage"], a["stage_cfg"], a["filter_cfg"])
    return k == key

  if not test(payload):
    f = dict(f)
    f["summary"] += "  [NOT reproduced when re-run in isolation]"
    return f
  # configuration first: the default configuration if the failure does not need this one
  for field in ("reader_cfg", "stage_cfg"):
    if a[field] is not None and not (field == "stage_cfg" and a["stage"] == "filter"):
      old = a[field]
      a[field] = None
      if not test(payload):
        a[field] = old
  if fmt == "stl":
    small = shrink_stl(payload, test, budget)
  elif fmt == "ttml":
    small = shrink_ttml(payload, test, budget)
  else:
    small = shrink_text(payload, test, budget)
  if not test(small):
    small = payload
  _k, detail = single_stage(fmt, small, a["reader_cfg"], a["stage"], a["stage_cfg"], a["filter_cfg"])
  a.update({"data_b64": b64(small), "size": len(small)})
  f = dict(f)
  f["replay_args"] = a
  f["input"] = {"format": fmt, "input": preview(small, 1500), "input_repr": repr(small)[:1500], "reader_cfg": a["reader_cfg"], "stage_cfg": a["stage_cfg"], "filter_cfg": a["filter_cfg"],
                "found_as": a.get("origin"), "original_size": len(payload)}
  f["observed"] = detail
  f["summary"] = f"{a['stage']} of a {fmt} input fails with {detail}; minimal input: {repr(small)[:300]}"
  return f


def _shrink_job(f):
  try:
    return shrink_failure(f)
  except Hang:
    return f


# ---------------------------------------------------------------------------------------------------------------------


def main():
  global QUICK, SEED
  args = parse_args()
  QUICK = args.tier != "thorough"
  SEED = args.seed
  total = int(os.environ.get("C18_TOTAL", TOTAL["quick" if QUICK else "thorough"]))
  items = []
  for fmt in FORMATS:
    n = int(total * SHARE[fmt])
    for lo in range(0, n, CHUNK):
      items.append((fmt, lo, min(n, lo + CHUNK), SEED, False))
  # interleave the formats so that the pool stays balanced
  items.sort(key=lambda it: (it[1], it[0]))
  rec = new_rec()
  rec.scope = {"inputs": total, "per_format": {f: int(total * SHARE[f]) for f in FORMATS}, "mutations_per_input": "0-3",
               "time_limit_s": {"reader": READ_LIMIT, "stage": STAGE_LIMIT},
               "configurations": {"scc_reader": len(SCC_CFGS), "stl_reader": len(STL_CFGS), "imsc_writer": len(IMSC_CFGS), "srt_writer": len(SRT_CFGS),
                                  "vtt_writer": len(VTT_CFGS), "lcd": len(LCD_CFGS)},
               "generators": {"own": True, "c08": _c08 is not None, "c09": _c09 is not None, "c10": _c10 is not None, "c11": _c11 is not None}}
  stats = {}
  for part in parallel(work, items):
    rec.merge(part)
    for k, v in getattr(part, "stats", {}).items():
      stats[k] = stats.get(k, 0) + v
  rec.scope["reader_outcomes"] = {f"{f}:{o}": n for (f, o), n in sorted(stats.items())}
  t_gen = time.time() - rec.t0
  # shrink one witness per key
  fails = list(rec.failures.values())
  if fails:
    shrunk = parallel(_shrink_job, fails)
    rec.failures = {f["key"]: f for f in shrunk}
  for f in rec.failures.values():
    print(f"FAIL {f['key']}  x{f['count']}  {f['summary'][:300]}", file=sys.stderr)
  print(f"C18 rtc: pipeline {t_gen:.1f}s, shrinking {time.time() - rec.t0 - t_gen:.1f}s", file=sys.stderr)
  print(f"C18 rtc: {rec.evaluations} evaluations, {len(rec.fingerprints)} distinct, {len(rec.failures)} failing keys, {time.time() - rec.t0:.1f}s; outcomes {rec.scope['reader_outcomes']}",
        file=sys.stderr)
  sys.exit(rec.dump(args.out))


if __name__ == "__main__":
  main()
