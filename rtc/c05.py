"""C05 bounded tier: IMSC write / read round trip.

  doc --imsc.writer.from_model(doc, config)--> bytes --imsc.reader.to_model--> doc'

Contracts evaluated per (document, configuration), in this order (the first failing stage is reported):
  1. the writer accepts every model value (no exception);
  2. the written XML carries every region, content element, text run and animation step of the model at its place
     (specs/imsc_rt.xml_structure_problems);
  3. written times: in the configured syntax, representable times exact, others moved by less than one unit, order kept
     (specs/imsc_rt.written_times / time_problems), ttp:frameRate x multiplier == the configured rate;
  4. the reader accepts what the writer wrote (no exception, no log record at WARNING or above from ttconv.*);
  5. document parameters preserved (language, cell resolution, pixel extent when pixel lengths are used, active area, aspect ratio);
  6. the re-read document presents like the original *with its times replaced by the written times* at every boundary time and
     midpoint of both documents (ISD.from_model on both sides, compared with specs/imsc_rt.first_difference: structure, text,
     xml:lang, xml:space, all computed styles with the numeric tolerance of the written precision).

Inputs:
  * colours: all 256 values of each channel (exhaustive per channel) through to_ttml_color / parse_color;
  * time expressions: 13 (syntax, rate) pairs x a grid of representable and non-representable times through to_time_format
    and the reader's parse_time_expression;
  * focused documents: a fixed skeleton (region, body, div, p, span, br, ruby) with exactly ONE feature changed -- every style
    property x every value form x {specified, animation step, initial value}, every element kind / ruby shape, text forms,
    xml:lang / xml:space variations, region references, document parameters, timing forms x all 28 configurations.
    The finding key is `<feature label>/<stage>:<class>`, so one defect = one key;
  * random documents: rtc/docgen.py documents enriched with rich styles, animation steps, initial values and language
    variations x rotating configurations.  Features that fail *on their own* in the focused tier are removed from the random
    documents (they are already reported there with a precise key); the random tier looks for interactions. Key `doc/<stage>:<class>`.
"""
import dataclasses
import enum
import io
import logging
import numbers
import re
import sys
import xml.etree.ElementTree as et
from fractions import Fraction

from rtc.common import Recorder, parse_args, rng, parallel
from rtc import docgen
from rtc.isd_props import times_for
from specs import imsc_rt as S

import ttconv.model as m
import ttconv.style_properties as sp
import ttconv.utils
import ttconv.imsc.writer as imsc_writer
import ttconv.imsc.reader as imsc_reader
import ttconv.imsc.attributes as imsc_attr
import ttconv.imsc.utils as imsc_utils
import ttconv.imsc.style_properties as imsc_sp
from ttconv.imsc.config import IMSCWriterConfiguration
from ttconv.isd import ISD

SP = sp.StyleProperties
U = sp.LengthType.Units
F = Fraction
REPLAYER = "replayers.c05:replay"

# ----------------------------------------------------------------------------------------------------------------------
# configurations

RATES = {"24": F(24), "25": F(25), "30": F(30), "50": F(50), "60": F(60), "24000/1001": F(24000, 1001), "30000/1001": F(30000, 1001)}
INT_RATES = ["24", "25", "30", "50", "60"]
CONFIGS = (["none", "clock"] + [f"clock@{r}" for r in RATES] + [f"default@{r}" for r in RATES] + [f"frames@{r}" for r in RATES] +
           [f"cwf@{r}" for r in INT_RATES])
FOCUS_CONFIGS = ["none", "frames@30000/1001", "cwf@25"]


def make_config(name):
  """-> (configuration object or None, effective syntax, frame rate or None)"""
  if name == "none":
    return None, S.CLOCK, None
  kind, _, rate = name.partition("@")
  fps = RATES[rate] if rate else None
  tf = {"clock": S.CLOCK, "frames": S.FRAMES, "cwf": S.CWF, "default": None}[kind]
  cfg = IMSCWriterConfiguration(time_format=imsc_attr.TimeExpressionSyntaxEnum[tf] if tf else None, fps=fps)
  return cfg, S.effective_syntax(tf, fps), fps


# ----------------------------------------------------------------------------------------------------------------------
# signatures of style values (labels of value forms)


def numclass(v):
  if v == 0:
    return "0"
  neg = "neg" if v < 0 else ""
  a = abs(float(v))
  if a < 1e-4 or float(f"{a:.6g}") >= 1e6:
    return neg + "exp"
  if float(f"{a:.6g}") != a:
    return neg + "long"
  return neg + ("int" if a == int(a) else "dec")


def strclass(s):
  for ch, nm in (("\\", "backslash"), ('"', "dquote"), ("'", "squote"), (",", "comma"), (" ", "space")):
    if ch in s:
      return "str-" + nm
  if s in sp.GenericFontFamilyType.__members__:
    return "str-generic-name"
  return "str1" if len(s) == 1 else "str"


def sig(v):
  if v is None:
    return "-"
  if isinstance(v, enum.Enum):
    return v.name
  if isinstance(v, bool):
    return "true" if v else "false"
  if isinstance(v, sp.ColorType):
    c = v.components
    return "transparent" if tuple(c) == (0, 0, 0, 0) else "opaque" if c[3] == 255 else "alpha0" if c[3] == 0 else "rgba"
  if isinstance(v, sp.LengthType):
    return f"{v.units.name}.{numclass(v.value)}"
  if isinstance(v, numbers.Number):
    return type(v).__name__ + "." + numclass(v)
  if isinstance(v, str):
    return strclass(v)
  if dataclasses.is_dataclass(v):
    return type(v).__name__.replace("Type", "") + "(" + ",".join(sig(getattr(v, f.name)) for f in dataclasses.fields(v)) + ")"
  if isinstance(v, (tuple, list)):
    parts = []
    for x in v:
      sx = sig(x)
      if parts and parts[-1][1] == sx:
        parts[-1][0] += 1
      else:
        parts.append([1, sx])
    return "[" + ",".join(sx if n == 1 else f"{n}x{sx}" for n, sx in parts) + "]"
  return type(v).__name__


def style_label(prop, value, placement):
  return f"style:{prop.__name__}:{sig(value)}@{placement}"


# ----------------------------------------------------------------------------------------------------------------------
# value forms of the 36 style properties


def L(v, u):
  return sp.LengthType(v, u)


def col(*c):
  return sp.ColorType(tuple(c))


RED, TRANSPARENT = sp.NamedColors.red.value, sp.NamedColors.transparent.value
COLORS = [RED, col(1, 2, 3, 128), TRANSPARENT, col(17, 34, 51, 0), sp.NamedColors.black.value, sp.NamedColors.white.value, col(0, 255, 0, 254)]
THIRD = 100 / 3
NONE, NORMAL = sp.SpecialValues.none, sp.SpecialValues.normal
Shadow = sp.TextShadowType.Shadow
TE = sp.TextEmphasisType


def _enum_forms(t):
  return list(t)


FORMS = {
  "BackgroundColor": COLORS,
  "Color": COLORS,
  "Direction": _enum_forms(sp.DirectionType),
  "Disparity": [L(2, U.px), L(-3, U.px), L(1.5, U.pct), L(0, U.pct), L(0.5, U.c), L(1, U.rw), L(1, U.rh), L(0.1, U.em), L(THIRD, U.pct)],
  "Display": _enum_forms(sp.DisplayType),
  "DisplayAlign": _enum_forms(sp.DisplayAlignType),
  "Extent": [sp.ExtentType(height=L(20, U.pct), width=L(80, U.pct)), sp.ExtentType(height=L(360, U.px), width=L(1000, U.px)),
             sp.ExtentType(height=L(3, U.c), width=L(20, U.c)), sp.ExtentType(height=L(25, U.rh), width=L(75, U.rw)),
             sp.ExtentType(height=L(50, U.pct), width=L(640, U.px)), sp.ExtentType(height=L(THIRD, U.pct), width=L(200 / 3, U.pct)),
             sp.ExtentType(height=L(12.5, U.pct), width=L(0.25, U.pct)), sp.ExtentType(height=L(100, U.pct), width=L(100, U.pct)),
             sp.ExtentType(height=L(0.00001, U.pct), width=L(50, U.pct)), sp.ExtentType(height=L(360, U.px), width=L(1234567, U.px)),
             # numbers printed through the exponent fallback whose digits end in zeros (a careless rstrip eats them): 1000000, 1500000, 1e20
             sp.ExtentType(height=L(1500000, U.px), width=L(1000000, U.px)), sp.ExtentType(height=L(0.00002, U.pct), width=L(1e20, U.px))],
  "FillLineGap": [True, False],
  "FontFamily": [(sp.GenericFontFamilyType.serif,), (sp.GenericFontFamilyType.default,), (sp.GenericFontFamilyType.monospaceSerif,),
                 ("Arial",), ("Times New Roman", sp.GenericFontFamilyType.sansSerif), ('Quo"ted',), ("O'Neil",), ("Back\\slash",), ("a,b", "c"),
                 ("x",), ("serif",), tuple(sp.GenericFontFamilyType), ("Arial", "Helvetica", sp.GenericFontFamilyType.proportionalSansSerif)],
  "FontSize": [L(150, U.pct), L(2, U.em), L(1, U.c), L(1.5, U.c), L(36, U.px), L(5, U.rh), L(3, U.rw), L(THIRD, U.pct), L(0.00001, U.c),
               L(1234567, U.px), L(F(3, 2), U.c), L(1000000, U.px), L(20000000, U.px), L(1234560, U.px), L(0.00005, U.em), L(1e-13, U.c)],
  "FontStyle": _enum_forms(sp.FontStyleType),
  "FontWeight": _enum_forms(sp.FontWeightType),
  "LineHeight": [NORMAL, L(125, U.pct), L(1.2, U.em), L(2, U.c), L(40, U.px), L(6, U.rh), L(THIRD * 4, U.pct)],
  "LinePadding": [L(0.5, U.c), L(0, U.c), L(1, U.c), L(1 / 3, U.c), L(1, U.rh), L(1, U.rw)],
  "LuminanceGain": [1.0, 0.5, 2, 1.25e-5, 0, 1 / 3],
  "MultiRowAlign": _enum_forms(sp.MultiRowAlignType),
  "Opacity": [0, 0.5, 1, 1.0, 0.123456789, 1e-5, 1 / 3],
  "Origin": [sp.CoordinateType(x=L(10, U.pct), y=L(70, U.pct)), sp.CoordinateType(x=L(100, U.px), y=L(50, U.px)),
             sp.CoordinateType(x=L(2, U.c), y=L(1, U.c)), sp.CoordinateType(x=L(5, U.rw), y=L(6, U.rh)),
             sp.CoordinateType(x=L(-5, U.pct), y=L(0, U.pct)), sp.CoordinateType(x=L(THIRD, U.pct), y=L(12.5, U.pct)),
             sp.CoordinateType(x=L(0, U.pct), y=L(0, U.pct)), sp.CoordinateType(x=L(0.00001, U.pct), y=L(1, U.pct))],
  "Overflow": _enum_forms(sp.OverflowType),
  "Padding": [sp.PaddingType(L(1, U.pct), L(2, U.pct), L(3, U.pct), L(4, U.pct)), sp.PaddingType(L(10, U.px), L(20, U.px), L(30, U.px), L(40, U.px)),
              sp.PaddingType(L(0.5, U.c), L(1, U.c), L(0.5, U.c), L(1, U.c)), sp.PaddingType(L(1, U.em), L(0, U.em), L(0.5, U.em), L(0, U.em)),
              sp.PaddingType(L(1, U.rh), L(2, U.rw), L(1, U.rh), L(2, U.rw)), sp.PaddingType(L(1, U.pct), L(10, U.px), L(1, U.c), L(1, U.em)),
              sp.PaddingType(), sp.PaddingType(L(THIRD, U.pct), L(1, U.pct), L(1, U.pct), L(1, U.pct))],
  "Position": [sp.PositionType(L(10, U.pct), L(20, U.pct)),
               sp.PositionType(L(10, U.pct), L(20, U.pct), sp.PositionType.HEdge.right, sp.PositionType.VEdge.bottom),
               sp.PositionType(L(5, U.pct), L(0, U.pct), sp.PositionType.HEdge.right, sp.PositionType.VEdge.top),
               sp.PositionType(L(0, U.pct), L(5, U.pct), sp.PositionType.HEdge.left, sp.PositionType.VEdge.bottom),
               sp.PositionType(L(100, U.px), L(50, U.px)), sp.PositionType(L(2, U.c), L(1, U.c)), sp.PositionType(L(5, U.rw), L(6, U.rh)),
               sp.PositionType(L(100, U.px), L(50, U.px), sp.PositionType.HEdge.right, sp.PositionType.VEdge.bottom),
               sp.PositionType(L(THIRD, U.pct), L(12.5, U.pct)), sp.PositionType(L(0, U.pct), L(0, U.pct))],
  "RubyAlign": _enum_forms(sp.RubyAlignType),
  "RubyPosition": _enum_forms(sp.AnnotationPositionType),
  "RubyReserve": [NONE] + [sp.RubyReserveType(p) for p in sp.RubyReserveType.Position] +
                 [sp.RubyReserveType(sp.RubyReserveType.Position.before, L(1, U.em)), sp.RubyReserveType(sp.RubyReserveType.Position.after, L(2, U.c)),
                  sp.RubyReserveType(sp.RubyReserveType.Position.outside, L(10, U.px)), sp.RubyReserveType(sp.RubyReserveType.Position.both, L(5, U.rh)),
                  sp.RubyReserveType(sp.RubyReserveType.Position.both, L(50, U.pct))],
  "Shear": [0.0, 16.67, -16.67, 100, -100, 50, 1e-5, THIRD, 3e-5],
  "ShowBackground": _enum_forms(sp.ShowBackgroundType),
  "TextAlign": _enum_forms(sp.TextAlignType),
  "TextCombine": _enum_forms(sp.TextCombineType),
  "TextDecoration": [sp.TextDecorationType(u, lt, o) for u in (None, True, False) for lt in (None, True, False) for o in (None, True, False)],
  "TextEmphasis": [NONE] + [TE(style=s) for s in TE.Style] + [TE(style=TE.Style.filled_circle, position=p) for p in TE.Position] +
                  [TE(style=TE.Style.open_dot, color=RED), TE(style=TE.Style.auto, color=col(1, 2, 3, 128), position=TE.Position.before),
                   TE(style=TE.Style.filled_sesame, color=TRANSPARENT, position=TE.Position.after)],
  "TextOutline": [NONE, sp.TextOutlineType(L(10, U.pct)), sp.TextOutlineType(L(2, U.px), RED), sp.TextOutlineType(L(0.1, U.em), col(1, 2, 3, 128)),
                  sp.TextOutlineType(L(0.1, U.c)), sp.TextOutlineType(L(1, U.rh), sp.NamedColors.black.value), sp.TextOutlineType(L(THIRD / 10, U.pct), RED)],
  "TextShadow": [NONE, sp.TextShadowType((Shadow(L(1, U.em), L(2, U.em)),)), sp.TextShadowType((Shadow(L(1, U.px), L(2, U.px), L(3, U.px)),)),
                 sp.TextShadowType((Shadow(L(1, U.px), L(2, U.px), None, RED),)),
                 sp.TextShadowType((Shadow(L(5, U.pct), L(-5, U.pct), L(1, U.pct), col(1, 2, 3, 128)),)),
                 sp.TextShadowType((Shadow(L(1, U.px), L(2, U.px), L(3, U.px), RED), Shadow(L(-1, U.px), L(-2, U.px), L(3, U.px), sp.NamedColors.blue.value))),
                 sp.TextShadowType((Shadow(L(0.1, U.em), L(0.1, U.em), L(0.1, U.em), RED),) * 4),
                 sp.TextShadowType((Shadow(L(0.1, U.c), L(0.2, U.c), L(0.1, U.c), RED),)), sp.TextShadowType((Shadow(L(1, U.rw), L(1, U.rh), L(1, U.rh), RED),))],
  "UnicodeBidi": _enum_forms(sp.UnicodeBidiType),
  "Visibility": _enum_forms(sp.VisibilityType),
  "WrapOption": _enum_forms(sp.WrapOptionType),
  "WritingMode": _enum_forms(sp.WritingModeType),
}
# pixel lengths in exactly ONE component position (the writer must then declare the pixel extent of the root container: every
# component of every value has to be looked at, not only the first / the first that qualifies)
FORMS["Extent"] += [sp.ExtentType(height=L(360, U.px), width=L(50, U.pct))]
FORMS["Origin"] += [sp.CoordinateType(x=L(100, U.px), y=L(10, U.pct)), sp.CoordinateType(x=L(10, U.pct), y=L(50, U.px))]
FORMS["Position"] += [sp.PositionType(L(100, U.px), L(10, U.pct)), sp.PositionType(L(10, U.pct), L(50, U.px)),
                      sp.PositionType(L(10, U.pct), L(50, U.px), sp.PositionType.HEdge.right, sp.PositionType.VEdge.bottom)]
FORMS["Padding"] += [sp.PaddingType(*[L(10, U.px) if i == k else L(1, U.pct) for i in range(4)]) for k in range(4)] + \
                    [sp.PaddingType(*[L(10, U.px) if i == k else L(1, U.c) for i in range(4)]) for k in (1, 3)]
FORMS["TextShadow"] += [
  sp.TextShadowType((Shadow(L(1, U.em), L(2, U.em), L(1, U.em), RED), Shadow(L(1, U.px), L(2, U.px), None, RED))),
  sp.TextShadowType((Shadow(L(1, U.em), L(2, U.em), L(1, U.em), RED), Shadow(L(1, U.em), L(2, U.em), L(3, U.px), RED))),
  sp.TextShadowType((Shadow(L(1, U.pct), L(2, U.pct), L(1, U.c)), Shadow(L(1, U.em), L(2, U.px)))),
  sp.TextShadowType((Shadow(L(1, U.px), L(2, U.em)),)), sp.TextShadowType((Shadow(L(1, U.em), L(2, U.px)),)),
  sp.TextShadowType((Shadow(L(1, U.em), L(2, U.em)), Shadow(L(1, U.em), L(1, U.em), L(1, U.em)), Shadow(L(1, U.em), L(2, U.em), L(2, U.px)))),
  sp.TextShadowType((Shadow(L(1, U.px), L(2, U.px), L(1, U.px)), Shadow(L(1, U.em), L(2, U.em), L(1, U.em)))),
]
# text shadows of two and three shadows with a pixel length in exactly ONE position (x offset, y offset or blur radius of any one shadow)
def _one_px_shadows():
  out = []
  for n in (2, 3):
    for k in range(n):
      for pos in range(3):
        sh = []
        for i in range(n):
          comp = [L(1, U.px) if (i == k and j == pos) else L(1 + i, U.em) for j in range(3)]
          # the other shadows: with and without a blur radius
          blur = comp[2] if (i == k and pos == 2) or (i + k) % 2 == 0 else None
          sh.append(Shadow(comp[0], comp[1], blur, RED if i % 2 else None))
        out.append(sp.TextShadowType(tuple(sh)))
  return out


FORMS["TextShadow"] += _one_px_shadows()
assert sorted(FORMS) == sorted(p.__name__ for p in SP.ALL), "the value-form catalogue must cover every style property of the model"
PROPS = sorted(SP.ALL, key=lambda p: p.__name__)

# ----------------------------------------------------------------------------------------------------------------------
# the skeleton of the focused documents


class H:
  """handles on the elements of a skeleton document"""


KINDS = ["Region", "Body", "Div", "P", "Span", "Br", "Ruby", "Rb", "Rt"]


def skeleton():
  h = H()
  d = h.doc = m.ContentDocument()
  d.set_lang("en")
  d.set_px_resolution(m.PixelResolutionType(width=1280, height=720))
  h.Region = m.Region("r1", d)
  h.Region.set_style(SP.Origin, sp.CoordinateType(x=L(10, U.pct), y=L(10, U.pct)))
  h.Region.set_style(SP.Extent, sp.ExtentType(height=L(80, U.pct), width=L(80, U.pct)))
  d.put_region(h.Region)

  def mk(cls, eid, parent=None):
    e = cls(d)
    e.set_id(eid)
    if parent is not None:
      parent.push_child(e)
    return e

  h.Body = mk(m.Body, "b")
  h.Div = mk(m.Div, "d", h.Body)
  h.P = mk(m.P, "p", h.Div)
  h.Span = mk(m.Span, "s1", h.P)
  h.Text = m.Text(d, "Hello")
  h.Span.push_child(h.Text)
  h.Br = mk(m.Br, "br", h.P)
  h.Span2 = mk(m.Span, "s2", h.P)
  h.Span2.push_child(m.Text(d, "World"))
  h.Ruby = mk(m.Ruby, "ru")
  h.Rb, h.Rt = mk(m.Rb, "rb"), mk(m.Rt, "rt")
  for par, eid, txt in ((h.Rb, "rbs", "base"), (h.Rt, "rts", "text")):
    s = mk(m.Span, eid, par)
    s.push_child(m.Text(d, txt))
  h.Ruby.push_children([h.Rb, h.Rt])
  h.P.push_child(h.Ruby)
  d.set_body(h.Body)
  h.P.set_region(h.Region)
  h.P.set_begin(F(1))
  h.P.set_end(F(5))
  set_lang_tree(d, "en")
  return h


def set_lang_tree(doc, lang):
  for e in S.all_elements(doc):
    if not isinstance(e, m.Text):
      e.set_lang(lang)


def subtree_set(e, fn):
  for x in e.dfs_iterator():
    if not isinstance(x, m.Text):
      fn(x)


def step(prop, b, e, v):
  return m.DiscreteAnimationStep(prop, None if b is None else F(b), None if e is None else F(e), v)


class Feature:
  def __init__(self, label, apply, cfgs=None, note=""):
    self.label, self.apply, self.cfgs, self.note = label, apply, cfgs or FOCUS_CONFIGS, note


def style_features():
  out = []
  probe = skeleton()
  for prop in PROPS:
    forms = FORMS[prop.__name__]
    init = prop.make_initial_value()
    alt = next(v for v in forms if not S.same_value(v, init) and not isinstance(v, sp.SpecialValues) and "exp" not in sig(v)
               and not S.value_uses_px(v))
    targets = [k for k in KINDS if getattr(probe, k).is_style_applicable(prop)]
    if prop.is_inherited and "Body" not in targets:
      targets.append("Body")      # specified on an ancestor to which it does not apply: reaches the content by inheritance
    for v in forms:
      deq = S.same_value(v, init)
      for ti, tk in enumerate(targets):
        def f_elem(h, cfg, prop=prop, v=v, tk=tk, deq=deq, alt=alt):
          if deq:
            h.doc.put_initial_value(prop, alt)
          getattr(h, tk).set_style(prop, v)
        out.append(Feature(style_label(prop, v, "elem"), f_elem,
                           note=f"{prop.__name__} = {v!r} specified on {tk}" + (f", initial value {alt!r}" if deq else "")))
        if ti < 2:
          def f_set(h, cfg, prop=prop, v=v, tk=tk, deq=deq, alt=alt):
            e = getattr(h, tk)
            if deq:
              e.set_style(prop, alt)
            e.add_animation_step(step(prop, 1, 2, v))
          out.append(Feature(style_label(prop, v, "set"), f_set,
                             note=f"animation step {prop.__name__} = {v!r} over [1, 2) on {tk}" + (f" which specifies {alt!r}" if deq else "")))
      def f_init(h, cfg, prop=prop, v=v):
        h.doc.put_initial_value(prop, v)
      out.append(Feature(style_label(prop, v, "init"), f_init, note=f"initial value {prop.__name__} = {v!r}" +
                         (" (equal to the default: only the writer and the reader are exercised)" if deq else "")))
  return out


# text forms
TEXT_FORMS = [("plain", "Hello"), ("inner-space", "a b"), ("leading-space", " lead"), ("trailing-space", "trail "), ("runs-of-spaces", "  two  spaces  "),
              ("newline-inside", "x\ny"), ("only-newline", "\n"), ("only-space", " "), ("empty", ""), ("tab", "tab\tbed"), ("non-ascii", "été 日本"),
              ("markup-characters", "<&>\"'"), ("astral", "\U0001F600"), ("nbsp", "a b"), ("indentation", "\n    a\n    b\n  ")]


def _texts(doc, parent, seq):
  """seq of str (Text), "BR", ("SPAN", [seq])"""
  n = [0]

  def add(par, items):
    for it in items:
      if it == "BR":
        e = m.Br(doc)
      elif isinstance(it, tuple):
        e = m.Span(doc)
      else:
        par.push_child(m.Text(doc, it))
        continue
      n[0] += 1
      e.set_id(f"{par.get_id()}x{n[0]}")
      e.set_lang(par.get_lang())
      par.push_child(e)
      if isinstance(it, tuple):
        add(e, it[1])

  add(parent, seq)


ADJACENT = [("[T,T]", ["ab", "cd"]), ("[T,Br,T,T]", ["ab", "BR", "cd", "ef"]), ("[Br,T,T]", ["BR", "ab", "cd"]), ("[T,T,Br]", ["ab", "cd", "BR"]),
            ("[T,Span,T,T]", ["ab", ("SPAN", ["in"]), "cd", "ef"]), ("[T,T,T]", ["a", "b", "c"])]
MIXED = [("[T,Span,T]", ["ab", ("SPAN", ["in"]), "cd"]), ("[Span,T]", [("SPAN", ["in"]), "cd"]), ("[T,Br,T]", ["ab", "BR", "cd"]),
         ("[Span,Span]", [("SPAN", ["a"]), ("SPAN", ["b"])]), ("nested-3", [("SPAN", ["a", ("SPAN", ["b", ("SPAN", ["c"]), "d"]), "e"])]),
         ("[Br,Br]", ["BR", "BR"]), ("[T-with-spaces,Span,T-with-spaces]", [" a ", ("SPAN", [" b "]), " c "])]


def text_features():
  out = []
  for name, t in TEXT_FORMS:
    for pres in (False, True):
      def f(h, cfg, t=t, pres=pres):
        h.Text.set_text(t)
        if pres:
          subtree_set(h.P, lambda e: e.set_space(m.WhiteSpaceHandling.PRESERVE))
      out.append(Feature(f"text:{name}" + (":preserve" if pres else ""), f, note=f"text {t!r}" + (" under xml:space=preserve" if pres else "")))
  for grp, forms in (("adjacent-text-nodes", ADJACENT), ("mixed-content", MIXED)):
    for name, seq in forms:
      def f(h, cfg, seq=seq):
        h.Span.remove_children()
        _texts(h.doc, h.Span, seq)
      out.append(Feature(f"text:{grp}{name}", f, note=f"children of the span: {seq}"))
  return out


def _leaf(h, cls, eid, txt="x"):
  e = cls(h.doc)
  e.set_id(eid)
  e.set_lang("en")
  if txt is not None:
    s = m.Span(h.doc)
    s.set_id(eid + "s")
    s.set_lang("en")
    s.push_child(m.Text(h.doc, txt))
    e.push_child(s)
  return e


def _ruby(h, shape):
  ru = m.Ruby(h.doc)
  ru.set_id("ru2")
  ru.set_lang("en")
  cnt = [0]

  def nid(p):
    cnt[0] += 1
    return f"{p}{cnt[0]}"

  def cont(cls, kids):
    c = cls(h.doc)
    c.set_id(nid("c"))
    c.set_lang("en")
    c.push_children(kids)
    return c

  mk = {"Rb": lambda: _leaf(h, m.Rb, nid("rb"), "base"), "Rt": lambda: _leaf(h, m.Rt, nid("rt"), "text"), "Rp": lambda: _leaf(h, m.Rp, nid("rp"), "("),
        "Rp0": lambda: _leaf(h, m.Rp, nid("rp"), None)}
  kids = []
  for item in shape:
    if isinstance(item, tuple):
      kids.append(cont({"Rbc": m.Rbc, "Rtc": m.Rtc}[item[0]], [mk[k]() for k in item[1]]))
    else:
      kids.append(mk[item]())
  ru.push_children(kids)
  h.P.push_child(ru)


RUBY_SHAPES = [("ruby[Rb,Rp,Rt,Rp]", ["Rb", "Rp", "Rt", "Rp"]), ("ruby[Rb,Rp,Rt,Rp]:rp-without-span", ["Rb", "Rp0", "Rt", "Rp0"]),
               ("ruby[Rb,Rp,Rt,Rp]:one-rp-without-span", ["Rb", "Rp0", "Rt", "Rp"]),
               ("ruby[Rbc,Rtc]", [("Rbc", ["Rb"]), ("Rtc", ["Rt"])]), ("ruby[Rbc,Rtc,Rtc]", [("Rbc", ["Rb", "Rb"]), ("Rtc", ["Rt", "Rt"]), ("Rtc", ["Rt"])]),
               ("rtc[Rp,Rt,Rp]", [("Rbc", ["Rb"]), ("Rtc", ["Rp", "Rt", "Rp"])]), ("rtc[Rp,Rt,Rt,Rp]", [("Rbc", ["Rb", "Rb"]), ("Rtc", ["Rp", "Rt", "Rt", "Rp"])])]


def kind_features():
  out = [Feature("kind:skeleton", lambda h, cfg: None, CONFIGS, "region, body, div, p, span, br, ruby[Rb,Rt] unchanged")]
  for name, shape in RUBY_SHAPES:
    out.append(Feature("kind:" + name, lambda h, cfg, shape=shape: _ruby(h, shape), note=f"a ruby of shape {shape} appended to the paragraph"))

  def empty_span(h, cfg):
    s = m.Span(h.doc)
    s.set_id("s3")
    s.set_lang("en")
    h.P.push_child(s)

  def nested_div(h, cfg):
    d2 = m.Div(h.doc)
    d2.set_id("d2")
    d2.set_lang("en")
    p2 = m.P(h.doc)
    p2.set_id("p2")
    p2.set_lang("en")
    s = m.Span(h.doc)
    s.set_id("s9")
    s.set_lang("en")
    s.push_child(m.Text(h.doc, "nested"))
    p2.push_child(s)
    p2.set_region(h.Region)
    d2.push_child(p2)
    h.Div.push_child(d2)

  def only_br(h, cfg):
    h.P.remove_children()
    b = m.Br(h.doc)
    b.set_id("br2")
    h.P.push_child(b)

  def two_p(h, cfg):
    for i in range(2):
      p2 = m.P(h.doc)
      p2.set_id(f"q{i}")
      p2.set_lang("en")
      s = m.Span(h.doc)
      s.set_id(f"qs{i}")
      s.set_lang("en")
      s.push_child(m.Text(h.doc, f"second {i}"))
      p2.push_child(s)
      p2.set_begin(F(2 + i))
      p2.set_region(h.Region)
      h.Div.push_child(p2)

  def no_region(h, cfg):
    h.doc.remove_region("r1")

  def two_regions(h, cfg):
    r2 = m.Region("r2", h.doc)
    r2.set_lang("en")
    r2.set_style(SP.Origin, sp.CoordinateType(x=L(0, U.pct), y=L(0, U.pct)))
    r2.set_style(SP.Extent, sp.ExtentType(height=L(10, U.pct), width=L(100, U.pct)))
    r2.set_style(SP.BackgroundColor, RED)
    h.doc.put_region(r2)

  out += [Feature("kind:empty-span", empty_span), Feature("kind:nested-div", nested_div), Feature("kind:p-with-only-br", only_br),
          Feature("kind:several-p", two_p), Feature("kind:empty-div", lambda h, cfg: h.Div.remove_children()),
          Feature("kind:empty-body", lambda h, cfg: h.Body.remove_children()), Feature("kind:no-body", lambda h, cfg: h.doc.set_body(None)),
          Feature("kind:no-region", no_region), Feature("kind:two-regions", two_regions)]
  return out


def context_features():
  out = []
  for lang in ("", "fr-CA", "x-klingon", "zh-Hant-TW"):
    def f(h, cfg, lang=lang):
      h.doc.set_lang(lang)
      set_lang_tree(h.doc, lang)
    out.append(Feature(f"lang:document:{lang or 'empty'}", f, note=f"document and all elements in language {lang!r}"))
  for k in ["Region", "Body", "Div", "P", "Span", "Ruby", "Rt"]:
    for lang in ("fr", ""):
      def f(h, cfg, k=k, lang=lang):
        subtree_set(getattr(h, k), lambda e: e.set_lang(lang))
      out.append(Feature(f"lang:{k}-differs-from-parent", f, note=f"xml:lang {lang!r} on the {k} subtree of a document in 'en'"))
  for k in ["Region", "Body", "Div", "P", "Span", "Ruby", "Rt"]:
    def f(h, cfg, k=k):
      subtree_set(getattr(h, k), lambda e: e.set_space(m.WhiteSpaceHandling.PRESERVE))
      h.Text.set_text("  two  spaces  ")
    out.append(Feature(f"space:{k}-preserve", f, note=f"xml:space=preserve on the {k} subtree"))

  # a partial tts:textDecoration (components None = inherited) under an ancestor that has every component ON: the components the inner
  # value leaves unspecified must still come from the ancestor after the round trip (writing such a value as `none` would switch them off)
  for u in (None, True, False):
    for lt in (None, True, False):
      for o in (None, True, False):
        if (u, lt, o) == (None, None, None):
          continue
        def f(h, cfg, v=(u, lt, o)):
          h.P.set_style(SP.TextDecoration, sp.TextDecorationType(True, True, True))
          h.Span.set_style(SP.TextDecoration, sp.TextDecorationType(*v))
        out.append(Feature("textDecoration:partial-under-all-on:" + "".join("-" if x is None else ("T" if x else "F") for x in (u, lt, o)), f,
                           note=f"span textDecoration {(u, lt, o)} inside a paragraph with underline, line-through and overline on"))

  def dflt_under(h, cfg):
    subtree_set(h.Body, lambda e: e.set_space(m.WhiteSpaceHandling.PRESERVE))
    subtree_set(h.Span, lambda e: e.set_space(m.WhiteSpaceHandling.DEFAULT))
    h.Text.set_text("  two  spaces  ")
  out.append(Feature("space:default-under-preserve", dflt_under))

  def dflt_under2(h, cfg):
    subtree_set(h.P, lambda e: e.set_space(m.WhiteSpaceHandling.PRESERVE))
    subtree_set(h.Span, lambda e: e.set_space(m.WhiteSpaceHandling.DEFAULT))
    h.Text.set_text("  two  spaces  ")
  out.append(Feature("space:default-under-preserve-under-default", dflt_under2))

  def lang_nested(h, cfg):
    subtree_set(h.Div, lambda e: e.set_lang("fr"))
    subtree_set(h.Span, lambda e: e.set_lang("en"))
    subtree_set(h.Rt, lambda e: e.set_lang(""))
  out.append(Feature("lang:nested-differences", lang_nested, note="document en, div subtree fr, span back to en, rt without language"))
  for k in ["Body", "Div", "P", "Span", "Ruby"]:
    def f(h, cfg, k=k):
      r2 = m.Region("r2", h.doc)
      r2.set_lang("en")
      r2.set_style(SP.Origin, sp.CoordinateType(x=L(0, U.pct), y=L(0, U.pct)))
      r2.set_style(SP.Extent, sp.ExtentType(height=L(10, U.pct), width=L(100, U.pct)))
      h.doc.put_region(r2)
      h.P.set_region(None)
      getattr(h, k).set_region(r2)
    out.append(Feature(f"region:{k}-references", f, note=f"the {k} references a second region"))
  return out


def param_features():
  out = []
  for rows, cols in ((15, 32), (23, 40), (1, 1), (32, 15), (100, 200), (15, 40), (23, 32)):
    def f(h, cfg, rows=rows, cols=cols):
      h.doc.set_cell_resolution(m.CellResolutionType(rows=rows, columns=cols))
      h.Span.set_style(SP.FontSize, L(2, U.c))
      h.Region.set_style(SP.Padding, sp.PaddingType(L(1, U.c), L(1, U.c), L(1, U.c), L(1, U.c)))
    out.append(Feature(f"param:cell-resolution:{rows}x{cols}", f))
  for w, hh in ((640, 480), (1920, 1080), (1, 1), (3840, 2160), (1000001, 500)):
    def f(h, cfg, w=w, hh=hh):
      h.doc.set_px_resolution(m.PixelResolutionType(width=w, height=hh))
      h.Span.set_style(SP.FontSize, L(36, U.px))
    out.append(Feature(f"param:pixel-extent:{w}x{hh}", f, note="with a font size in pixels"))
  for i, aa in enumerate([(0.1, 0.1, 0.8, 0.8), (0, 0, 1, 1), (1 / 3, 1 / 7, 1 / 3, 5 / 7), (0.123456789, 0.25, 0.5, 0.5), (0.1 + 0.2, 0, 0.7, 1), (1, 1, 0, 0)]):
    out.append(Feature(f"param:active-area:{i}", lambda h, cfg, aa=aa: h.doc.set_active_area(m.ActiveAreaType(*aa)), note=f"active area {aa}"))
  for name, dar in (("16:9", F(16, 9)), ("4:3", F(4, 3)), ("1:1", F(1)), ("239:100", F(239, 100)), ("from-float", F(2.39)), ("large-terms", F(1920001, 1080001))):
    out.append(Feature(f"param:aspect-ratio:{name}", lambda h, cfg, dar=dar: h.doc.set_display_aspect_ratio(dar), note=f"display aspect ratio {dar}"))
  return out


def animation_features():
  out = []
  forms = [("unbounded", None, None), ("begin-only", 2, None), ("end-only", None, 2), ("begin-zero", 0, 3), ("empty-interval", 2, 2)]
  for name, b, e in forms:
    def f(h, cfg, b=b, e=e):
      h.Span.add_animation_step(step(SP.Color, b, e, RED))
    out.append(Feature(f"animation:{name}", f, note=f"a colour step over [{b}, {e}) on the span"))

  def two(h, cfg):
    h.Span.add_animation_step(step(SP.Color, 1, 3, RED))
    h.Span.add_animation_step(step(SP.Color, 2, 4, sp.NamedColors.blue.value))
    h.Span.add_animation_step(step(SP.Opacity, 0, 2, 0.5))
  out.append(Feature("animation:overlapping-steps", two))
  for k in KINDS:
    def f(h, cfg, k=k):
      getattr(h, k).add_animation_step(step(SP.Visibility, 1, 2, sp.VisibilityType.hidden))
      getattr(h, k).add_animation_step(step(SP.Opacity, 2, 3, 0.25))
    out.append(Feature(f"animation:on-{k}", f))
  return out


TIME_KINDS = ["Region", "Body", "Div", "P", "Span", "Ruby", "set"]


def timing_features():
  out = []

  def forms(u):
    g = lambda n: n * u     # noqa: E731
    return [("on-grid", g(37), g(1234)), ("off-grid", g(37) + u / 3, g(1234) + u * 2 / 3), ("just-off-grid", g(37) + u / 1000, g(1234) - u / 1000),
            ("half-unit-ties", g(37) + u / 2, g(38) + u / 2), ("half-unit-ties-2", g(38) + u / 2, g(41) + u / 2), ("zero-begin", F(0), g(100)),
            ("begin-only", g(250), None), ("end-only", None, g(251)), ("hours", 36000 + g(1), 360000 + g(7)), ("below-minute-and-hour", 60 - u, 3600 - u),
            ("seconds", F(1), F(10)), ("thirds", F(1, 3), F(7, 3)), ("sub-unit", u / 4, u / 2), ("decimal", F("12.3456789"), F("12.3466789"))]

  n_forms = len(forms(F(1)))
  for k in TIME_KINDS:
    for i in range(n_forms):
      name = forms(F(1))[i][0]

      def f(h, cfg, k=k, i=i):
        _c, syntax, fps = make_config(cfg)
        _n, b, e = forms(S.unit(syntax, fps))[i]
        if k != "P":
          h.P.set_begin(None)
          h.P.set_end(None)
        if k == "set":
          h.P.add_animation_step(m.DiscreteAnimationStep(SP.BackgroundColor, b, e, RED))
        else:
          getattr(h, k).set_begin(b)
          getattr(h, k).set_end(e)
      out.append(Feature(f"timing:{k}:{name}", f, CONFIGS, note=f"begin / end of the {k} on the time grid of the configuration: {name}"))
  # a container with a begin and no end whose only content ends: its end is implied by the content (begin + end of the content)
  for k, child in (("Body", "Div"), ("Div", "P"), ("P", "Span"), ("Span", None), ("Ruby", None)):
    for name, cb, ce in (("content-ends-before-container-begin-offset", None, 1), ("content-ends-later", None, 3), ("content-interval", 1, 4)):
      def f(h, cfg, k=k, child=child, cb=cb, ce=ce):
        h.P.set_begin(None)
        h.P.set_end(None)
        if k in ("P", "Span", "Ruby"):
          h.P.remove_children()
          h.P.push_child(h.Span if k != "Ruby" else h.Ruby)
          if child is None and k == "Span":
            h.Span.remove_children()
            _texts(h.doc, h.Span, [("SPAN", ["inner"])])
        getattr(h, k).set_begin(F(2))
        if child is not None:
          targets = [getattr(h, child)]
        elif k == "Span":
          targets = list(h.Span)
        else:
          targets = [h.Rb, h.Rt]
        for c in targets:
          c.set_begin(None if cb is None else F(cb))
          c.set_end(F(ce))
      out.append(Feature(f"timing:implied-end:{k}", f, note=f"the {k} begins at 2 s and has no end; its content has begin {cb} end {ce}"))
  return out


def build_features():
  return style_features() + text_features() + kind_features() + context_features() + param_features() + animation_features() + timing_features()


FEATURES = build_features()


def focus_doc(index, cfg):
  h = skeleton()
  FEATURES[index].apply(h, cfg)
  return h.doc


# ----------------------------------------------------------------------------------------------------------------------
# random documents: docgen + enrichment, minus the features that fail on their own

SCOPES = {"full": {}, "multi": {"regions": (2, 3)}, "noregion": {"regions": (0, 0)}, "plain": {"regions": (0, 1), "ruby": False, "display": False}}
SAFE = lambda v: "exp" not in sig(v)      # noqa: E731   extreme magnitudes only in the focused tier


def enrich(doc, r):
  """rich styles on elements, initial values, animation steps with any property, language variations (canonical form: every
  element carries its resolved language, as the reader produces it)"""
  lang = doc.get_lang()
  set_lang_tree(doc, lang)
  els = [e for e in S.all_elements(doc) if not isinstance(e, m.Text)]
  for e in els:
    # parts of a ruby with an empty interval: the snapshot of such a ruby is the known C01 finding (partial ruby); not generated here
    if isinstance(e.parent(), (m.Ruby, m.Rbc, m.Rtc)) and e.get_end() is not None and (e.get_begin() or 0) >= e.get_end():
      e.set_end(None)
    # ... and ruby bases / texts without any character (TTML gives them an empty interval)
    if isinstance(e, (m.Rb, m.Rt, m.Rp)):
      txts = [x for x in e.dfs_iterator() if isinstance(x, m.Text)]
      if txts and not any(x.get_text() for x in txts):
        txts[0].set_text("x")
      elif not txts:
        sps = [x for x in e.dfs_iterator() if isinstance(x, m.Span)]
        if not sps:
          sps = [m.Span(doc)]
          sps[0].set_id(e.get_id() + "s")
          e.push_child(sps[0])
        sps[-1].push_child(m.Text(doc, "("))
  for e in els:
    if r.random() < 0.06 and not isinstance(e, m.Br):
      nl = r.choice(["fr", "de-CH", ""])
      subtree_set(e, lambda x, nl=nl: x.set_lang(nl))
  for e in els:
    if r.random() < 0.35:
      cands = [p for p in PROPS if e.is_style_applicable(p) or (p.is_inherited and not isinstance(e, (m.Br, m.Region)))]
      if isinstance(e, m.Br):
        cands = [p for p in PROPS if p.is_inherited]
      for _ in range(r.choice([1, 1, 2, 3])):
        p = r.choice(cands)
        v = r.choice(FORMS[p.__name__])
        if SAFE(v) and not (p is SP.Display):
          e.set_style(p, v)
    if r.random() < 0.12:
      cands = [p for p in PROPS if e.is_style_applicable(p)] or [SP.Color]
      p = r.choice(cands)
      v = r.choice(FORMS[p.__name__])
      if SAFE(v) and p is not SP.Display:
        e.add_animation_step(m.DiscreteAnimationStep(p, r.choice([None, F(0), F(1), F(1, 2), F(5, 3)]), r.choice([None, F(2), F(7, 2), F(11, 3)]), v))
  for _ in range(r.choice([0, 0, 1, 2])):
    p = r.choice(PROPS)
    v = r.choice(FORMS[p.__name__])
    if SAFE(v) and p is not SP.Display and p is not SP.ShowBackground:
      doc.put_initial_value(p, v)
  if r.random() < 0.25:
    doc.set_px_resolution(m.PixelResolutionType(width=r.choice([1280, 720, 1920]), height=r.choice([720, 576, 1080])))
  return doc


def strip(doc, exclude):
  """remove from a random document the features whose focused check fails on its own (labels in `exclude`)"""
  if not exclude:
    return doc
  ex = set(exclude)
  for e in S.all_elements(doc):
    if isinstance(e, m.Text):
      continue
    for p in list(e.iter_styles()):
      if style_label(p, e.get_style(p), "elem") in ex:
        e.set_style(p, None)
    for st in list(e.iter_animation_steps()):
      if style_label(st.style_property, st.value, "set") in ex:
        e.remove_animation_step(st)
  for p, v in list(doc.iter_initial_values()):
    if style_label(p, v, "init") in ex:
      doc.remove_initial_value(p)
  if any(x.startswith("kind:") and "Rp" in x for x in ex) and doc.get_body() is not None:
    for e in list(doc.get_body().dfs_iterator()):
      if isinstance(e, m.Ruby) and len(e) == 4:
        kids = list(e)
        e.remove_children()
        e.push_children([kids[0], kids[2]])
  if any(x.startswith("text:adjacent-text-nodes") for x in ex) and doc.get_body() is not None:
    for e in list(doc.get_body().dfs_iterator()):
      if isinstance(e, m.Span):
        prev = None
        for c in list(e):
          if isinstance(c, m.Text) and prev is not None:
            prev.set_text(prev.get_text() + c.get_text())
            e.remove_child(c)
          else:
            prev = c if isinstance(c, m.Text) else None
  if any(x.startswith("timing:implied-end:") for x in ex):
    # make the implied end explicit (same presentation: an element without active content is not presented)
    def implied(e):
      """-> end of e relative to its parent as TTML implies it from the content, None when indefinite"""
      if isinstance(e, m.Text) and not e.get_text():
        return 0          # written as nothing
      if isinstance(e, (m.Br, m.Text)):
        return None
      ends = [implied(c) for c in e]
      b = e.get_begin() or 0
      if e.get_end() is not None:
        return e.get_end()
      if any(x is None for x in ends):
        return None
      imp = b + max(ends + [0])
      if b > 0:
        e.set_end(imp)
      return imp
    if doc.get_body() is not None:
      implied(doc.get_body())
  if any(x.startswith("lang:") and "differs" in x for x in ex):
    set_lang_tree(doc, doc.get_lang())
  return doc


def random_doc(coords, exclude):
  """coords = (seed, scope, chunk, index)"""
  seed, scope, chunk, index = coords
  doc = docgen.Gen(rng(seed, f"c05/{scope}/{chunk}/{index}"), SCOPES[scope]).document()
  enrich(doc, rng(seed, f"c05-enrich/{scope}/{chunk}/{index}"))
  return strip(doc, exclude)


# ----------------------------------------------------------------------------------------------------------------------
# the round trip


class LogCapture(logging.Handler):
  def __init__(self):
    super().__init__(logging.WARNING)
    self.records = []

  def emit(self, record):
    self.records.append(record)


CAPTURE = LogCapture()


def install_logging():
  lg = logging.getLogger("ttconv")
  lg.setLevel(logging.WARNING)
  lg.propagate = False
  if CAPTURE not in lg.handlers:
    lg.addHandler(CAPTURE)


def slug(s, n=70):
  return re.sub(r"[^A-Za-z0-9_.#%+-]+", "-", s).strip("-")[:n]


def serialize(tree):
  bio = io.BytesIO()
  tree.write(bio, encoding="utf-8", xml_declaration=True)
  return bio.getvalue()


def apply_times(doc, times):
  """replace every time of `doc` by the written one"""
  for e in S.all_elements(doc):
    if isinstance(e, (m.Text, m.Br)):
      steps = list(e.iter_animation_steps()) if isinstance(e, m.Br) else []
    else:
      if e.get_begin() is not None:
        e.set_begin(times.get((e.get_id(), "begin"), e.get_begin()))
      if e.get_end() is not None:
        e.set_end(times.get((e.get_id(), "end"), e.get_end()))
      steps = list(e.iter_animation_steps())
    if steps:
      for st in steps:
        e.remove_animation_step(st)
      for i, st in enumerate(steps):
        b = times.get((e.get_id(), "set", i, "begin"), st.begin) if st.begin is not None else None
        en = times.get((e.get_id(), "set", i, "end"), st.end) if st.end is not None else None
        e.add_animation_step(m.DiscreteAnimationStep(st.style_property, b, en, st.value))


C_WRITER = "the writer accepts every model value"
C_XML = "the written XML carries every model element, text run and animation step"
C_TIMES = "written times: configured syntax, representable exact, others < 1 unit, order kept"
C_READER = "the reader accepts what the writer wrote (no exception, no warning / error)"
C_PARAMS = "document parameters preserved"
C_SNAP = "same snapshot at every time"


def roundtrip(rec, build, cfg_name, label, replay_args, note=""):
  """one (document, configuration) evaluation; -> stage that failed or None"""
  cfg, syntax, fps = make_config(cfg_name)
  doc = build()
  desc = {"feature": label, "config": cfg_name, "doc": docgen.describe(doc, 700), "note": note}
  fpk = (label, cfg_name, replay_args.get("feature"), replay_args.get("gen") and tuple(replay_args["gen"]))
  small = docgen.describe(doc, 500)

  def fail(stage, cls, contract, msg, observed=None, required=None):
    rec.fail(f"{label}/{stage}:{cls}", contract, f"[{cfg_name}] {msg}" + (f" ({note})" if note else "") + f"; document {small}", desc,
             observed=observed, required=required, replayer=REPLAYER, replay_args=replay_args)
    return stage

  # 1. writer
  rec.evaluated(C_WRITER, fpk, desc)
  try:
    data = serialize(imsc_writer.from_model(doc, cfg))
  except Exception as e:  # pylint: disable=broad-except
    return fail("writer-raises", type(e).__name__, C_WRITER, f"imsc.writer.from_model raised {e!r}")
  text = data.decode("utf-8", "replace")
  try:
    root = et.fromstring(data)
  except et.ParseError as e:
    # witness class: the document holds a character that XML 1.0 cannot represent at all (C0 controls other than TAB, LF, CR; U+FFFE, U+FFFF)
    unrep = sorted({f"U+{ord(ch):04X}" for el in ([doc.get_body()] if doc.get_body() is not None else []) for x in el.dfs_iterator()
                    if isinstance(x, m.Text) for ch in x.get_text() if (ord(ch) < 0x20 and ch not in "\t\n\r") or ord(ch) in (0xFFFE, 0xFFFF)})
    return fail("xml", "not-well-formed" + (":character-not-representable-in-xml" if unrep else ""), C_XML,
                f"the written document is not well-formed XML: {e}" + (f" (text holds {', '.join(unrep)})" if unrep else ""), observed=text[:1500])
  # 2. structure of the XML
  rec.evaluated(C_XML, fpk)
  probs = S.xml_structure_problems(doc, root)
  if probs:
    return fail("xml", probs[0][0], C_XML, probs[0][1], observed=text[:1500])
  # 3. times
  times, pairs, probs = S.written_times(doc, root, syntax, fps)
  try:
    if S.frame_rate_of(root) != fps and not (fps is None):
      probs.append(("frame-rate-attribute", f"ttp:frameRate x multiplier = {S.frame_rate_of(root)}, configured {fps}"))
  except ValueError as e:
    probs.append(("frame-rate-attribute", str(e)))
  probs += S.time_problems(pairs, syntax, fps)
  rec.evaluated(C_TIMES, fpk if pairs else None, None, bool(pairs))
  if probs:
    return fail("times", f"{syntax}:{probs[0][0]}", C_TIMES, probs[0][1], observed=text[:1500])
  doc_q = build()
  apply_times(doc_q, times)
  # 4. reader
  rec.evaluated(C_READER, fpk)
  CAPTURE.records.clear()
  try:
    back = imsc_reader.to_model(et.ElementTree(et.fromstring(data)))
  except Exception as e:  # pylint: disable=broad-except
    return fail("reader-raises", type(e).__name__, C_READER, f"imsc.reader.to_model raised {e!r} on the written document", observed=text[:1500])
  if back is None:
    return fail("reader-raises", "returns-None", C_READER, "imsc.reader.to_model returned None", observed=text[:1500])
  if CAPTURE.records:
    r0 = CAPTURE.records[0]
    return fail("reread-logs", slug(r0.getMessage()), C_READER,
                f"re-reading logs {r0.levelname} {r0.name}: {r0.getMessage()!r} ({len(CAPTURE.records)} records)", observed=text[:1500])
  # 5. parameters
  rec.evaluated(C_PARAMS, fpk)
  probs = S.parameter_problems(doc_q, back)
  if probs:
    return fail("params", probs[0][0], C_PARAMS, probs[0][1], observed=text[:600])
  # 6. snapshots
  ts = sorted(set(times_for(doc_q)[0]) | set(times_for(back)[0]))
  for t in ts:
    try:
      a = ISD.from_model(doc_q, t)
    except Exception:  # pylint: disable=broad-except
      rec.evaluated(C_SNAP, None, None, False)      # known: snapshots of rubies with an inactive part (C01)
      continue
    try:
      b = ISD.from_model(back, t)
    except Exception as e:  # pylint: disable=broad-except
      rec.evaluated(C_SNAP, None, None, False)
      if isinstance(e, ValueError) and ("ruby" in str(e).lower() or "rtc" in str(e).lower()):
        continue      # the same known finding on the re-read side (an implied end makes a part of the ruby inactive)
      return fail("snapshot", "reread-isd-raises:" + type(e).__name__, C_SNAP, f"t={t}: ISD.from_model raises {e!r} on the re-read document only",
                  observed=text[:1500])
    va, vb = S.isd_view(a), S.isd_view(b)
    nontrivial = any(v[4] for v in va.values())
    rec.evaluated(C_SNAP, (fpk, t) if nontrivial else None, None, nontrivial)
    d = S.first_difference(va, vb)
    if d is not None:
      return fail("snapshot", d[0], C_SNAP, f"t={t}: {d[1]}: {d[2]}", observed=text[:1500], required=f"presentation of the original at t={t}")
  return None


# ----------------------------------------------------------------------------------------------------------------------
# pure-function contracts


def colour_job():
  rec = Recorder("C05", "", {})
  name = "parse_color(to_ttml_color(c)) == c and the text is a TTML <color>"
  for ch in range(4):
    for bg in ((0, 0, 0, 255), (255, 255, 255, 0), (18, 52, 86, 120)):
      for x in range(256):
        c = list(bg)
        c[ch] = x
        c = tuple(c)
        rec.evaluated(name, c, {"rgba": list(c)})
        try:
          txt = imsc_sp.StyleProperties.to_ttml_color(sp.ColorType(c))
          back = ttconv.utils.parse_color(txt)
        except Exception as e:  # pylint: disable=broad-except
          rec.fail("colour/raises:" + type(e).__name__, name, f"{c}: {e!r}", {"rgba": list(c)}, replayer="replayers.c05:colour", replay_args={"rgba": list(c)})
          continue
        p = S.color_text_problem(txt, c)
        if p or back != sp.ColorType(c):
          rec.fail("colour/" + ("text-form" if p else "re-read-differs"), name, f"{c} written {txt!r}: {p or ''} re-read {back}", {"rgba": list(c)},
                   replayer="replayers.c05:colour", replay_args={"rgba": list(c)})
  return rec


def time_grid(syntax, fps, quick, r):
  u = S.unit(syntax, fps)
  ks = set(range(0, 400)) | {59, 60, 61, 3599, 3600, 3601, 86399, 86400}
  ks |= {int(F(x) / u) + d for x in (59, 60, 600, 3599, 3600, 35999, 36000, 359999, 360000) for d in (-1, 0, 1)}
  ks |= {r.randrange(0, int(400000 / u)) for _ in range(300 if quick else 5000)}
  ts = set()
  for k in sorted(ks):
    if k < 0:
      continue
    ts.add(k * u)
    for j in (F(1, 2), F(1, 3), F(1, 1000), F(999, 1000)):
      ts.add(k * u + j * u)
  ts |= {F(r.randrange(0, 10 ** 9), r.randrange(1, 10 ** 4)) for _ in range(200 if quick else 4000)}
  ts |= {F(n, 1000) for n in range(0, 3000, 7)} | {F(n, 2000) for n in range(1, 200, 2)}
  return sorted(ts)


def time_job(job):
  syntax, rate, quick, seed = job
  fps = RATES[rate] if rate else None
  rec = Recorder("C05", "", {})
  name = "to_time_format: configured syntax, representable exact, others < 1 unit, order kept; the reader parses it to the same value"
  ctx = imsc_attr.TemporalAttributeWritingContext(frame_rate=fps, time_expression_syntax=imsc_attr.TimeExpressionSyntaxEnum[syntax])
  pairs = []
  cfg = f"{syntax}@{rate}" if rate else syntax
  for t in time_grid(syntax, fps, quick, rng(seed, "c05-times" + cfg)):
    rec.evaluated(name, (cfg, t), {"config": cfg, "t": str(t)})
    ra = {"syntax": syntax, "rate": rate, "t": str(t)}
    try:
      txt = imsc_attr.to_time_format(ctx, t)
      w = S.parse_written(txt, syntax, fps)
      back = imsc_utils.parse_time_expression(1, fps if fps is not None else F(30), txt)
    except Exception as e:  # pylint: disable=broad-except
      rec.fail(f"time-expression:{syntax}/raises:{type(e).__name__}", name, f"[{cfg}] t={t}: {e!r}", ra, replayer="replayers.c05:time_expression", replay_args=ra)
      continue
    if back != w:
      rec.fail(f"time-expression:{syntax}/reader-value", name, f"[{cfg}] t={t} written {txt!r}: TTML value {w}, the reader parses {back}", ra,
               replayer="replayers.c05:time_expression", replay_args=ra)
    pairs.append((t, w))
    for cls, msg in S.time_problems([(t, w)], syntax, fps):
      rec.fail(f"time-expression:{syntax}/{cls}", name, f"[{cfg}] {msg} ({txt!r})", ra, replayer="replayers.c05:time_expression", replay_args=ra)
  for (t1, w1), (t2, w2) in zip(pairs, pairs[1:]):
    if w1 > w2:
      ra = {"syntax": syntax, "rate": rate, "t": str(t1), "t2": str(t2)}
      rec.fail(f"time-expression:{syntax}/order-changed", name, f"[{cfg}] {t1} -> {w1} but {t2} -> {w2}", ra, replayer="replayers.c05:time_expression", replay_args=ra)
      break
  return rec


# ----------------------------------------------------------------------------------------------------------------------
# jobs


def guarded(rec, build, cfg, label, replay_args, note=""):
  """an exception of the harness itself is a checker error, never a verdict"""
  try:
    return roundtrip(rec, build, cfg, label, replay_args, note)
  except Exception:  # pylint: disable=broad-except
    import traceback
    rec.errors.append(f"harness exception on {label} [{cfg}] {replay_args}: {traceback.format_exc(limit=5)}")
    return "error"


def focus_job(job):
  install_logging()
  idxs, quick = job
  rec = Recorder("C05", "", {})
  for i in idxs:
    ft = FEATURES[i]
    cfgs = ft.cfgs
    if quick and len(cfgs) == len(FOCUS_CONFIGS) and ft.label.startswith("style:"):
      cfgs = [cfgs[0], cfgs[1 + i % 2]]
    elif quick and len(cfgs) == len(CONFIGS) and ft.label.startswith("timing:"):
      cfgs = [cfgs[(i * 5 + 3 * k) % len(CONFIGS)] for k in range(9)]      # 9 of the 28, rotating with the feature
    for cfg in cfgs:
      guarded(rec, lambda i=i, cfg=cfg: focus_doc(i, cfg), cfg, ft.label, {"feature": i, "label": ft.label, "cfg": cfg}, ft.note)
  return rec


def random_job(job):
  install_logging()
  seed, scope, chunk, count, ncfg, exclude = job
  rec = Recorder("C05", "", {})
  for i in range(count):
    coords = (seed, scope, chunk, i)
    for k in range(ncfg):
      cfg = CONFIGS[(chunk * 7 + i * ncfg + k * 11 + SCOPE_OFFSET[scope]) % len(CONFIGS)]
      guarded(rec, lambda coords=coords: random_doc(coords, exclude), cfg, "doc", {"gen": list(coords), "cfg": cfg, "exclude": sorted(exclude)})
  return rec


SCOPE_OFFSET = {s: 5 * i for i, s in enumerate(SCOPES)}


def _dispatch(job):
  kind, payload = job
  if kind == "colour":
    return colour_job()
  if kind == "time":
    return time_job(payload)
  if kind == "focus":
    return focus_job(payload)
  return random_job(payload)


def main():
  args = parse_args()
  quick = args.tier == "quick"
  n_focus = len(FEATURES)
  rec = Recorder("C05", "pure functions: all 256 values of each colour channel; 13 (syntax, rate) pairs x a grid of representable / "
                 "non-representable times. Focused documents: one skeleton (region, body, div, p, span, br, ruby) with exactly one feature "
                 "changed -- every style property x every value form x {specified, animation step, initial value}, ruby shapes, text forms, "
                 "xml:lang / xml:space variations, region references, document parameters, timing forms x 28 configurations. Random documents: "
                 "rtc/docgen.py documents enriched with rich styles / steps / initial values / languages x rotating configurations, minus the "
                 "features that fail on their own in the focused tier. A case is non-trivial when the snapshot has content",
                 {"focused_features": n_focus, "configurations": len(CONFIGS), "style_value_forms": sum(len(v) for v in FORMS.values())})
  # phase 1: pure functions + focused documents
  jobs = [("colour", None)]
  for syntax in (S.CLOCK, S.FRAMES, S.CWF):
    for rate in ([None] if syntax == S.CLOCK else list(RATES) if syntax == S.FRAMES else INT_RATES):
      jobs.append(("time", (syntax, rate, quick, args.seed)))
  idx = list(range(n_focus))
  nchunks = 64
  for c in range(nchunks):
    jobs.append(("focus", (idx[c::nchunks], quick)))
  for part in parallel(_dispatch, jobs):
    rec.merge(part)
  failing = sorted({k.split("/")[0] for k in rec.failures if not k.startswith(("doc/", "colour/", "time-expression"))})
  rec.scope["focused_features_failing_on_their_own"] = len(failing)
  # phase 2: random documents without those features
  per = 32 if quick else 160
  ncfg = 2 if quick else 4
  jobs = [("random", (args.seed, scope, ch, per, ncfg, tuple(failing))) for scope in SCOPES for ch in range(4 if quick else 16)]
  for part in parallel(_dispatch, jobs):
    rec.merge(part)
  rec.scope["random_documents"] = per * len(jobs)
  rec.exhaustive = False
  return rec.dump(args.out)


if __name__ == "__main__":
  sys.exit(main())
