"""C03: run-time contracts on ISD.from_model -- every element of a snapshot carries, for every style property applicable to
its kind, the value that TTML2/IMSC style resolution prescribes (oracle: specs/styles.py, written independently of isd.py).

Documents are built with the public model API from JSON-able descriptions (so that every failing input can be replayed):
1-2 regions (sometimes none), body/div/p/span/nested span/br/ruby (rb, rt, rp, rbc, rtc), all 36 style properties in every
value form and unit that `validate` admits, four writing modes, three cell resolutions, several pixel resolutions,
<initial> overrides, animation steps on elements with non-zero begin.

quick tier:   the full product (property x value form x element kind x {specified, animated}) with writing mode and
              resolutions cycled so that every pair of (property/form, kind, writing mode, resolution) occurs, every
              (property, form) as a document initial value, plus seeded random documents.
thorough:     the same with more random documents, more times per document and all writing modes per case.
"""
import copy
import itertools
import json
import logging
import sys
from fractions import Fraction

from rtc.common import Recorder, parse_args, rng, parallel
from specs import styles as S

import ttconv.model as M
import ttconv.style_properties as SP
from ttconv.isd import ISD

PROP = "C03"
REPLAYER = "replayers.c03:element_style"

# ---------------------------------------------------------------------------------------------------------------------
# JSON value descriptions -> ttconv values


def _n(x):
  return Fraction(x) if isinstance(x, str) else x


_ENUMS = {c.__name__: c for c in (
  SP.DirectionType, SP.DisplayType, SP.DisplayAlignType, SP.FontStyleType, SP.FontWeightType, SP.MultiRowAlignType,
  SP.OverflowType, SP.RubyAlignType, SP.AnnotationPositionType, SP.ShowBackgroundType, SP.TextAlignType, SP.TextCombineType,
  SP.UnicodeBidiType, SP.VisibilityType, SP.WrapOptionType, SP.WritingModeType, SP.SpecialValues, SP.GenericFontFamilyType)}


def _len(v):
  return None if v is None else SP.LengthType(_n(v[1]), SP.LengthType.Units(v[2]))


def _col(v):
  return None if v is None else SP.ColorType(tuple(v[1]))


def to_model(v):
  tag = v[0]
  if tag == "L":
    return _len(v)
  if tag == "C":
    return _col(v)
  if tag == "E":
    return _ENUMS[v[1]][v[2]]
  if tag == "N":
    return _n(v[1])
  if tag == "B":
    return bool(v[1])
  if tag == "X":
    return SP.ExtentType(height=_len(v[1]), width=_len(v[2]))
  if tag == "O":
    return SP.CoordinateType(x=_len(v[1]), y=_len(v[2]))
  if tag == "P":
    return SP.PositionType(_len(v[1]), _len(v[2]), SP.PositionType.HEdge[v[3]], SP.PositionType.VEdge[v[4]])
  if tag == "D":
    return SP.PaddingType(before=_len(v[1]), end=_len(v[2]), after=_len(v[3]), start=_len(v[4]))
  if tag == "TD":
    return SP.TextDecorationType(underline=v[1], line_through=v[2], overline=v[3])
  if tag == "TE":
    return SP.TextEmphasisType(style=SP.TextEmphasisType.Style[v[1]], color=_col(v[2]), position=SP.TextEmphasisType.Position[v[3]])
  if tag == "TO":
    return SP.TextOutlineType(thickness=_len(v[1]), color=_col(v[2]))
  if tag == "TS":
    return SP.TextShadowType(tuple(SP.TextShadowType.Shadow(_len(s[1]), _len(s[2]), _len(s[3]), _col(s[4])) for s in v[1]))
  if tag == "RR":
    return SP.RubyReserveType(position=SP.RubyReserveType.Position[v[1]], length=_len(v[2]))
  if tag == "FF":
    return tuple(i if isinstance(i, str) else to_model(i) for i in v[1])
  raise ValueError(f"value description {v!r}")


def prop_class(name):
  return getattr(SP.StyleProperties, name)


# ---------------------------------------------------------------------------------------------------------------------
# value forms of the 36 properties

_POOL = {
  "%": [0, 10, 25, 33.3, 50, "200/3", 80, 100, 120, 150, 7],
  "em": [0.5, 1, 1.5, 2, "4/3", 0.8, 0],
  "c": [0.5, 1, 2, 3, "7/2", 0],
  "px": [0, 1, 10, 54, 108, 96.5, 640, "45/2"],
  "rh": [0, 2.5, 5, 10, "20/3", 33, 80],
  "rw": [0, 2.5, 5, 10, "20/3", 33, 80],
}
_SMALL = {"%": [0, 5, 10, 12.5, 20, "50/3"], "em": [0, 0.1, 0.25, 0.5], "c": [0, 0.25, 0.5, 1], "px": [0, 1, 4, 10.5],
          "rh": [0, 1, 2.5, "10/3"], "rw": [0, 1, 2.5, "10/3"]}
_COLORS = [["C", [255, 0, 0, 255]], ["C", [0, 128, 0, 128]], ["C", [0, 0, 0, 0]], ["C", [17, 34, 51, 255]]]
ALL_UNITS = ["%", "em", "c", "px", "rh", "rw"]
V_UNITS = ["%", "px", "c", "rh"]          # units `validate` admits on the vertical axis of extent / origin / position
H_UNITS = ["%", "px", "c", "rw"]


def ln(r, unit, pool=_POOL, neg=False):
  v = r.choice(pool[unit])
  if neg and r.random() < 0.3 and not isinstance(v, str):
    v = -v
  return ["L", v, unit]


def _enum_forms(cls, names):
  return [(n, (lambda r, n=n: ["E", cls, n])) for n in names]


def forms(name):
  """[(form name, maker(rng) -> value description)] -- every value form / unit of the property"""
  f = []
  if name in ("BackgroundColor", "Color"):
    return [(f"color{i}", (lambda r, c=c: c)) for i, c in enumerate(_COLORS[:3])]
  if name == "Direction":
    return _enum_forms("DirectionType", ["ltr", "rtl"])
  if name == "Disparity":
    return [(u, (lambda r, u=u: ln(r, u, _SMALL, neg=True))) for u in ALL_UNITS]
  if name == "Display":
    return _enum_forms("DisplayType", ["auto", "none"])
  if name == "DisplayAlign":
    return _enum_forms("DisplayAlignType", ["before", "center", "after"])
  if name == "Extent":
    for hu, wu in zip(V_UNITS, H_UNITS):
      f.append((f"{hu}x{wu}", (lambda r, hu=hu, wu=wu: ["X", ln(r, hu), ln(r, wu)])))
    f.append(("mixed", lambda r: ["X", ln(r, r.choice(V_UNITS)), ln(r, r.choice(H_UNITS))]))
    return f
  if name == "FillLineGap":
    return [("true", lambda r: ["B", True]), ("false", lambda r: ["B", False])]
  if name == "FontFamily":
    return [("generic", lambda r: ["FF", [["E", "GenericFontFamilyType", r.choice(["monospace", "sansSerif", "proportionalSerif"])]]]),
            ("named", lambda r: ["FF", ["Arial", "Noto Sans"]]),
            ("mixed", lambda r: ["FF", ["Helvetica", ["E", "GenericFontFamilyType", "default"]]])]
  if name == "FontSize":
    return [(u, (lambda r, u=u: ln(r, u))) for u in ALL_UNITS]
  if name == "FontStyle":
    return _enum_forms("FontStyleType", ["normal", "italic", "oblique"])
  if name == "FontWeight":
    return _enum_forms("FontWeightType", ["normal", "bold"])
  if name == "LineHeight":
    return [("normal", lambda r: ["E", "SpecialValues", "normal"])] + [(u, (lambda r, u=u: ln(r, u))) for u in ALL_UNITS]
  if name == "LinePadding":
    return [(u, (lambda r, u=u: ln(r, u, _SMALL))) for u in ("c", "rh", "rw")]
  if name in ("LuminanceGain", "Opacity", "Shear"):
    pool = {"LuminanceGain": [0.5, 2, "3/2", 1], "Opacity": [0, 0.5, 1, "1/4"], "Shear": [0, 16.67, -50, "100/3"]}[name]
    return [(f"n{i}", (lambda r, v=v: ["N", v])) for i, v in enumerate(pool)]
  if name == "MultiRowAlign":
    return _enum_forms("MultiRowAlignType", ["start", "center", "end", "auto"])
  if name == "Origin":
    for xu, yu in zip(H_UNITS, V_UNITS):
      f.append((f"{xu},{yu}", (lambda r, xu=xu, yu=yu: ["O", ln(r, xu, neg=True), ln(r, yu, neg=True)])))
    f.append(("mixed", lambda r: ["O", ln(r, r.choice(H_UNITS)), ln(r, r.choice(V_UNITS))]))
    return f
  if name == "Overflow":
    return _enum_forms("OverflowType", ["visible", "hidden"])
  if name == "Padding":
    for u in ALL_UNITS:
      f.append((u, (lambda r, u=u: ["D"] + [ln(r, u, _SMALL) for _ in range(4)])))
    f.append(("mixed", lambda r: ["D"] + [ln(r, r.choice(ALL_UNITS), _SMALL) for _ in range(4)]))
    f.append(("distinct%", lambda r: ["D", ["L", 1, "%"], ["L", 2, "%"], ["L", 3, "%"], ["L", 4, "%"]]))
    return f
  if name == "Position":
    for (hu, vu), he, ve in itertools.product(zip(H_UNITS, V_UNITS), ("left", "right"), ("top", "bottom")):
      f.append((f"{he} {hu} {ve} {vu}", (lambda r, hu=hu, vu=vu, he=he, ve=ve: ["P", ln(r, hu), ln(r, vu), he, ve])))
    f.append(("center", lambda r: ["P", ["L", 50, "%"], ["L", 50, "%"], "left", "top"]))
    f.append(("ttml-default", lambda r: ["P", ["L", 0, "%"], ["L", 0, "%"], "left", "top"]))     # present with the default value is not the same as absent
    f.append(("mixed", lambda r: ["P", ln(r, r.choice(H_UNITS)), ln(r, r.choice(V_UNITS)), r.choice(["left", "right"]),
                                  r.choice(["top", "bottom"])]))
    return f
  if name == "RubyAlign":
    return _enum_forms("RubyAlignType", ["center", "spaceAround"])
  if name == "RubyPosition":
    return _enum_forms("AnnotationPositionType", ["before", "after", "outside"])
  if name == "RubyReserve":
    f.append(("none", lambda r: ["E", "SpecialValues", "none"]))
    for p in ("both", "before", "after", "outside"):
      f.append((f"{p}-nolength", (lambda r, p=p: ["RR", p, None])))
    for u in ALL_UNITS:
      f.append((u, (lambda r, u=u: ["RR", r.choice(["both", "before", "after", "outside"]), ln(r, u)])))
    return f
  if name == "ShowBackground":
    return _enum_forms("ShowBackgroundType", ["always", "whenActive"])
  if name == "TextAlign":
    return _enum_forms("TextAlignType", ["center", "start", "end"])
  if name == "TextCombine":
    return _enum_forms("TextCombineType", ["none", "all"])
  if name == "TextDecoration":
    combos = [(True, True, True), (False, False, False), (True, None, None), (None, True, None), (None, None, True),
              (False, None, None), (None, False, True), (True, False, None), (None, None, None)]
    return [("".join("N" if x is None else "TF"[not x] for x in c), (lambda r, c=c: ["TD"] + list(c))) for c in combos]
  if name == "TextEmphasis":
    f.append(("none", lambda r: ["E", "SpecialValues", "none"]))
    for st in ("auto", "filled_circle", "filled_dot", "filled_sesame", "open_circle", "open_dot", "open_sesame"):
      f.append((st, (lambda r, st=st: ["TE", st, r.choice([None] + _COLORS[:2]), r.choice(["outside", "before", "after"])])))
    f.append(("auto-current", lambda r: ["TE", "auto", None, "before"]))
    f.append(("auto-color", lambda r: ["TE", "auto", _COLORS[1], "after"]))
    return f
  if name == "TextOutline":
    f.append(("none", lambda r: ["E", "SpecialValues", "none"]))
    for u in ALL_UNITS:
      f.append((f"{u}-current", (lambda r, u=u: ["TO", ln(r, u, _SMALL), None])))
      f.append((f"{u}-color", (lambda r, u=u: ["TO", ln(r, u, _SMALL), r.choice(_COLORS)])))
    return f
  if name == "TextShadow":
    f.append(("none", lambda r: ["E", "SpecialValues", "none"]))
    for u in ALL_UNITS:
      f.append((f"{u}-blur", (lambda r, u=u: ["TS", [["S", ln(r, u, _SMALL, neg=True), ln(r, u, _SMALL, neg=True), ln(r, u, _SMALL),
                                                      r.choice([None] + _COLORS[:2])]]])))
    f.append(("noblur", lambda r: ["TS", [["S", ln(r, r.choice(ALL_UNITS), _SMALL), ln(r, r.choice(ALL_UNITS), _SMALL), None, None]]]))
    f.append(("two", lambda r: ["TS", [["S", ln(r, r.choice(ALL_UNITS), _SMALL), ln(r, r.choice(ALL_UNITS), _SMALL),
                                        r.choice([None, ln(r, r.choice(ALL_UNITS), _SMALL)]), r.choice([None] + _COLORS[:2])]
                                       for _ in range(2)]]))
    return f
  if name == "UnicodeBidi":
    return _enum_forms("UnicodeBidiType", ["normal", "embed", "bidiOverride"])
  if name == "Visibility":
    return _enum_forms("VisibilityType", ["visible", "hidden"])
  if name == "WrapOption":
    return _enum_forms("WrapOptionType", ["wrap", "noWrap"])
  if name == "WritingMode":
    return _enum_forms("WritingModeType", ["lrtb", "rltb", "tbrl", "tblr"])
  raise KeyError(name)


def random_value(r, name):
  return r.choice(forms(name))[1](r)


# ---------------------------------------------------------------------------------------------------------------------
# document descriptions -> documents

CELLS = [(15, 32), (23, 40), (1, 1)]                       # (rows, columns)
PIXELS = [(1920, 1080), (1280, 720), (720, 576), (1, 1)]   # (width, height)
WMS = ["lrtb", "rltb", "tbrl", "tblr"]
RUBY_INTERNAL = ("Rb", "Rt", "Rp", "Rbc", "Rtc")


def node(kind, eid, children=None, text=None):
  d = {"k": kind, "id": eid}
  if text is not None:
    d["text"] = text
  if children is not None:
    d["children"] = children
  return d


def _apply(doc, el, d):
  if d.get("begin") is not None:
    el.set_begin(_n(d["begin"]))
  if d.get("end") is not None:
    el.set_end(_n(d["end"]))
  for name, v in d.get("styles", []):
    el.set_style(prop_class(name), to_model(v))
  for name, b, e, v in d.get("sets", []):
    el.add_animation_step(M.DiscreteAnimationStep(prop_class(name), None if b is None else _n(b), None if e is None else _n(e),
                                                  to_model(v)))


def _build_node(doc, d):
  kind = d["k"]
  if kind == "Text":
    return M.Text(doc, d["text"])
  el = getattr(M, kind)(doc)
  el.set_id(d["id"])
  if d.get("region") is not None:
    el.set_region(doc.get_region(d["region"]))
  _apply(doc, el, d)
  children = [_build_node(doc, c) for c in d.get("children", [])]
  if kind in ("Ruby", "Rtc"):
    el.push_children(children)
  else:
    for c in children:
      el.push_child(c)
  return el


def build(desc):
  doc = M.ContentDocument()
  doc.set_cell_resolution(M.CellResolutionType(rows=desc["cell"][0], columns=desc["cell"][1]))
  doc.set_px_resolution(M.PixelResolutionType(width=desc["px"][0], height=desc["px"][1]))
  for name, v in desc.get("initials", []):
    doc.put_initial_value(prop_class(name), to_model(v))
  for rd in desc["regions"]:
    region = M.Region(rd["id"], doc)
    _apply(doc, region, rd)
    doc.put_region(region)
  if desc.get("body") is not None:
    doc.set_body(_build_node(doc, desc["body"]))
  return doc


def template(n_regions=1, variant=0, keep=None):
  """a document with one element of every kind; -> (description, {role: node description}).
  keep: ids of the children of p1 to keep (None: all); the second div is kept with two regions or when "d0" is in keep"""
  def sp(eid, text):
    return node("Span", eid, [node("Text", None, text=text)])
  s2 = sp("s2", "b")
  s1 = node("Span", "s1", [node("Text", None, text="a"), s2, node("Br", "br2")])
  br1 = node("Br", "br1")
  rb1, rt1 = node("Rb", "rb1", [sp("rbs1", "k")]), node("Rt", "rt1", [sp("rts1", "r")])
  ru1 = node("Ruby", "ru1", [rb1, rt1])
  rb2 = node("Rb", "rb2", [sp("rbs2", "k")])
  rbc1 = node("Rbc", "rbc1", [rb2])
  rt2 = node("Rt", "rt2", [sp("rts2", "r")])
  rtc1 = node("Rtc", "rtc1", [rt2])
  rp1 = node("Rp", "rp1", [sp("rps1", "(")])
  rtc2 = node("Rtc", "rtc2", [rp1, node("Rt", "rt3", [sp("rts3", "q")]), node("Rp", "rp2", [sp("rps2", ")")])])
  ru2 = node("Ruby", "ru2", [rbc1, rtc1, rtc2])
  ru3 = node("Ruby", "ru3", [node("Rb", "rb3", [sp("rbs3", "k")]), node("Rp", "rp3", [sp("rps3", "(")]),
                             node("Rt", "rt4", [sp("rts4", "r")]), node("Rp", "rp4", [sp("rps4", ")")])])
  p1 = node("P", "p1", [c for c in (s1, br1, ru1, ru2, ru3) if keep is None or c["id"] in keep])
  d1 = node("Div", "d1", [p1])
  p2 = node("P", "p2", [sp("s3", "c")])
  d0 = node("Div", "d0", [node("Div", "d2", [p2])])
  body = node("Body", "b", [d1, d0] if (keep is None or "d0" in keep or n_regions == 2) else [d1])
  regions = [{"id": "r1"}]
  if n_regions == 2:
    regions.append({"id": "r2"})
    d1["region"] = "r1"
    d0["region"] = "r2"
  elif n_regions == 1:
    if variant % 2:
      body["region"] = "r1"
    else:
      d1["region"] = "r1"
      p2["region"] = "r1"
  else:
    regions = []
  desc = {"cell": list(CELLS[0]), "px": list(PIXELS[0]), "initials": [], "regions": regions, "body": body}
  roles = {"Region": regions[0] if regions else None, "Body": body, "Div": d1, "P": p1, "Span": s1, "Span2": s2, "Br": br1,
           "Ruby": ru1, "Rb": rb1, "Rt": rt1, "Rbc": rbc1, "Rtc": rtc1, "Rt@Rtc": rt2, "Rp": rp1, "Span@Rt": rt1["children"][0],
           "Region2": regions[1] if len(regions) > 1 else None, "P2": p2}
  return desc, roles


NEEDS = {"Span": "s1", "Span2": "s1", "Br": "br1", "Ruby": "ru1", "Rb": "ru1", "Rt": "ru1", "Span@Rt": "ru1", "Rbc": "ru2",
         "Rtc": "ru2", "Rt@Rtc": "ru2", "Rp": "ru2"}


def keep_for(kind, idx):
  keep = {"s1", NEEDS.get(kind, ("br1", "ru1", "ru2", "ru3")[idx % 4])}
  if idx % 3 == 0:
    keep.add("d0")
  return keep


KINDS = ["Region", "Body", "Div", "P", "Span", "Span2", "Br", "Ruby", "Rb", "Rt", "Rbc", "Rtc", "Rt@Rtc", "Rp", "Span@Rt"]
CHAIN = {   # ancestors (roles) of each role, outermost first
  "Region": [], "Body": ["Region"], "Div": ["Region", "Body"], "P": ["Region", "Body", "Div"],
  "Span": ["Region", "Body", "Div", "P"], "Span2": ["Region", "Body", "Div", "P", "Span"], "Br": ["Region", "Body", "Div", "P"],
  "Ruby": ["Region", "Body", "Div", "P"], "Rb": ["Region", "Body", "Div", "P", "Ruby"], "Rt": ["Region", "Body", "Div", "P", "Ruby"],
  "Rbc": ["Region", "Body", "Div", "P"], "Rtc": ["Region", "Body", "Div", "P"], "Rt@Rtc": ["Region", "Body", "Div", "P", "Rtc"],
  "Rp": ["Region", "Body", "Div", "P"], "Span@Rt": ["Region", "Body", "Div", "P", "Ruby", "Rt"],
}
NOISE_PROPS = ["FontSize", "FontSize", "Color", "TextDecoration", "LineHeight", "TextOutline", "TextEmphasis", "TextShadow",
               "RubyReserve", "LinePadding", "Direction", "Visibility", "Opacity", "BackgroundColor", "FontFamily", "TextAlign",
               "RubyPosition", "WrapOption", "Shear"]


def add_style(d, name, v):
  d.setdefault("styles", [])
  d["styles"] = [s for s in d["styles"] if s[0] != name] + [[name, v]]


def has_style(d, name):
  return any(s[0] == name for s in d.get("styles", []))


def noise(r, desc, roles, chain, full_td):
  """random styles on the ancestors of the target (inheritance chains: em of % of c ...) and a random region geometry"""
  reg = roles["Region"]
  if reg is not None:
    if r.random() < 0.7:
      add_style(reg, "Extent", random_value(r, "Extent"))
    if r.random() < 0.4:
      add_style(reg, "Origin", random_value(r, "Origin"))
    if r.random() < 0.3:
      add_style(reg, "Padding", random_value(r, "Padding"))
  for role in chain:
    d = roles[role]
    if d is None:
      continue
    for _ in range(r.choice([0, 1, 1, 2, 3])):
      name = r.choice(NOISE_PROPS)
      v = random_value(r, name)
      if name == "TextDecoration" and full_td and None in v[1:]:
        continue
      add_style(d, name, v)


def place_wm(r, desc, roles, wm, how):
  reg = roles["Region"]
  v = ["E", "WritingModeType", wm]
  if reg is None or how == "init":
    desc["initials"].append(["WritingMode", v])
  elif how == "anim":
    reg.setdefault("sets", []).append(["WritingMode", None, None, v])
    if r.random() < 0.5:
      add_style(reg, "WritingMode", ["E", "WritingModeType", r.choice(WMS)])
  else:
    add_style(reg, "WritingMode", v)


def make_case(seed, idx, name, form_name, kind, mode, wm, cell, px, with_spec=None):
  """one document of the pairwise tier; -> (description, [times], info)"""
  r = rng(seed, f"case/{idx}/{name}/{form_name}/{kind}/{mode}")
  maker = dict(forms(name))[form_name]
  desc, roles = template(2 if idx % 5 == 4 else 1, idx, keep_for(kind, idx))
  desc["cell"], desc["px"] = list(cell), list(px)
  target = roles[kind]
  value = maker(r)
  # partially specified text decorations above the target are a finding of their own: keep them out of 3 cases in 4
  noise(r, desc, roles, CHAIN[kind], full_td=(idx % 4 != 0))
  if not (name == "WritingMode" and kind == "Region"):
    place_wm(r, desc, roles, wm, "spec" if idx % 7 else r.choice(["anim", "init"]))
  times = [Fraction(0)]
  if mode == "spec":
    add_style(target, name, value)
  else:
    # animation: the timed element is the target itself, or (ruby internals, br) the enclosing p
    timed = roles["P"] if (kind in RUBY_INTERNAL or kind in ("Br", "Span@Rt")) else target
    b = r.choice([1, 2, "3/2"])
    timed["begin"] = b
    if r.random() < 0.5:
      timed["end"] = r.choice([10, 12])
    sb, se = r.choice([(None, None), (1, None), (None, 3), (1, 3), ("1/2", "5/2")])
    steps = target.setdefault("sets", [])
    other = maker(r)
    if (r.random() < 0.5) if with_spec is None else with_spec:
      add_style(target, name, other)                       # the animation must win over the specified value
    if r.random() < 0.4:
      steps.append([name, sb, se, other])                  # the later of two active steps must win
    steps.append([name, sb, se, value])
    if r.random() < 0.3:
      steps.append([name, 20, 30, other])                  # an inactive step after it must not
    # absolute begin of the timed element (its ancestors start at 0)
    ab = Fraction(b)
    s0 = ab + (Fraction(sb) if sb is not None else 0)
    s1 = ab + Fraction(se) if se is not None else None
    times = [s0 if idx % 2 else s0 + Fraction(1, 4)]      # the step has just begun / is under way
    if s1 is not None:
      times.append(s1)                                     # the step has just ended
    elif sb is not None:
      times.append(ab)                                     # the element has begun, the step has not
  info = {"prop": name, "form": form_name, "kind": kind, "mode": mode, "wm": wm, "cell": list(cell), "px": list(px)}
  return desc, times, info


def make_initial_case(seed, idx, name, form_name, wm, cell, px):
  r = rng(seed, f"init/{idx}/{name}/{form_name}")
  value = dict(forms(name))[form_name](r)
  desc, roles = template([1, 1, 2, 0][idx % 4], idx, keep_for("any", idx))
  desc["cell"], desc["px"] = list(cell), list(px)
  noise(r, desc, roles, ["Region", "Body", "Div", "P", "Span"], full_td=(idx % 4 != 0))
  if name != "WritingMode":
    place_wm(r, desc, roles, wm, "spec")
  desc["initials"].append([name, value])
  reg = roles["Region"]
  if reg is not None and idx % 3 == 1:
    add_style(reg, name, dict(forms(name))[form_name](r))        # the specified value must win over <initial>
  if reg is not None and name == "Position" and idx % 3 != 1:
    # an <initial tts:position> next to a SPECIFIED tts:origin (and an extent the position can be resolved against): the one case in
    # which an initial value that equals the TTML default is not the same as no initial value
    add_style(reg, "Origin", ["O", ["L", 10 + idx % 7, "%"], ["L", 20 + idx % 5, "%"]])
    add_style(reg, "Extent", ["X", ["L", 40, "%"], ["L", 50, "%"]])
  info = {"prop": name, "form": form_name, "kind": "initial", "mode": "init", "wm": wm, "cell": list(cell), "px": list(px)}
  return desc, [Fraction(0)], info


def all_nodes(desc):
  out = list(desc["regions"])

  def rec(d):
    if d["k"] != "Text":
      out.append(d)
      for c in d.get("children", []):
        rec(c)
  if desc.get("body"):
    rec(desc["body"])
  return out


def boundaries(desc):
  """absolute begin / end of every element and animation step (plain interval arithmetic of the harness)"""
  ts = {Fraction(0)}

  def iv(d, pb, pe):
    b = pb + (Fraction(d["begin"]) if d.get("begin") is not None else 0)
    e = pb + Fraction(d["end"]) if d.get("end") is not None else None
    e = pe if e is None else (e if pe is None else min(e, pe))
    ts.add(b)
    if e is not None:
      ts.add(e)
    for _, sb, se, _ in d.get("sets", []):
      x = b + (Fraction(sb) if sb is not None else 0)
      ts.add(x)
      if se is not None:
        ts.add(b + Fraction(se))
    return b, e

  def rec(d, pb, pe):
    if d["k"] == "Text":
      return
    b, e = iv(d, pb, pe)
    for c in d.get("children", []):
      rec(c, b, e)
  for rd in desc["regions"]:
    iv(rd, Fraction(0), None)
  if desc.get("body"):
    rec(desc["body"], Fraction(0), None)
  ts = sorted(ts)
  mids = [(a + b) / 2 for a, b in zip(ts, ts[1:])]
  return sorted(set(ts + mids + [ts[-1] + 1]))


def in_ruby(d):
  """element ids of the template inside a ruby container start with rb / rt / rp (rbs1, rts2, rps3 ... are their spans)"""
  return str(d.get("id", "")).startswith(("rb", "rt", "rp"))


def make_random(seed, idx):
  r = rng(seed, f"random/{idx}")
  keep = None if r.random() < 0.3 else set(r.sample(["s1", "br1", "ru1", "ru2", "ru3", "d0"], r.choice([2, 3])))
  desc, roles = template(r.choice([1, 1, 1, 2, 2, 0]), r.randrange(4), keep)
  desc["cell"], desc["px"] = list(r.choice(CELLS)), list(r.choice(PIXELS))
  names = list(S.PROPS)
  for _ in range(r.choice([0, 0, 1, 2, 3])):
    n = r.choice(names)
    desc["initials"] = [i for i in desc["initials"] if i[0] != n] + [[n, random_value(r, n)]]
  timed_ok = [d for d in all_nodes(desc) if d.get("id") in ("r1", "r2", "b", "d0", "d1", "d2", "p1", "p2", "s1", "s2", "s3")]
  for d in all_nodes(desc):
    k = d.get("k", "Region")
    dens = r.choice([0, 1, 2, 4, 8]) if k != "Br" else r.choice([0, 0, 0, 1])
    for _ in range(dens):
      n = r.choice(names)
      if n == "Display" and (k in RUBY_INTERNAL or in_ruby(d) or r.random() < 0.8):
        continue
      if k == "Br" and n not in ("Color", "FontSize", "FontStyle", "BackgroundColor", "Direction"):
        continue
      add_style(d, n, random_value(r, n))
  for d in r.sample(timed_ok, min(len(timed_ok), r.choice([0, 1, 2, 3]))):
    d["begin"] = r.choice([1, 2, "1/2", 0])
    if r.random() < 0.5:
      d["end"] = r.choice([4, 6, "7/2"])
    for _ in range(r.choice([0, 1, 2, 2])):
      n = r.choice(names)
      if n == "Display":
        continue
      d.setdefault("sets", []).append([n, r.choice([None, 0, 1, "1/2"]), r.choice([None, 2, 3, 100]), random_value(r, n)])
  # animation on ruby internals / br without a begin of their own
  for d in r.sample(all_nodes(desc), 2):
    if d.get("k") in RUBY_INTERNAL + ("Br", "Ruby"):
      n = r.choice(names)
      if n != "Display" and not (d.get("k") == "Br" and n not in ("Color", "FontStyle", "Direction")):
        d.setdefault("sets", []).append([n, r.choice([None, 1]), r.choice([None, 3]), random_value(r, n)])
  ts = boundaries(desc)
  times = r.sample(ts, min(len(ts), 2))
  info = {"kind": "random", "mode": "random", "wm": "*", "prop": "*", "form": "*", "cell": desc["cell"], "px": desc["px"]}
  return desc, sorted(times), info


# ---------------------------------------------------------------------------------------------------------------------
# the contracts


def _kind(el):
  return S._kind(el)   # class name, ISD.Region -> Region


AFFECTS = {
  "vertical-font-axis": ("FontSize", "LineHeight", "LinePadding", "RubyReserve", "TextOutline", "TextShadow", "Extent", "Padding"),
  "tb-direction": ("Direction",), "direction-from": ("Direction",), "ruby-reserve-length": ("RubyReserve",),
  "initial-position": ("Origin", "Position"), "disparity": ("Disparity",), "td-root-fill": ("TextDecoration",), "inline-cell-axis": ("LinePadding", "TextShadow"),
}


def _alternatives(doc, t, touched, cache, name):
  """computed values under every combination of the probable rules that the document touches and that bear on the
  property `name` (lazily, on a mismatch)"""
  names = tuple(sorted(n for n in touched if name in AFFECTS[n]))
  if names not in cache:
    alts = []
    for combo in itertools.product(*[S.READINGS[n] for n in names]):
      rd = dict(zip(names, combo))
      if all(rd[n] == S.READINGS[n][0] for n in names):
        continue
      try:
        alts.append((rd, S.resolve(doc, t, rd)[0]))
      except S.Undefined:
        pass
    cache[names] = alts
  return cache[names]


def _has_none_component(v):
  return isinstance(v, tuple) and v and v[0] == "TD" and None in v[1:]


def _position_ignores_extent(doc, name, obs, extra):
  """the observed origin / position is `100 - offset` on an axis measured from the right / bottom edge (the extent of the
  region is not subtracted) and the plain offset on the other axis"""
  if not extra or "position" not in extra:
    return False
  _, ho, vo, hedge, vedge = extra["position"]
  if hedge != "right" and vedge != "bottom":
    return False
  _, eh, ew = extra["extent"]
  env = S._Env(doc, None)
  x = S.resolve_length(env, ho, "h", S.L(100 - ew[1], "rw"), None)
  y = S.resolve_length(env, vo, "v", S.L(100 - eh[1], "rh"), None)
  if hedge == "right":
    x = ("L", 100 - x[1], x[2])
  if vedge == "bottom":
    y = ("L", 100 - y[1], y[2])
  return S.same(obs[1], x) and S.same(obs[2], y)


def classify(doc, name, kind, src, obs, exp, root, region_sources, rid):
  if name == "TextDecoration" and _has_none_component(obs):
    return "textdecoration-unresolved-component"
  if name in ("Position", "Origin") and kind == "Region" and _position_ignores_extent(doc, name, obs, region_sources.get("_extra")):
    return "position-right-bottom-edge"
  if (name == "TextEmphasis" and isinstance(obs, tuple) and isinstance(exp, tuple) and obs[0] == "TE" and exp[0] == "TE"
      and obs[2:] == exp[2:] and {obs[1], exp[1]} == {"filled_circle", "filled_sesame"}):
    return "textemphasis-auto-ignores-region-writing-mode"
  if name == "Direction" and root is not None and root[0] == rid and root[1] == "anim":
    return "region-direction-animation-overridden"
  return f"value:{name}:{kind}:{src}"


def check_snapshot(rec, doc, t, desc, info, collect=None):
  """evaluate the contracts on ISD.from_model(doc, t); `collect` (list) receives (key, region id, element id, property,
  observed, required) of every failure"""
  # premise of every other contract: the document under test is the one described -- every <initial> value given to
  # put_initial_value is the document's initial value (the oracle reads the document, so a model that silently drops or alters a
  # value would otherwise be judged against the altered document)
  for name, v in desc.get("initials", []):
    rec.evaluated("the document keeps the initial values it was given", (name, repr(v)))
    want = to_model(v)
    has = doc.has_initial_value(prop_class(name))
    got = doc.get_initial_value(prop_class(name)) if has else None
    if not has or got != want:
      key = f"initial-value-not-kept:{name}"
      msg = f"put_initial_value({name}, {want!r}) -- the document then has {'no initial value' if not has else repr(got)} for it"
      if collect is not None:
        collect.append((key, None, None, name, repr(got), repr(want)))
      else:
        rec.fail(key, "the document keeps the initial values it was given", msg, {"doc": desc, "t": str(t)}, repr(got), repr(want),
                 replayer="replayers.c03:element_style", replay_args={"desc": desc, "t": str(t), "key": key})
  try:
    isd = ISD.from_model(doc, t)
  except Exception as e:  # pylint: disable=broad-except
    br_styled = any(d.get("k") == "Br" and (d.get("styles") or d.get("sets")) for d in all_nodes(desc))
    key = "br-specified-style-raises" if br_styled else f"from-model-raises:{type(e).__name__}"
    rec.evaluated("from_model-total", (info["kind"], info["mode"]))
    if collect is not None:
      collect.append((key, None, None, None, repr(e), "a snapshot"))
    else:
      rec.fail(key, "from_model-total", f"ISD.from_model raised {type(e).__name__}: {e} at t={t}",
               input_={"doc": desc, "t": str(t)}, observed=repr(e), required="a snapshot whose elements carry the resolved styles",
               replayer=REPLAYER, replay_args={"desc": desc, "t": str(t), "key": key})
    return
  rec.evaluated("from_model-total", (info["kind"], info["mode"]))
  values, sources, touched = S.resolve(doc, t)
  cache = {}

  def fail(key, contract, rid, eid, name, obs, exp, what):
    if collect is not None:
      collect.append((key, rid, eid, name, obs, exp))
      return
    rec.fail(key, contract, what, input_={"doc": desc, "t": str(t), "region": rid, "element": eid, "property": name},
             observed=S.show(obs) if obs is not None else None, required=S.show(exp) if exp is not None else None,
             replayer=REPLAYER, replay_args={"desc": desc, "t": str(t), "key": key})

  def walk(el, rid, parent_bad):
    kind = _kind(el)
    if kind == "Text":
      return
    eid = el.get_id()
    exp = values[rid].get(eid)
    if exp is None:
      return                   # activity of elements is C01's subject, not checked here
    srcs = sources[rid][eid]
    observed = {p.__name__: S.normalize(el.get_style(p)) for p in el.iter_styles()}
    applicable = S.APPLICABLE[kind]
    fp = (kind, info["wm"], tuple(info["cell"]))
    rec.evaluated("only-applicable-styles", fp)
    extra = sorted(set(observed) - applicable)
    if extra:
      fail(f"inapplicable-style-kept:{kind}", "only-applicable-styles", rid, eid, extra[0], observed[extra[0]], None,
           f"{kind} {eid!r} in region {rid!r} keeps {extra} which do not apply to it (t={t})")
    if kind not in ("Br", "Text"):
      rec.evaluated("all-applicable-styles", fp)
      missing = sorted(applicable - set(observed))
      if missing:
        fail(f"applicable-style-missing:{kind}", "all-applicable-styles", rid, eid, missing[0], None, exp[missing[0]],
             f"{kind} {eid!r} in region {rid!r} lacks {missing} (t={t})")
    bad = set()
    for name in sorted(applicable & set(observed)):
      src = srcs[name]
      obs = observed[name]
      contract = "computed-value/" + name
      sample = None
      if rec.per_contract.get(contract, 0) < 3:
        sample = {"element": f"{kind} {eid}", "t": str(t), "source": src, "computed": S.show(obs), "oracle": S.show(exp[name])}
      rec.evaluated(contract, (kind, src, info["wm"], tuple(info["cell"]), tuple(info["px"])), sample)
      if S.same(obs, exp[name]):
        continue
      if any(S.same(obs, alt[rid].get(eid, {}).get(name)) for _, alt in _alternatives(doc, t, touched, cache, name)
             if rid in alt):
        continue
      bad.add(name)
      if src == "inh" and name in parent_bad:
        continue               # consequence of the parent's failure, reported there
      key = classify(doc, name, kind, src, obs, exp[name], srcs.get("_root", {}).get(name), sources[rid][rid], rid)
      fail(key, "computed-value/" + name, rid, eid, name, obs, exp[name],
           f"{name} of {kind} {eid!r} in region {rid!r} at t={t}: computed {S.show(obs)}, style resolution gives {S.show(exp[name])} "
           f"(value from: {src})")
    for child in el:
      walk(child, rid, bad)

  for region in isd.iter_regions():
    rid = region.get_id()
    if rid in values:
      walk(region, rid, set())


# ---------------------------------------------------------------------------------------------------------------------
# reduction of a failing document (first witness of a key only)


def minimize(desc, t, key, budget=200):
  """greedy reduction: drop initial values, styles, animation steps, timing, region references and whole children (never
  parts of a ruby container, whose content model is fixed) while the same failure key persists"""
  def fails(d):
    try:
      doc = build(d)
    except Exception:  # pylint: disable=broad-except
      return False
    got = []
    check_snapshot(Recorder(PROP, "", {}), doc, t, d, {"kind": "min", "mode": "min", "wm": "*", "cell": d["cell"], "px": d["px"]}, got)
    return any(g[0] == key for g in got)

  cur = copy.deepcopy(desc)
  n = 0
  changed = True
  while changed and n < budget:
    changed = False
    cands = []
    nodes = all_nodes(cur)
    for j, d in enumerate(nodes):
      if d.get("k") in ("Body", "Div", "P", "Span") and d.get("id") not in ("rbs1", "rbs2", "rbs3", "rts1", "rts2", "rts3", "rts4",
                                                                        "rps1", "rps2", "rps3", "rps4"):
        for i in range(len(d.get("children", []))):
          if d["children"][i]["k"] != "Text":
            cands.append(("children", j, i))
    for i in range(len(cur.get("initials", []))):
      cands.append(("initials", None, i))
    for j, d in enumerate(nodes):
      for field in ("styles", "sets"):
        for i in range(len(d.get(field, []))):
          cands.append((field, j, i))
      for field in ("begin", "end"):           # region references stay: content without a region is pruned altogether
        if d.get(field) is not None:
          cands.append((field, j, None))
    for field, j, i in cands:
      trial = copy.deepcopy(cur)
      tn = all_nodes(trial)
      if field == "initials":
        del trial["initials"][i]
      elif field in ("styles", "sets", "children"):
        del tn[j][field][i]
      else:
        tn[j][field] = None
      n += 1
      if n >= budget:
        break
      if fails(trial):
        cur = trial
        changed = True
        break
  for d in all_nodes(cur):
    for field in ("styles", "sets", "begin", "end", "region"):
      if field in d and not d[field]:
        del d[field]
  return cur


def _minimize_job(job):
  logging.disable(logging.CRITICAL)
  desc, t, key = job
  try:
    small = minimize(desc, Fraction(t), key)
    got = []
    check_snapshot(Recorder(PROP, "", {}), build(small), Fraction(t), small,
                   {"kind": "min", "mode": "min", "wm": "*", "cell": small["cell"], "px": small["px"]}, got)
    hit = next(g for g in got if g[0] == key)
    return (small, hit), None
  except Exception as e:  # pylint: disable=broad-except
    return None, repr(e)


# ---------------------------------------------------------------------------------------------------------------------


_PINNED = False


def pin_readings():
  """Where the oracle accepts two readings of the specification, the implementation must still follow ONE of them for every
  document.  `initial-position` (an <initial tts:position> together with a specified tts:origin): which reading the code follows is
  observed once on a probe document whose initial position is NOT the TTML default, and only that reading is accepted afterwards --
  so a change that treats some initial positions differently from others (e.g. the one that equals the default) is a violation."""
  global _PINNED
  if _PINNED:
    return
  _PINNED = True
  import ttconv.model as m
  import ttconv.style_properties as sp
  from ttconv.isd import ISD
  P_, L_, U_ = sp.StyleProperties, sp.LengthType, sp.LengthType.Units
  doc = m.ContentDocument()
  doc.put_initial_value(P_.Position, sp.PositionType(L_(30, U_.pct), L_(40, U_.pct), sp.PositionType.HEdge.left, sp.PositionType.VEdge.top))
  reg = m.Region("r1", doc)
  reg.set_style(P_.Origin, sp.CoordinateType(x=L_(10, U_.pct), y=L_(20, U_.pct)))
  reg.set_style(P_.Extent, sp.ExtentType(height=L_(50, U_.pct), width=L_(50, U_.pct)))
  doc.put_region(reg)
  body = m.Body(doc)
  body.set_region(reg)
  doc.set_body(body)
  div = m.Div(doc)
  body.push_child(div)
  p = m.P(doc)
  div.push_child(p)
  sp_ = m.Span(doc)
  p.push_child(sp_)
  sp_.push_child(m.Text(doc, "x"))
  try:
    o = ISD.from_model(doc, 0).get_region("r1").get_style(P_.Origin)
    got = (round(float(o.x.value), 6), round(float(o.y.value), 6))
  except Exception:  # pylint: disable=broad-except
    return
  if got == (10.0, 20.0):
    S.READINGS["initial-position"] = ("origin",)
  elif got == (15.0, 20.0):         # 30 % and 40 % of the room left by a 50 % x 50 % extent
    S.READINGS["initial-position"] = ("position",)


def pin_from_cases(seed, cases, budget=4000):
  """generalisation of pin_readings to EVERY rule the oracle reads two ways: look through the planned cases for a document on which
  the two readings of a rule prescribe different values for some element, see which one the code computes there, and accept only
  that reading from then on (for all documents of the run).  A rule for which no planned document discriminates stays open."""
  pinned = {}
  open_rules = [n for n, vals in S.READINGS.items() if len(vals) == 2]
  for case in cases[:budget]:
    if not open_rules:
      break
    try:
      if case[0] == "case":
        desc, times, _info = make_case(seed, *case[1:])
      elif case[0] == "init":
        desc, times, _info = make_initial_case(seed, *case[1:])
      else:
        continue
      doc = build(desc)
      t = times[0]
      values, _sources, touched = S.resolve(doc, t)
      rules = [n for n in open_rules if n in touched]
      if not rules:
        continue
      isd = ISD.from_model(doc, t)
    except Exception:  # pylint: disable=broad-except
      continue
    observed = {}
    for region in isd.iter_regions():
      rid = region.get_id()
      for el in [region] + list(region.dfs_iterator()):
        if _kind(el) != "Text" and el.get_id() is not None:
          observed[(rid, el.get_id())] = {p.__name__: S.normalize(el.get_style(p)) for p in el.iter_styles()}
    for n in rules:
      a, b = S.READINGS[n]
      try:
        alt = S.resolve(doc, t, {n: b})[0]
      except S.Undefined:
        continue
      votes = set()
      for (rid, eid), obs in observed.items():
        va, vb = values.get(rid, {}).get(eid), alt.get(rid, {}).get(eid)
        if va is None or vb is None:
          continue
        for name in AFFECTS[n]:
          if name in obs and name in va and name in vb and not S.same(va[name], vb[name]):
            if S.same(obs[name], va[name]):
              votes.add(a)
            elif S.same(obs[name], vb[name]):
              votes.add(b)
      if len(votes) == 1:
        pinned[n] = votes.pop()
        open_rules.remove(n)
  return pinned


def apply_pins(pinned):
  for n, v in pinned.items():
    if n in S.READINGS and v in S.READINGS[n]:
      S.READINGS[n] = (v,)


_PINS = {}


def run_chunk(chunk):
  logging.disable(logging.CRITICAL)
  pin_readings()
  apply_pins(_PINS)
  seed, cases = chunk
  rec = Recorder(PROP, "", {})
  for case in cases:
    if case[0] == "case":
      desc, times, info = make_case(seed, *case[1:])
    elif case[0] == "init":
      desc, times, info = make_initial_case(seed, *case[1:])
    else:
      desc, times, info = make_random(seed, case[1])
    doc = build(desc)
    for t in times:
      check_snapshot(rec, doc, t, desc, info)
  return rec


def plan(tier, seed):
  """the list of cases; writing mode / resolutions are cycled so that all pairs occur (checked by `pair_coverage`)"""
  cases = []
  idx = 0
  all_wm = tier != "quick"
  for pi, name in enumerate(S.PROPS):
    for fi, (form_name, _) in enumerate(forms(name)):
      for ki, kind in enumerate(KINDS):
        if name == "Display" and form_name == "none" and kind in RUBY_INTERNAL + ("Span@Rt", "Rt@Rtc"):
          continue          # removing a part of a ruby container is a matter of ISD construction (C01/C13), not of style values
        for mi, mode in enumerate(("spec", "anim")):
          # animation on the region itself: every writing mode, with and without a specified value underneath
          wms = WMS if (all_wm or (kind == "Region" and mode == "anim")) else [WMS[(fi + ki + mi + pi) % 4]]
          for wi, wm in enumerate(wms):
            for ws in ((False, True) if (kind == "Region" and mode == "anim") else (None,)):
              cell = CELLS[(fi + ki // 4 + mi + wi) % 3]
              px = PIXELS[(fi + ki + pi + wi) % 4]
              cases.append(("case", idx, name, form_name, kind, mode, wm, cell, px, ws))
              idx += 1
      for wi, wm in enumerate(WMS):
        cases.append(("init", idx, name, form_name, wm, CELLS[(fi + wi) % 3], PIXELS[(fi + pi + wi) % 4]))
        idx += 1
  n_random = 1500 if tier == "quick" else 250000
  cases += [("random", i) for i in range(n_random)]
  return cases


def pair_coverage(cases):
  """missing pairs among (property/form, kind, writing mode, cell resolution) over the planned `case` entries"""
  seen = {"pf-kind": set(), "pf-wm": set(), "pf-cell": set(), "kind-wm": set(), "kind-cell": set(), "wm-cell": set(),
          "prop-kind-wm": set()}
  pfs, kinds = set(), set()
  for c in cases:
    if c[0] != "case":
      continue
    _, _, name, form_name, kind, mode, wm, cell, px = c[:9]
    pf = (name, form_name)
    pfs.add(pf)
    kinds.add(kind)
    seen["pf-kind"].add((pf, kind))
    seen["pf-wm"].add((pf, wm))
    seen["pf-cell"].add((pf, cell))
    seen["kind-wm"].add((kind, wm))
    seen["kind-cell"].add((kind, cell))
    seen["wm-cell"].add((wm, cell))
  missing = 0
  missing += sum(1 for pf in pfs for w in WMS if (pf, w) not in seen["pf-wm"])
  missing += sum(1 for pf in pfs for c in CELLS if (pf, c) not in seen["pf-cell"])
  missing += sum(1 for k in kinds for w in WMS if (k, w) not in seen["kind-wm"])
  missing += sum(1 for k in kinds for c in CELLS if (k, c) not in seen["kind-cell"])
  missing += sum(1 for w in WMS for c in CELLS if (w, c) not in seen["wm-cell"])
  skipped = sum(1 for pf in pfs for k in kinds if (pf, k) not in seen["pf-kind"])
  return missing, skipped, len(pfs)


def main():
  args = parse_args()
  logging.disable(logging.CRITICAL)
  cases = plan(args.tier, args.seed)
  missing, skipped, n_forms = pair_coverage(cases)
  scope = {
    "documents": len(cases), "value_forms": n_forms, "element_kinds": KINDS, "writing_modes": WMS, "cell_resolutions": CELLS,
    "pixel_resolutions": PIXELS, "pairs_missing": missing, "form_kind_pairs_skipped(display none on ruby internals)": skipped,
    "random_documents": sum(1 for c in cases if c[0] == "random"),
    "times": "interval starts, a quarter second later, step ends, element begins (pairwise cases); 3 of all boundaries/middles (random)",
    "tolerance": "1e-9 relative",
  }
  rec = Recorder(PROP, "every snapshot element has, for each applicable property, the TTML-resolved value (oracle specs/styles.py)", scope)
  if missing:
    rec.errors.append(f"the plan does not cover {missing} pairs")
  # where the oracle reads the specification two ways the code must still follow ONE reading everywhere: observe it, then pin it
  pin_readings()
  _PINS.update(pin_from_cases(args.seed, cases))
  apply_pins(_PINS)
  scope["readings_pinned_by_probe"] = dict(_PINS, **({"initial-position": S.READINGS["initial-position"][0]} if len(S.READINGS["initial-position"]) == 1 else {}))
  scope["readings_left_open"] = sorted(n for n, v in S.READINGS.items() if len(v) > 1)
  n_chunks = 64
  chunks = [(args.seed, cases[i::n_chunks]) for i in range(n_chunks)]
  for r in parallel(run_chunk, chunks):
    rec.merge(r)
  # first witness of every key: reduce the document
  fl = list(rec.failures.values())[:6]        # reduction is for the reader of a report; a broken tree can fail hundreds of keys
  if fl:
    for f, (small, err) in zip(fl, parallel(_minimize_job, [(f["input"]["doc"], f["input"]["t"], f["key"]) for f in fl])):
      if small is not None:
        small, (_, rid, eid, name, obs, exp) = small
        f["input"]["doc"] = small
        f["replay_args"]["desc"] = small
        if rid is not None:
          f["input"].update({"region": rid, "element": eid, "property": name})
          f["observed"] = S.show(obs) if obs is not None else None
          f["required"] = S.show(exp) if exp is not None else None
          f["summary"] = (f"{name} of element {eid!r} in region {rid!r} at t={f['input']['t']}: ttconv computes {f['observed']}, "
                          f"TTML style resolution gives {f['required']} (first of {f['count']} failing evaluations, reduced)")
      else:
        rec.errors.append(f"minimize {f['key']}: {err}")
  sys.exit(rec.dump(args.out))


if __name__ == "__main__":
  main()
