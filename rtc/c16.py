"""Bounded tier of C16: run-time contracts on LCDDocFilter(config).process(doc) over generated canonical-model documents x
configurations, against the oracles specs/lcd.py (what the filter must leave) and specs/isd.py (what is visible when).

  python -m rtc.c16 --tier quick|thorough --seed N --out FILE.json

Documents: rtc/docgen.py (nested body/div/p/span/br/ruby, rational timing, region references at every level, xml:space) enriched
here with: up to 6 regions drawn from a small pool of timings (so that fingerprints collide), tts:origin / tts:extent /
tts:position in every unit (%, px, c, rw/rh; offsets from every edge), all writing modes and display alignments, inheritable
styles on regions, non-whitelisted region styles, initial values (also for extent/origin/displayAlign/writingMode), 1-5 animation
steps on any element or region, documents without body or without regions.  One document = generator coordinates
(seed, scope, chunk, index); every run builds the document afresh from its coordinates (no copying).
"""
import logging
import sys
from fractions import Fraction

from rtc.common import Recorder, rng, parallel, parse_args
from rtc import docgen
from specs import isd as S
from specs import lcd as O

import ttconv.model as m
import ttconv.style_properties as sp
from ttconv.isd import ISD
from ttconv.filters.doc.lcd import LCDDocFilter, LCDDocFilterConfig

SP = sp.StyleProperties
L = sp.LengthType
U = L.Units
REPLAYER = "replayers.c16:replay"

# ----------------------------------------------------------------------------------------------------------------------
# generator

SCOPES = {
  # docgen scope, enrichment parameters
  "plain": (dict(regions=(1, 3), ruby=False, animation=False, display=False), dict(position=0.0, anim=0.0, hide=False, nobody=0.0)),
  "anim": (dict(regions=(0, 3), animation=False, display=False), dict(position=0.0, anim=0.35, hide=False, nobody=0.05)),
  "position": (dict(regions=(1, 3), animation=False, display=False, ruby=False), dict(position=0.45, anim=0.1, hide=False, nobody=0.05)),
  "hiding": (dict(regions=(0, 3)), dict(position=0.1, anim=0.25, hide=True, nobody=0.1)),
}
REGION_TIMINGS = [(None, None), (None, None), (Fraction(0), None), (None, Fraction(10)), (Fraction(1), Fraction(10)), (Fraction(1), None),
                  (Fraction(0), Fraction(10)), (Fraction(2), Fraction(5)), (None, Fraction(0)), (Fraction(1) + Fraction(1, 4000), Fraction(10)),
                  (Fraction(1), Fraction(10) - Fraction(1, 3000))]
TARGETS = [0, 0, 5, 10, 10, 20, 30, 40, 45, 49, 50, 51, 60, 70, 80, 90]
COLORS = [sp.NamedColors.red.value, sp.NamedColors.white.value, sp.ColorType((0, 255, 0, 255)), sp.ColorType((1, 2, 3, 128)),
          sp.NamedColors.transparent.value]
HIDING = (SP.Display, SP.Visibility, SP.Opacity)


def length(r, pct, axis, doc):
  """a length of about `pct` percent of the root container along `axis`, in a random unit"""
  unit = r.choice(["pct", "pct", "px", "c", "r"])
  if unit == "pct":
    return L(pct, U.pct)
  if unit == "r":
    return L(pct, U.rw if axis == "x" else U.rh)
  if unit == "px":
    ref = doc.get_px_resolution().width if axis == "x" else doc.get_px_resolution().height
    v = Fraction(pct * ref, 100)
    return L(int(v) if v.denominator == 1 else float(v), U.px)
  ref = doc.get_cell_resolution().columns if axis == "x" else doc.get_cell_resolution().rows
  v = Fraction(pct * ref, 100)
  return L(int(v) if v.denominator == 1 else float(v), U.c)


def animation_steps(r, e, hide):
  props = [(SP.Color, COLORS), (SP.BackgroundColor, COLORS), (SP.FontStyle, list(sp.FontStyleType)), (SP.FontWeight, list(sp.FontWeightType)),
           (SP.TextDecoration, [sp.TextDecorationType(underline=True), sp.TextDecorationType(overline=True)])]
  if isinstance(e, m.Region):
    props += [(SP.DisplayAlign, list(sp.DisplayAlignType)), (SP.ShowBackground, list(sp.ShowBackgroundType)),
              (SP.Origin, [sp.CoordinateType(L(5, U.pct), L(60, U.pct))]), (SP.Extent, [sp.ExtentType(L(10, U.pct), L(50, U.pct))])]
  if hide:
    props += [(SP.Display, list(sp.DisplayType)), (SP.Visibility, list(sp.VisibilityType)), (SP.Opacity, [0, 0.5, 1.0])]
  for _ in range(r.choice([1, 2, 2, 3, 4, 5])):
    prop, vals = r.choice(props)
    b = r.choice([None, Fraction(0), Fraction(1), Fraction(1, 2), Fraction(2)])
    en = r.choice([None, Fraction(1), Fraction(3), Fraction(4)])
    e.add_animation_step(m.DiscreteAnimationStep(prop, b, en, r.choice(vals)))


def enrich(doc, r, par):
  regions = list(doc.iter_regions())
  body = doc.get_body()
  # more regions, sharing their timing with an existing one, and referenced by some elements
  if regions:
    for i in range(r.choice([0, 0, 1, 2, 3])):
      src = r.choice(regions)
      new = m.Region(f"x{i + 1}", doc)
      new.set_begin(src.get_begin())
      new.set_end(src.get_end())
      doc.put_region(new)
      regions.append(new)
      if body is not None:
        for e in body.dfs_iterator():
          if not isinstance(e, (m.Text, m.Br)) and e.get_region() is src and r.random() < 0.5:
            e.set_region(new)
  for reg in regions:
    if r.random() < 0.6:
      b, en = r.choice(REGION_TIMINGS)
      reg.set_begin(b)
      reg.set_end(en)
    if r.random() < 0.6:
      reg.set_style(SP.Origin, sp.CoordinateType(x=length(r, r.choice(TARGETS), "x", doc), y=length(r, r.choice(TARGETS), "y", doc)))
    elif r.random() < 0.3:
      reg.set_style(SP.Origin, None)
    if r.random() < 0.6:
      reg.set_style(SP.Extent, sp.ExtentType(height=length(r, r.choice(TARGETS[2:]), "y", doc), width=length(r, r.choice(TARGETS[2:]), "x", doc)))
    elif r.random() < 0.3:
      reg.set_style(SP.Extent, None)
    if r.random() < par["position"]:
      reg.set_style(SP.Position, sp.PositionType(h_offset=length(r, r.choice(TARGETS), "x", doc), v_offset=length(r, r.choice(TARGETS), "y", doc),
                                                 h_edge=r.choice(list(sp.PositionType.HEdge)), v_edge=r.choice(list(sp.PositionType.VEdge))))
    if r.random() < 0.3:
      reg.set_style(SP.WritingMode, r.choice(list(sp.WritingModeType)))
    if r.random() < 0.5:
      reg.set_style(SP.DisplayAlign, r.choice(list(sp.DisplayAlignType)))
    if r.random() < 0.2:
      reg.set_style(SP.TextAlign, r.choice(list(sp.TextAlignType)))
    if r.random() < 0.15:
      reg.set_style(SP.Color, r.choice(COLORS))
    if r.random() < 0.2:
      reg.set_style(SP.Padding, sp.PaddingType(before=L(1, U.c), end=L(2, U.pct), after=L(3, U.px), start=L(0, U.pct)))
    if r.random() < 0.2:
      reg.set_style(SP.Overflow, r.choice(list(sp.OverflowType)))
  # initial values
  for prop, vals in [
      (SP.Extent, [sp.ExtentType(L(40, U.pct), L(80, U.pct)), sp.ExtentType(L(400, U.px), L(1000, U.px)), sp.ExtentType(L(5, U.c), L(20, U.c))]),
      (SP.Origin, [sp.CoordinateType(L(10, U.pct), L(10, U.pct)), sp.CoordinateType(L(10, U.pct), L(60, U.pct)), sp.CoordinateType(L(1, U.c), L(9, U.c))]),
      (SP.DisplayAlign, list(sp.DisplayAlignType)), (SP.WritingMode, list(sp.WritingModeType)), (SP.TextAlign, list(sp.TextAlignType)),
      (SP.BackgroundColor, COLORS), (SP.Color, COLORS), (SP.FontSize, [L(2, U.c)]), (SP.LineHeight, [L(120, U.pct)])]:
    if r.random() < 0.1:
      doc.put_initial_value(prop, r.choice(vals))
  # animation steps
  if par["anim"]:
    for e in docgen.all_elements(doc):
      if not isinstance(e, (m.Text, m.Br)) and r.random() < par["anim"]:
        animation_steps(r, e, par["hide"])
  if body is not None and r.random() < par["nobody"]:
    doc.set_body(None)
  if not par["hide"]:
    for e in docgen.all_elements(doc):
      if isinstance(e, m.Text):
        continue
      for prop in HIDING:
        e.set_style(prop, None)
      for st in [s for s in e.iter_animation_steps() if s.style_property in HIDING]:
        e.remove_animation_step(st)
    for prop in HIDING:
      doc.put_initial_value(prop, None)


def gen_doc(gen):
  seed, scope, chunk, index = gen
  if seed == "directed":
    return DIRECTED[scope]()
  r = rng(seed, f"c16/{scope}/{chunk}/{index}")
  dscope, par = SCOPES[scope]
  doc = docgen.Gen(r, dscope).document()
  enrich(doc, r, par)
  return doc


# ----------------------------------------------------------------------------------------------------------------------
# directed documents: the smallest document for each clause, boundary grids of the alignment rule, every style property at once


def _simple(n_regions, n_p=None):
  doc = m.ContentDocument()
  regs = []
  for i in range(n_regions):
    reg = m.Region(f"r{i + 1}", doc)
    doc.put_region(reg)
    regs.append(reg)
  body, div = m.Body(doc), m.Div(doc)
  body.set_id("b")
  div.set_id("d")
  body.push_child(div)
  doc.set_body(body)
  ps = []
  for i in range(n_p if n_p is not None else max(1, n_regions)):
    p, sn = m.P(doc), m.Span(doc)
    p.set_id(f"p{i + 1}")
    sn.set_id(f"s{i + 1}")
    sn.push_child(m.Text(doc, f"text {i + 1}"))
    p.push_child(sn)
    div.push_child(p)
    if regs:
      p.set_region(regs[i % len(regs)])
    ps.append(p)
  return doc, regs, ps


def d_animation():
  doc, regs, ps = _simple(2)
  col = [sp.NamedColors.red.value, sp.NamedColors.blue.value]
  targets = [regs[0], regs[1], doc.get_body(), doc.get_body()[0], ps[0], ps[0][0], ps[1]]
  for n, e in enumerate(targets):
    for k in range(n + 1):
      prop = SP.DisplayAlign if isinstance(e, m.Region) and k == 0 else SP.BackgroundColor
      val = sp.DisplayAlignType.after if prop is SP.DisplayAlign else col[k % 2]
      e.add_animation_step(m.DiscreteAnimationStep(prop, Fraction(k), Fraction(k + 1), val))
  return doc


def d_position(extent, pos):
  def build():
    doc, regs, _ = _simple(2)
    doc.set_px_resolution(m.PixelResolutionType(width=1280, height=720))
    if extent is not None:
      regs[0].set_style(SP.Extent, sp.ExtentType(height=L(*extent[0]), width=L(*extent[1])))
    regs[0].set_style(SP.Position, sp.PositionType(h_offset=L(*pos[0]), v_offset=L(*pos[1]), h_edge=pos[2], v_edge=pos[3]))
    regs[1].set_begin(Fraction(1))
    return doc
  return build


def d_no_body():
  doc, regs, _ = _simple(3)
  regs[2].set_begin(Fraction(1))
  regs[0].add_animation_step(m.DiscreteAnimationStep(SP.ShowBackground, None, None, sp.ShowBackgroundType.always))
  doc.set_body(None)
  return doc


def d_no_regions():
  doc, _, ps = _simple(0, 2)
  ps[0].set_style(SP.TextAlign, sp.TextAlignType.end)
  ps[0].set_style(SP.BackgroundColor, sp.NamedColors.blue.value)
  ps[1][0].set_style(SP.Color, sp.NamedColors.lime.value)
  ps[1][0].set_style(SP.FontStyle, sp.FontStyleType.italic)
  return doc


def d_region_end_0():
  doc, regs, _ = _simple(2)
  regs[0].set_end(Fraction(0))
  return doc


def d_unit_test_merge():
  doc, regs, _ = _simple(5)
  regs[1].set_style(SP.Extent, sp.ExtentType(height=L(100), width=L(100)))
  regs[2].set_style(SP.DisplayAlign, sp.DisplayAlignType.after)
  regs[3].add_animation_step(m.DiscreteAnimationStep(SP.DisplayAlign, None, None, sp.DisplayAlignType.after))
  regs[4].set_begin(Fraction(1))
  return doc


def d_timings():
  doc, regs, _ = _simple(8)
  for reg, (b, en) in zip(regs, [(None, None), (Fraction(0), None), (None, Fraction(10)), (Fraction(0), Fraction(10)), (Fraction(1), Fraction(10)),
                                 (Fraction(1), None), (Fraction(1), Fraction(10)), (None, Fraction(11))]):
    reg.set_begin(b)
    reg.set_end(en)
  return doc


def d_near_timings():
  """regions whose intervals differ by less than a millisecond (or only beyond the third decimal): they are NOT equal, so they must not
  be merged -- the text of one would show while only the other is active"""
  doc, regs, _ = _simple(8)
  for reg, (b, en) in zip(regs, [(Fraction(1001, 1000), None), (Fraction(10013, 10000), None), (Fraction(1), Fraction(10)), (Fraction(1) + Fraction(1, 3000), Fraction(10)),
                                 (Fraction(1), Fraction(10) + Fraction(1, 2000)), (Fraction(2, 3), None), (Fraction(667, 1000), None), (None, Fraction(20001, 2000))]):
    reg.set_begin(b)
    reg.set_end(en)
  return doc


ALIGN_GRID = [(0, 40), (10, 20), (30, 19), (30, 21), (49, 10), (51, 10), (0, 100), (60, 30), (45, 4), (0, 49), (0, 51), (20, 70)]


def d_align(da, unit):
  def build():
    doc, regs, _ = _simple(len(ALIGN_GRID))
    for i, (reg, (top, h)) in enumerate(zip(regs, ALIGN_GRID)):
      reg.set_begin(Fraction(i))      # distinct timings: nothing merges
      if da is not None:
        reg.set_style(SP.DisplayAlign, da)
      if unit == "pct":
        y, hh = L(top, U.pct), L(h, U.pct)
      elif unit == "px":
        y, hh = L(top * 1080 / 100, U.px), L(h * 1080 / 100, U.px)
      elif unit == "c":
        y, hh = L(top * 15 / 100, U.c), L(h * 15 / 100, U.c)
      else:
        y, hh = L(top, U.rh), L(h, U.rh)
      reg.set_style(SP.Origin, sp.CoordinateType(x=L(10, U.pct), y=y))
      reg.set_style(SP.Extent, sp.ExtentType(height=hh, width=L(80, U.pct)))
    return doc
  return build


def d_align_merge():
  """two top regions and two bottom regions with equal timing: exactly one of each remains"""
  doc, regs, _ = _simple(4)
  for reg, top in zip(regs, (5, 70, 10, 75)):
    reg.set_style(SP.Origin, sp.CoordinateType(x=L(10, U.pct), y=L(top, U.pct)))
    reg.set_style(SP.Extent, sp.ExtentType(height=L(20, U.pct), width=L(80, U.pct)))
  regs[2].set_style(SP.DisplayAlign, sp.DisplayAlignType.after)
  regs[3].set_style(SP.DisplayAlign, sp.DisplayAlignType.center)
  return doc


def d_all_styles():
  doc, regs, ps = _simple(2)
  regs[1].set_begin(Fraction(1))
  targets = [regs[0], regs[1], doc.get_body(), doc.get_body()[0], ps[0], ps[0][0], ps[1], ps[1][0]]
  for prop in sorted(SP.ALL, key=lambda x: x.__name__):
    v = prop.make_initial_value()
    if v is None or not prop.validate(v):
      continue
    for e in targets:
      if not (prop is SP.Position and isinstance(e, m.Region)):      # regions with tts:position: see the position:* documents
        e.set_style(prop, v)
    if prop is not SP.Position:
      doc.put_initial_value(prop, v)
  return doc


def d_initial_position():
  doc, regs, _ = _simple(2)
  regs[1].set_begin(Fraction(1))
  doc.put_initial_value(SP.Position, sp.PositionType(h_offset=L(0, U.pct), v_offset=L(0, U.pct)))
  return doc


def d_colors():
  doc, regs, ps = _simple(2, 3)
  regs[1].set_begin(Fraction(1))
  doc.put_initial_value(SP.Color, sp.NamedColors.yellow.value)
  doc.put_initial_value(SP.BackgroundColor, sp.NamedColors.navy.value)
  regs[0].set_style(SP.BackgroundColor, sp.NamedColors.red.value)
  regs[0].set_style(SP.Color, sp.NamedColors.aqua.value)
  doc.get_body().set_style(SP.BackgroundColor, sp.NamedColors.green.value)
  doc.get_body()[0].set_style(SP.Color, sp.NamedColors.maroon.value)
  ps[0].set_style(SP.BackgroundColor, sp.NamedColors.blue.value)
  ps[0][0].set_style(SP.Color, sp.NamedColors.lime.value)
  ps[0][0].set_style(SP.BackgroundColor, sp.NamedColors.black.value)
  ps[1].set_style(SP.TextAlign, sp.TextAlignType.end)
  ps[2].set_style(SP.Color, sp.NamedColors.teal.value)
  doc.get_body().set_style(SP.TextAlign, sp.TextAlignType.start)
  return doc


def d_writing_modes():
  doc, regs, _ = _simple(4)
  for reg, wm in zip(regs, sp.WritingModeType):
    reg.set_style(SP.WritingMode, wm)
  return doc


def d_nested_conflict():
  doc, regs, ps = _simple(2)
  ps[0][0].set_region(regs[1])
  return doc


def d_region_text_align():
  doc, regs, _ = _simple(2)
  regs[0].set_style(SP.TextAlign, sp.TextAlignType.end)
  return doc


def d_initial_geometry(unit):
  def build():
    doc, regs, _ = _simple(2)
    regs[1].set_begin(Fraction(1))
    regs[0].set_style(SP.DisplayAlign, sp.DisplayAlignType.after)
    if unit == "pct":
      doc.put_initial_value(SP.Extent, sp.ExtentType(height=L(37, U.pct), width=L(80, U.pct)))
      doc.put_initial_value(SP.Origin, sp.CoordinateType(x=L(10, U.pct), y=L(5, U.pct)))
    else:
      doc.put_initial_value(SP.Extent, sp.ExtentType(height=L(400, U.px), width=L(1000, U.px)))
      doc.put_initial_value(SP.Origin, sp.CoordinateType(x=L(1, U.c), y=L(1, U.c)))
    return doc
  return build


HE, VE = sp.PositionType.HEdge, sp.PositionType.VEdge
DIRECTED = {
  "animation": d_animation, "no-body": d_no_body, "no-regions": d_no_regions, "region-end-0": d_region_end_0, "unit-test-merge": d_unit_test_merge,
  "timings": d_timings, "near-timings": d_near_timings, "align-merge": d_align_merge, "all-styles": d_all_styles, "colors": d_colors, "writing-modes": d_writing_modes,
  "nested-conflict": d_nested_conflict, "region-text-align": d_region_text_align, "initial-position": d_initial_position,
  "initial-geometry:pct": d_initial_geometry("pct"), "initial-geometry:px": d_initial_geometry("px"),
  "position:no-extent": d_position(None, ((10, U.pct), (10, U.pct), HE.left, VE.top)),
  "position:pct-extent": d_position(((20, U.pct), (80, U.pct)), ((50, U.pct), (25, U.pct), HE.left, VE.top)),
  "position:px-c-extent": d_position(((144, U.px), (16, U.c)), ((64, U.px), (9, U.c), HE.left, VE.top)),
  "position:rh-rw-extent": d_position(((20, U.rh), (80, U.rw)), ((5, U.rw), (70, U.rh), HE.left, VE.top)),
  "position:bottom-right": d_position(((20, U.pct), (80, U.pct)), ((0, U.pct), (10, U.pct), HE.right, VE.bottom)),
  "position:lower-half": d_position(((20, U.pct), (80, U.pct)), ((50, U.pct), (90, U.pct), HE.left, VE.top)),
}
for _da in (None,) + tuple(sp.DisplayAlignType):
  for _unit in ("pct", "px", "c", "rh"):
    DIRECTED[f"align:{_da.value if _da else 'default'}:{_unit}"] = d_align(_da, _unit)
DIRECTED_CFGS = [
  {"safe_area": 10, "preserve_text_align": False, "color": None, "bg_color": None},
  {"safe_area": 0, "preserve_text_align": True, "color": "red", "bg_color": "#01020380"},
  {"safe_area": 30, "preserve_text_align": True, "color": None, "bg_color": "transparent"},
  {"safe_area": 7, "preserve_text_align": False, "color": "#00ff00", "bg_color": None},
]

COLOR_STRINGS = [None, None, "red", "#00ff00", "#01020380", "white", "transparent", "#FFFFFF"]


def gen_cfg(gen, k):
  """configuration number k for a document: a JSON-like dict as the `lcd` section of a configuration file would carry"""
  seed, scope, chunk, index = gen
  r = rng(seed, f"c16cfg/{scope}/{chunk}/{index}/{k}")
  return {"safe_area": r.choice([0, 1, 5, 10, 10, 29, 30, r.randint(0, 30)]), "preserve_text_align": r.random() < 0.5,
          "color": r.choice(COLOR_STRINGS), "bg_color": r.choice(COLOR_STRINGS)}


def make_config(cfg):
  d = {k: v for k, v in cfg.items() if v is not None}
  return LCDDocFilterConfig.parse(d)


# ----------------------------------------------------------------------------------------------------------------------
# reading a document


def walk(doc):
  """(path, element) for every region and every element of the body tree; path = ('r', id) or child indexes from the body"""
  for reg in doc.iter_regions():
    yield ("r", reg.get_id()), reg
  body = doc.get_body()
  if body is None:
    return

  def rec(e, path):
    yield path, e
    for i, c in enumerate(e):
      yield from rec(c, path + (i,))

  yield from rec(body, ())


def name(v):
  return getattr(v, "name", None) or repr(v)


def lv(x):
  return (x.value, x.units.value)


def spec_or_initial(doc, e, prop):
  v = e.get_style(prop)
  if v is None:
    v = doc.get_initial_value(prop) if doc.has_initial_value(prop) else prop.make_initial_value()
  return v


def region_facts(doc, reg):
  res = (doc.get_cell_resolution().rows, doc.get_cell_resolution().columns, doc.get_px_resolution().width, doc.get_px_resolution().height)
  origin = spec_or_initial(doc, reg, SP.Origin)
  extent = spec_or_initial(doc, reg, SP.Extent)
  pos = reg.get_style(SP.Position)
  span = O.vertical_span(lv(origin.y), lv(extent.height), None if pos is None else lv(pos.v_offset) + (pos.v_edge.value,), res)
  wm = spec_or_initial(doc, reg, SP.WritingMode).value
  da = spec_or_initial(doc, reg, SP.DisplayAlign).value
  return {"timing": O.norm_timing(reg.get_begin(), reg.get_end()), "wm": wm, "da": da, "align": O.align_options(wm, da, span),
          "position": pos is not None, "own_extent": reg.has_style(SP.Extent), "own_origin": reg.has_style(SP.Origin),
          "text_align": reg.get_style(SP.TextAlign),
          "initial_units": any(x.units is not U.pct for p, own in ((SP.Extent, reg.has_style(SP.Extent)), (SP.Origin, reg.has_style(SP.Origin)))
                               if not own and doc.has_initial_value(p)
                               for x in (vars(doc.get_initial_value(p)).values()))}


def hides(doc):
  def bad(prop, v):
    return (prop is SP.Display and v is sp.DisplayType.none) or (prop is SP.Visibility and v is sp.VisibilityType.hidden) or \
           (prop is SP.Opacity and v != 1)
  for _, e in walk(doc):
    if isinstance(e, m.Text):
      continue
    for p in HIDING:
      if e.has_style(p) and bad(p, e.get_style(p)):
        return True
    for st in e.iter_animation_steps():
      if st.style_property in HIDING and bad(st.style_property, st.value):
        return True
  return any(doc.has_initial_value(p) and bad(p, doc.get_initial_value(p)) for p in HIDING)


def fp_doc(doc):
  """deep fingerprint of a document, independent of object identity"""
  def rec(e):
    if isinstance(e, m.Text):
      return ("Text", e.get_text())
    return (type(e).__name__, e.get_id(), e.get_begin(), e.get_end(), e.get_region().get_id() if e.get_region() is not None else None,
            None if isinstance(e, m.Br) else (e.get_lang(), str(e.get_space())),
            tuple(sorted((p.__name__, repr(e.get_style(p))) for p in e.iter_styles())),
            tuple((s.style_property.__name__, s.begin, s.end, repr(s.value)) for s in e.iter_animation_steps()),
            tuple(rec(c) for c in e))
  return {"regions": tuple(rec(r) for r in doc.iter_regions()), "body": rec(doc.get_body()) if doc.get_body() is not None else None,
          "initial": tuple(sorted((p.__name__, repr(v)) for p, v in doc.iter_initial_values())),
          "parameters": (doc.get_lang(), doc.get_cell_resolution(), doc.get_px_resolution(), doc.get_active_area(), doc.get_display_aspect_ratio())}


def fp_diff(a, b):
  """which aspects of two deep fingerprints differ -> sorted list of names"""
  out = set()
  for k in ("initial", "parameters"):
    if a[k] != b[k]:
      out.add(k)
  if [x[1] for x in a["regions"]] != [x[1] for x in b["regions"]]:
    out.add("region-set")

  def rec(x, y):
    if x is None or y is None or x[0] == "Text" or y[0] == "Text":
      if x != y:
        out.add("structure")
      return
    for i, asp in ((0, "structure"), (1, "structure"), (2, "timing"), (3, "timing"), (4, "region-reference"), (5, "structure"), (6, "styles"),
                   (7, "animation")):
      if x[i] != y[i]:
        out.add(asp)
    if len(x[8]) != len(y[8]):
      out.add("structure")
    for c, d in zip(x[8], y[8]):
      rec(c, d)

  ra, rb = {x[1]: x for x in a["regions"]}, {x[1]: x for x in b["regions"]}
  for k in sorted(set(ra) & set(rb)):
    rec(ra[k], rb[k])
  if (a["body"] is None) != (b["body"] is None):
    out.add("structure")
  elif a["body"] is not None:
    rec(a["body"], b["body"])
  return sorted(out)


def text_paths(doc):
  return {id(e): p for p, e in walk(doc) if isinstance(e, m.Text)}


def timeline(doc, ts):
  paths = text_paths(doc)
  out = {}
  for t in ts:
    snap, _ = S.snapshot(doc, t)
    out[t] = O.visible_text(snap, lambda e: paths[id(e)])
  return out


# ----------------------------------------------------------------------------------------------------------------------
# the contracts

C_OK = "the filter succeeds on every readable document"
C_ANIM = "no animation steps anywhere"
C_STYLES = "no style properties other than displayAlign, extent, origin, color, backgroundColor, textAlign"
C_KEEP = "color / backgroundColor / textAlign are kept unless overridden"
C_BOX = "every region occupies exactly the safe area"
C_MERGE = "regions with equal timing, writing mode and resulting alignment are merged"
C_REF = "references are redirected to a registered region with the timing of the original"
C_ALIGN = "resulting display alignment (top half stays at the top; A-LCD-ALIGN)"
C_TEXT = "visible text at every time is the same as before"
C_SNAP = "configured color, background color and centered/preserved alignment are what snapshots compute"
C_IDEM = "applying the filter twice equals applying it once"


def run_filter(doc, cfg):
  try:
    LCDDocFilter(make_config(cfg)).process(doc)
    return None
  except Exception as e:  # pylint: disable=broad-except
    return e


def check_doc(rec, gen, cfg, max_times=12):
  gen = tuple(gen)
  doc0 = gen_doc(gen)
  desc = {"gen": list(gen), "config": cfg, "doc": docgen.describe(doc0, 1500)}
  ra = {"gen": list(gen), "cfg": cfg}
  case = hash((gen, repr(sorted(cfg.items()))))
  short = docgen.describe(doc0, 700)

  def fail(key, contract, summary, observed=None, required=None):
    rec.fail(key, contract, f"{summary}; config {cfg}; document {short}", desc, observed, required, REPLAYER, ra)

  pre = {reg.get_id(): region_facts(doc0, reg) for reg in doc0.iter_regions()}
  pre_el = dict(walk(doc0))
  pre_paths = {e.get_id(): p for p, e in pre_el.items() if p[:1] != ("r",) and not isinstance(e, m.Text)}
  has_body = doc0.get_body() is not None
  color = None if cfg["color"] is None else O.color(cfg["color"])
  bg = None if cfg["bg_color"] is None else O.color(cfg["bg_color"])
  sa = cfg["safe_area"]

  # -- the filter succeeds
  doc1 = gen_doc(gen)
  err = run_filter(doc1, cfg)
  rec.evaluated(C_OK, case, desc)
  if err is not None:
    if not has_body and bg is not None:
      key = "filter-raises:no-body-with-bg_color"
    elif any(f["position"] for f in pre.values()):
      key = "filter-raises:region-with-position"
    else:
      key = "filter-raises:other:" + type(err).__name__
    fail(key, C_OK, f"LCDDocFilter.process raised {err!r}", repr(err), "no exception")
    return
  post_el = dict(walk(doc1))

  # -- no animation steps
  rec.evaluated(C_ANIM, case if any(list(e.iter_animation_steps()) for e in pre_el.values() if not isinstance(e, m.Text)) else None,
                nontrivial=any(list(e.iter_animation_steps()) for e in pre_el.values() if not isinstance(e, m.Text)))
  left = {}
  for path, e in post_el.items():
    n = len(list(e.iter_animation_steps()))
    if n:
      left[path] = n
  if left:
    half = all(path in pre_el and n == len(list(pre_el[path].iter_animation_steps())) // 2 for path, n in left.items()) and \
           all(path in left or len(list(e.iter_animation_steps())) < 2 for path, e in pre_el.items() if path in post_el)
    fail("animation-steps-remain:" + ("every-second-step" if half else "other"), C_ANIM,
         "animation steps remain on " + ", ".join(f"{type(post_el[p]).__name__}{list(p)}: {n} of {len(list(pre_el[p].iter_animation_steps())) if p in pre_el else '?'}"
                                                  for p, n in sorted(left.items(), key=repr)[:5]), {str(k): v for k, v in left.items()}, "0 animation steps on every element and region")

  # -- style whitelist
  allowed = {getattr(SP, n) for n in O.ALLOWED}
  rec.evaluated(C_STYLES, case)
  offending = {}
  for path, e in post_el.items():
    if isinstance(e, m.Text):
      continue
    for p in e.iter_styles():
      if p not in allowed:
        where = "region" if path[:1] == ("r",) else "body-tree"
        offending.setdefault(f"{where}:{p.__name__}" if p is SP.Position else where, []).append(f"{type(e).__name__}{list(path)}.{p.__name__}")
  for p, _ in doc1.iter_initial_values():
    if p not in allowed:
      offending.setdefault("initial:Position" if p is SP.Position else "initial", []).append(p.__name__)
  for where, items in sorted(offending.items()):
    fail("style-not-allowed:" + where, C_STYLES, f"style properties outside the allowed set remain: {items[:6]}", items[:20], list(O.ALLOWED))
  # as configured: an overriding colour / background / alignment leaves no other specified value behind
  over = {}
  for path, e in post_el.items():
    if isinstance(e, m.Text):
      continue
    if color is not None and e.has_style(SP.Color) and not (e.get_style(SP.Color).components == color):
      over.setdefault("Color", []).append(f"{type(e).__name__}{list(path)}={e.get_style(SP.Color).components}")
    if bg is not None and e.has_style(SP.BackgroundColor) and not (e.get_style(SP.BackgroundColor).components == bg):
      over.setdefault("BackgroundColor", []).append(f"{type(e).__name__}{list(path)}={e.get_style(SP.BackgroundColor).components}")
    if not cfg["preserve_text_align"] and e.has_style(SP.TextAlign) and e.get_style(SP.TextAlign) is not sp.TextAlignType.center:
      over.setdefault("TextAlign", []).append(f"{type(e).__name__}{list(path)}={e.get_style(SP.TextAlign).name}")
  for p, v in doc1.iter_initial_values():
    if (p is SP.Color and color is not None and v.components != color) or (p is SP.BackgroundColor and bg is not None and v.components != bg) or \
       (p is SP.TextAlign and not cfg["preserve_text_align"] and v is not sp.TextAlignType.center):
      over.setdefault(p.__name__, []).append(f"initial={name(v)}")
  for pn, items in sorted(over.items()):
    fail("style-not-overridden:" + pn, C_STYLES, f"{pn} is overridden by the configuration but other values remain: {items[:6]}", items[:20])

  # -- kept unless overridden (specified values, model level)
  rec.evaluated(C_KEEP, case)
  for prop, overridden in ((SP.Color, color is not None), (SP.BackgroundColor, bg is not None), (SP.TextAlign, not cfg["preserve_text_align"])):
    if overridden:
      continue
    lost = [f"{type(e).__name__}{list(path)}: {name(e.get_style(prop))} -> {name(post_el[path].get_style(prop))}"
            for path, e in pre_el.items() if path in post_el and not isinstance(e, m.Text) and e.get_style(prop) != post_el[path].get_style(prop)]
    iv0 = doc0.get_initial_value(prop) if doc0.has_initial_value(prop) else None
    iv1 = doc1.get_initial_value(prop) if doc1.has_initial_value(prop) else None
    if iv0 != iv1:
      lost.append(f"initial value: {name(iv0)} -> {name(iv1)}")
    if lost:
      fail("style-not-kept:" + prop.__name__, C_KEEP, f"{prop.__name__} is not overridden by the configuration but changed: {lost[:5]}", lost[:20])

  # -- regions occupy the safe area
  box = O.safe_area_box(sa)
  regs1 = list(doc1.iter_regions())
  rec.evaluated(C_BOX, case if regs1 else None, nontrivial=bool(regs1))
  for reg in regs1:
    o, x = reg.get_style(SP.Origin), reg.get_style(SP.Extent)
    got = None if o is None or x is None else (lv(o.x), lv(o.y), lv(x.width), lv(x.height))
    want = tuple((v, "%") for v in box)
    if got is None or any(g[1] != "%" or g[0] != w[0] for g, w in zip(got, want)):
      fail("region-not-at-safe-area", C_BOX, f"region {reg.get_id()} has origin/extent {got}, safe area {sa}", got, want)
      break

  # -- merging
  ids1 = [reg.get_id() for reg in regs1]
  rec.evaluated(C_MERGE, case if len(pre) > 1 else None, nontrivial=len(pre) > 1)
  unknown = [i for i in ids1 if i not in pre]
  if unknown or len(set(ids1)) != len(ids1):
    fail("merge:region-set-not-a-subset", C_MERGE, f"regions after the filter {ids1}, before {sorted(pre)}")
  seen = {}
  for reg in regs1:
    if reg.get_id() not in pre:
      continue
    f = pre[reg.get_id()]
    if O.norm_timing(reg.get_begin(), reg.get_end()) != f["timing"]:
      fail("merge:region-timing-changed", C_MERGE, f"region {reg.get_id()} timing {reg.get_begin()}..{reg.get_end()} was {f['timing']}")
    fpr = (f["timing"], f["wm"], name(reg.get_style(SP.DisplayAlign)))
    if fpr in seen:
      fail("merge:equal-regions-not-merged", C_MERGE,
           f"regions {seen[fpr]} and {reg.get_id()} both remain with timing {f['timing']}, writing mode {f['wm']}, display alignment {fpr[2]}",
           [seen[fpr], reg.get_id()], "one region per (begin, end, writing mode, display alignment)")
      break
    seen[fpr] = reg.get_id()

  # -- display alignment
  decided = [reg for reg in regs1 if reg.get_id() in pre and len(pre[reg.get_id()]["align"]) == 1]
  rec.evaluated(C_ALIGN, case if decided else None, nontrivial=bool(decided))
  for reg in regs1:
    da = reg.get_style(SP.DisplayAlign)
    f = pre.get(reg.get_id())
    if f is None:
      continue
    if da is None or da.value not in f["align"]:
      key = "align:initial-extent-or-origin-not-in-percent" if f["initial_units"] else "align:wrong-half:" + f["da"]
      fail(key, C_ALIGN, f"region {reg.get_id()} ends with displayAlign {name(da)}, expected {sorted(f['align'])}", name(da), sorted(f["align"]))

  # -- references
  refs = [(path, e) for path, e in pre_el.items() if path[:1] != ("r",) and not isinstance(e, m.Text)]
  rec.evaluated(C_REF, case if any(e.get_region() is not None for _, e in refs) else None, nontrivial=any(e.get_region() is not None for _, e in refs))
  for path, e in refs:
    e1 = post_el.get(path)
    if e1 is None:
      fail("structure-changed", C_REF, f"element {list(path)} no longer exists")
      break
    r0, r1 = e.get_region(), e1.get_region()
    if r0 is None:
      if r1 is not None:
        fail("ref:region-appeared", C_REF, f"element {list(path)} had no region and now references {r1.get_id()}")
      continue
    if r1 is None or not doc1.has_region(r1.get_id()) or doc1.get_region(r1.get_id()) is not r1:
      fail("ref:region-not-registered", C_REF, f"element {list(path)} (was {r0.get_id()}) now references {None if r1 is None else r1.get_id()}, "
           f"which is not a region of the document {ids1}")
      continue
    f0 = pre[r0.get_id()]
    if r0.get_id() in ids1 and r1.get_id() != r0.get_id():
      fail("ref:redirected-although-region-remains", C_REF, f"element {list(path)} moved from {r0.get_id()} to {r1.get_id()} but {r0.get_id()} remains")
    f1 = pre.get(r1.get_id())
    if f1 is not None and f1["timing"] != f0["timing"]:
      zero = {f0["timing"][1], f1["timing"][1]} == {None, Fraction(0)} and f0["timing"][0] == f1["timing"][0]
      fail("ref:region-end-0-treated-as-indefinite" if zero else "ref:redirected-to-region-with-different-timing", C_REF,
           f"element {list(path)}: region {r0.get_id()} (active {f0['timing']}) was replaced by {r1.get_id()} (active {f1['timing']})",
           f1["timing"], f0["timing"])
    da1 = r1.get_style(SP.DisplayAlign)
    if da1 is not None and da1.value not in f0["align"] and not f0["initial_units"]:
      fail("ref:redirected-to-other-half", C_REF, f"element {list(path)}: region {r0.get_id()} must end {sorted(f0['align'])}, "
           f"replaced by {r1.get_id()} with displayAlign {da1.value}")

  # -- text timeline
  hidden = hides(doc0)
  ts = O.times(S.change_times(doc0))
  if len(ts) > max_times:
    r = rng(gen[0], f"c16times/{gen[1:]}")
    ts = sorted(r.sample(ts, max_times))
  if not hidden:
    before, after = timeline(doc0, ts), timeline(doc1, ts)
    nontrivial = any(before[t] for t in ts)
    rec.evaluated(C_TEXT, case if nontrivial else None, desc if nontrivial else None, nontrivial)
    for t in ts:
      if before[t] == after[t]:
        continue
      extra = [x for x in after[t] if x not in before[t]]
      missing = [x for x in before[t] if x not in after[t]]
      causes = set()
      for path, _ in extra + missing:
        chain = [pre_el[path[:i]] for i in range(len(path)) if path[:i] in pre_el]
        own = {id(e.get_region()) for e in chain if e.get_region() is not None}
        rids = [e.get_region().get_id() for e in chain if e.get_region() is not None]
        post_r = [post_el[path[:i]].get_region() for i in range(len(path)) if path[:i] in post_el]
        rids += [x.get_id() for x in post_r if x is not None]
        if len(own) > 1:
          causes.add("conflicting-nested-regions")
        elif any(pre[i]["timing"][1] == 0 for i in rids if i in pre):
          causes.add("region-end-0-treated-as-indefinite")
        else:
          causes.add("text-revealed" if (path, _) in extra else "text-lost")
      for c in sorted(causes):
        fail("timeline:" + c, C_TEXT, f"t={t}: visible text differs: appeared {extra[:4]}, disappeared {missing[:4]}", after[t][:12], before[t][:12])
      break

  if left:
    return      # snapshots and idempotence are judged on documents that are free of animation steps, as the filter must leave them

  # -- what snapshots compute
  transparent = (0, 0, 0, 0)
  n_el = 0
  probs = {}
  for t in ts:
    try:
      isd = ISD.from_model(doc1, t)
    except Exception as e:  # pylint: disable=broad-except
      _, flags = S.snapshot(doc1, t)
      if isinstance(e, ValueError) and flags["ruby_pattern_broken"]:
        continue      # known finding of C01: a ruby with a temporally inactive part
      probs.setdefault("snapshot:from_model-raises-after-filter:" + type(e).__name__, f"t={t}: ISD.from_model raised {e!r} on the filtered document")
      continue
    for reg in isd.iter_regions():
      if reg.get_id() != "default_region":
        o, x = reg.get_style(SP.Origin), reg.get_style(SP.Extent)
        got = (o.x.value, o.y.value, x.width.value, x.height.value)
        if any(abs(g - w) > 1e-9 for g, w in zip(got, box)) or (o.x.units, o.y.units, x.width.units, x.height.units) != (U.rw, U.rh, U.rw, U.rh):
          probs.setdefault("snapshot:region-not-at-safe-area" + (":initial-position-kept" if doc1.has_initial_value(SP.Position) else ""), f"t={t}: region {reg.get_id()} computes origin/extent {got}, safe area box {box}")
      if bg is not None and reg.get_style(SP.BackgroundColor).components not in (bg, transparent):
        probs.setdefault("snapshot:bg_color:Region", f"t={t}: region {reg.get_id()} computes backgroundColor {reg.get_style(SP.BackgroundColor).components}")
      for e in reg.dfs_iterator():
        if isinstance(e, (m.Text, m.Br)) or e is reg:
          continue
        n_el += 1
        k = type(e).__name__
        if color is not None and e.is_style_applicable(SP.Color) and e.get_style(SP.Color).components != color:
          probs.setdefault("snapshot:color", f"t={t}: {k}#{e.get_id()} computes color {e.get_style(SP.Color).components}, configured {color}")
        if bg is not None and e.is_style_applicable(SP.BackgroundColor):
          got = e.get_style(SP.BackgroundColor).components
          if (isinstance(e, m.P) and got != bg) or got not in (bg, transparent):
            probs.setdefault("snapshot:bg_color:" + ("P" if isinstance(e, m.P) else "other"),
                             f"t={t}: {k}#{e.get_id()} computes backgroundColor {got}, configured {bg}")
        if isinstance(e, m.P):
          got = e.get_style(SP.TextAlign)
          if not cfg["preserve_text_align"]:
            if got is not sp.TextAlignType.center:
              probs.setdefault("snapshot:text-align-not-centered", f"t={t}: p#{e.get_id()} computes textAlign {name(got)}")
          else:
            ppath = pre_paths.get(e.get_id())
            if ppath is None:
              continue
            chain = [pre_el[ppath[:i]].get_style(SP.TextAlign) for i in range(len(ppath), -1, -1)]
            # the regions through which this paragraph was flowed before the filter and that now are region `reg`
            related = {q: x for q, x in pre_el.items() if q[:1] != ("r",) and not isinstance(x, m.Text) and
                       (q == ppath[:len(q)] or q[:len(ppath)] == ppath)}
            cands = sorted({x.get_region().get_id() for q, x in related.items() if x.get_region() is not None and
                            q in post_el and post_el[q].get_region() is not None and post_el[q].get_region().get_id() == reg.get_id()})
            iv = doc0.get_initial_value(SP.TextAlign) if doc0.has_initial_value(SP.TextAlign) else None
            want = {O.inherited(chain + [pre[c]["text_align"]], iv, sp.TextAlignType.start) for c in cands} or \
                   {O.inherited(chain, iv, sp.TextAlignType.start)}
            if want != {got}:
              via = [c for c in cands if c != reg.get_id() and reg.get_id() in pre and pre[c]["text_align"] is not pre[reg.get_id()]["text_align"]]
              probs.setdefault("snapshot:text-align-not-preserved" + (":inherited-from-merged-region" if via else ""),
                               f"t={t}: p#{e.get_id()} computes textAlign {name(got)}, before the filter {sorted(name(w) for w in want)}"
                               + (f" (region {via[0]} with textAlign {name(pre[via[0]]['text_align'])} merged into {reg.get_id()} with textAlign "
                                  f"{name(pre[reg.get_id()]['text_align'])})" if via else ""))
  rec.evaluated(C_SNAP, case if n_el else None, nontrivial=bool(n_el))
  for key, msg in sorted(probs.items()):
    fail(key, C_SNAP, msg)

  # -- the same filter OBJECT used again: on the same document (idempotence) and on a second copy of the document
  # (a filter that keeps state between process() calls would give a result that depends on what it processed before)
  doc3, doc4 = gen_doc(gen), gen_doc(gen)
  try:
    flt = LCDDocFilter(make_config(cfg))
    flt.process(doc3)
    flt.process(doc3)
    flt.process(doc4)
    e3 = None
  except Exception as e:  # pylint: disable=broad-except
    e3 = e
  rec.evaluated("a filter object can be used for several documents", case)
  if e3 is not None:
    fail("filter-object-reuse:raises:" + type(e3).__name__, "a filter object can be used for several documents",
         f"re-using one LCDDocFilter object raised {e3!r}")
  elif fp_doc(doc3) != fp_doc(doc1) or fp_doc(doc4) != fp_doc(doc1):
    fail("filter-object-reuse:result-differs", "a filter object can be used for several documents",
         "processing a document with a filter object that has processed documents before gives a different result: "
         f"{fp_diff(fp_doc(doc1), fp_doc(doc3)) or fp_diff(fp_doc(doc1), fp_doc(doc4))}")

  # -- idempotence
  doc2 = gen_doc(gen)
  e1 = run_filter(doc2, cfg)
  e2 = run_filter(doc2, cfg) if e1 is None else None
  rec.evaluated(C_IDEM, case)
  if e1 is not None or e2 is not None:
    fail("idempotence:second-application-raises:" + type(e1 or e2).__name__, C_IDEM, f"second application raised {(e1 or e2)!r}")
  else:
    a, b = fp_doc(doc1), fp_doc(doc2)
    if a != b:
      d = fp_diff(a, b)
      fail("idempotence:" + "+".join(d), C_IDEM, f"process(process(d)) differs from process(d) in: {d}", None, None)


# ----------------------------------------------------------------------------------------------------------------------


def chunk(job):
  logging.disable(logging.CRITICAL)
  seed, scope, ch, count, ncfg = job
  rec = Recorder("C16", "", {})
  if seed == "directed":
    for case in sorted(DIRECTED)[ch::count]:
      for cfg in DIRECTED_CFGS:
        check_doc(rec, ("directed", case, 0, 0), cfg, max_times=40)
    return rec
  for i in range(count):
    gen = (seed, scope, ch, i)
    for k in range(ncfg):
      check_doc(rec, gen, gen_cfg(gen, k))
  return rec


def main():
  args = parse_args()
  quick = args.tier == "quick"
  chunks = 48 if quick else 1500      # chunks of 10 documents per scope
  per = 10
  ncfg = 2 if quick else 3
  rec = Recorder("C16", "seeded random canonical-model documents (rtc/docgen.py enriched by rtc/c16.py: 0-6 regions from a pool of timings, "
                 "origin/extent/position in %, px, c, rw/rh from every edge, 4 writing modes, 3 display alignments, inheritable and other styles on "
                 "regions, initial values, 1-5 animation steps on any element or region, no body / no regions) x configurations (safe_area "
                 "0..30 incl. 0, 1, 29, 30; preserve_text_align; color and bg_color null / named / #rrggbb / #rrggbbaa, through "
                 "LCDDocFilterConfig.parse); timeline compared at <= 12 instants per document out of all boundaries, midpoints, 0, last+1; "
                 "a case is non-trivial when the clause has something to act on (animation steps present, >1 region, visible text ...)",
                 {"generated_documents": per * chunks * len(SCOPES), "configurations_per_document": ncfg, "scopes": list(SCOPES),
                  "directed_documents": len(DIRECTED), "configurations_per_directed_document": len(DIRECTED_CFGS)})
  jobs = [("directed", None, ch, 16, 0) for ch in range(16)] + [(args.seed, scope, ch, per, ncfg) for ch in range(chunks) for scope in SCOPES]
  for part in parallel(chunk, jobs):
    rec.merge(part)
  return rec.dump(args.out)


if __name__ == "__main__":
  sys.exit(main())
