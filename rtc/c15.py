"""C15 bounded tier: call histories of the model API over a small universe of real objects, judged by the native
well-formedness checker specs/modelwf.py after every call, and by a deep fingerprint for `a rejected single-element
operation leaves the model unchanged`.

quick: every history of length <= 2 (exhaustive) from each of a few start states + seeded random walks of length 10;
thorough: length <= 3 sampled densely + longer walks.  This tier also carries the clauses the proof tier does not reach
(ruby sequence patterns, set_doc on subtrees, remove/replace of regions, value validity)."""
import itertools
import logging
import sys
from fractions import Fraction

from rtc.common import Recorder, parse_args, rng, parallel
from specs import modelwf as W

import ttconv.model as m
import ttconv.style_properties as sp
from ttconv.isd import ISD

SP = sp.StyleProperties

# ----------------------------------------------------------------------------------------------------------------------
# independent value-validity oracle: property name -> acceptable python type names (plus special singletons)
VALID_TYPES = {
  "BackgroundColor": ("ColorType",), "Color": ("ColorType",), "Direction": ("DirectionType",), "Disparity": ("LengthType",),
  "Display": ("DisplayType",), "DisplayAlign": ("DisplayAlignType",), "Extent": ("ExtentType",), "FillLineGap": ("bool",),
  "FontFamily": ("tuple",), "FontSize": ("LengthType",), "FontStyle": ("FontStyleType",), "FontWeight": ("FontWeightType",),
  "LineHeight": ("LengthType", "SpecialValues.normal"), "LinePadding": ("LengthType",), "LuminanceGain": ("int", "float", "Fraction"),
  "MultiRowAlign": ("MultiRowAlignType",), "Opacity": ("int", "float", "Fraction"), "Origin": ("CoordinateType",),
  "Overflow": ("OverflowType",), "Padding": ("PaddingType",), "Position": ("PositionType",), "RubyAlign": ("RubyAlignType",),
  "RubyPosition": ("AnnotationPositionType",), "RubyReserve": ("RubyReserveType", "SpecialValues.none"),
  "Shear": ("int", "float", "Fraction"), "ShowBackground": ("ShowBackgroundType",), "TextAlign": ("TextAlignType",),
  "TextCombine": ("TextCombineType",), "TextDecoration": ("TextDecorationType",), "TextEmphasis": ("TextEmphasisType", "SpecialValues.none"),
  "TextOutline": ("TextOutlineType", "SpecialValues.none"), "TextShadow": ("TextShadowType", "SpecialValues.none"),
  "UnicodeBidi": ("UnicodeBidiType",), "Visibility": ("VisibilityType",), "WrapOption": ("WrapOptionType",),
  "WritingMode": ("WritingModeType",),
}


def valid_value(prop, v):
  names = VALID_TYPES.get(prop.__name__)
  if names is None:
    return True      # a property this oracle does not know: no opinion
  tn = type(v).__name__
  if isinstance(v, sp.SpecialValues):
    return f"SpecialValues.{v.name}" in names
  if tn not in names and not (tn == "bool" and "bool" in names):
    return False
  if tn == "bool" and "bool" not in names:
    return False
  if prop.__name__ == "FontFamily":
    return all(isinstance(i, (str, sp.GenericFontFamilyType)) for i in v)
  return True


# ----------------------------------------------------------------------------------------------------------------------
KINDS = ["Body", "Div", "Div", "P", "Span", "Span", "Br", "Text", "Ruby", "Rb", "Rt", "Rt", "Rp", "Rp", "Rbc", "Rtc"]


class U:
  """a fresh universe of real objects"""

  def __init__(self, start):
    self.d = [m.ContentDocument(), m.ContentDocument()]
    self.isd = ISD(None)
    d0, d1 = self.d
    self.e = []
    for k in KINDS:
      self.e.append(m.Text(d0, "x") if k == "Text" else getattr(m, k)(d0))
    self.e.append(m.Span(d1))          # 16: an element of the other document
    self.e.append(m.Div(None))         # 17: a detached element
    self.e.append(m.P(None))           # 18: a detached element with a detached child
    self.e.append(m.Span(None))        # 19
    self.e[18].push_child(self.e[19])
    self.r = [m.Region("r1", d0), m.Region("r1", d0), m.Region("r2", d0), m.Region("r1", d1)]
    self.ir = ISD.Region("ir", self.isd)
    self.ibody = m.Body(self.isd)
    d0.put_region(self.r[0])
    d0.put_region(self.r[2])
    d1.put_region(self.r[3])
    e = self.e
    if start == 3:      # a body WITHOUT children that is the document's body and references a region (len(body) == 0: falsy)
      d0.set_body(e[0])
      e[0].set_region(self.r[0])
    if start in (1, 2):      # a small attached tree using a region
      e[0].push_child(e[1]); e[1].push_child(e[3]); e[3].push_child(e[4]); e[4].push_child(e[7]); d0.set_body(e[0])
      e[3].set_region(self.r[0]); e[4].set_region(self.r[2])
    if start == 2:      # siblings and ruby
      e[3].push_child(e[6]); e[3].push_child(e[5]); e[3].push_child(e[8])
      e[8].push_children([e[14], e[15]])
      e[15].push_children([e[12], e[10], e[13]])
      e[1].push_child(e[2])

  def elements(self):
    return self.e + self.r + [self.ir, self.ibody]

  def docs(self):
    return self.d + [self.isd]


def ops(quick):
  """(name, fn(u), single_element: bool).  Arguments are indices into the universe so that a history is reproducible."""
  out = []
  n = len(KINDS) + 4
  def O(name, fn, single=True):
    out.append((name, fn, single))
  for a in range(n):
    for b in range(n):
      O(f"e{a}.push_child(e{b})", lambda u, a=a, b=b: u.e[a].push_child(u.e[b]))
  for a in range(n):
    for b in range(n):
      if quick and (a + b) % 3 and a != b:
        continue
      O(f"e{a}.remove_child(e{b})", lambda u, a=a, b=b: u.e[a].remove_child(u.e[b]))
  for a in range(n):
    O(f"e{a}.remove()", lambda u, a=a: u.e[a].remove())
    O(f"e{a}.remove_children()", lambda u, a=a: u.e[a].remove_children(), False)
    for di, dn in ((0, "d0"), (1, "d1"), (None, "None")):
      O(f"e{a}.set_doc({dn})", lambda u, a=a, di=di: u.e[a].set_doc(None if di is None else u.d[di]), False)
    for ri in (0, 1, 2, 3, None):
      O(f"e{a}.set_region({'None' if ri is None else 'r%d' % ri})", lambda u, a=a, ri=ri: u.e[a].set_region(None if ri is None else u.r[ri]))
  O("e0.push_child(None)", lambda u: u.e[0].push_child(None))
  # multi-element pushes: ruby patterns, good and bad, lists and one-shot iterators
  pc = {"Ruby[Rb,Rt]": (8, [9, 10]), "Ruby[Rb,Rp,Rt,Rp]": (8, [9, 12, 10, 13]), "Ruby[Rbc,Rtc]": (8, [14, 15]), "Ruby[Rt,Rb]": (8, [10, 9]),
        "Ruby[Rb]": (8, [9]), "Ruby[Rb,Rt]again": (8, [9, 11]), "Rtc[Rt]": (15, [10]), "Rtc[Rt,Rt]": (15, [10, 11]), "Rtc[Rp,Rt,Rp]": (15, [12, 10, 13]),
        "Rtc[Rp,Rt]": (15, [12, 10]), "Rtc[Rt]second": (15, [11]), "Rtc[Rp]": (15, [12]), "Div[P,Div]": (1, [3, 2]), "P[Span,Br,Div]": (3, [4, 6, 2]),
        "Span[Text,Span]": (4, [7, 5])}
  for name, (a, cs) in pc.items():
    O(f"e{a}.push_children({name})", lambda u, a=a, cs=cs: u.e[a].push_children([u.e[c] for c in cs]), False)
    O(f"e{a}.push_children(iter {name})", lambda u, a=a, cs=cs: u.e[a].push_children(iter([u.e[c] for c in cs])), False)
  # documents
  for di in (0, 1):
    for ri in range(4):
      O(f"d{di}.put_region(r{ri})", lambda u, di=di, ri=ri: u.d[di].put_region(u.r[ri]))
    for rid in ("r1", "r2", "zz"):
      O(f"d{di}.remove_region({rid})", lambda u, di=di, rid=rid: u.d[di].remove_region(rid))
    for a in (0, 1, 16, None):
      O(f"d{di}.set_body({'None' if a is None else 'e%d' % a})", lambda u, di=di, a=a: u.d[di].set_body(None if a is None else u.e[a]))
    O(f"d{di}.put_region(e1)", lambda u, di=di: u.d[di].put_region(u.e[1]))
  O("ir.push_child(ibody)", lambda u: u.ir.push_child(u.ibody))
  O("ir.push_child(e0)", lambda u: u.ir.push_child(u.e[0]))
  O("ir.push_child(e1)", lambda u: u.ir.push_child(u.e[1]))
  O("isd.put_region(ir)", lambda u: u.isd.put_region(u.ir))
  # values
  vals = [("Color", sp.NamedColors.red.value), ("Color", 5), ("Color", "red"), ("FontFamily", ("serif", sp.GenericFontFamilyType.monospace)),
          ("FontFamily", (1, 2)), ("FontFamily", ("a", None)), ("FontFamily", "serif"), ("FontSize", sp.LengthType(10, sp.LengthType.Units.px)),
          ("FontSize", 10), ("Opacity", 0.5), ("Opacity", "x"), ("LineHeight", sp.SpecialValues.normal), ("LineHeight", sp.SpecialValues.none),
          ("TextEmphasis", sp.SpecialValues.none), ("Display", sp.DisplayType.none), ("Display", sp.VisibilityType.hidden), ("FillLineGap", True),
          ("FillLineGap", 1), ("Color", None)]
  for a in (3, 4, 7, 6):
    for pn, v in vals:
      O(f"e{a}.set_style({pn},{v!r})", lambda u, a=a, pn=pn, v=v: u.e[a].set_style(getattr(SP, pn), v))
  for pn, v in vals:
    O(f"d0.put_initial_value({pn},{v!r})", lambda u, pn=pn, v=v: u.d[0].put_initial_value(getattr(SP, pn), v))
    O(f"e4.add_animation_step({pn},{v!r})",
      lambda u, pn=pn, v=v: u.e[4].add_animation_step(m.DiscreteAnimationStep(getattr(SP, pn), Fraction(1), None, v)))
  O("e4.set_style(int,...)", lambda u: u.e[4].set_style(int, 1))
  O("e4.add_animation_step(None)", lambda u: u.e[4].add_animation_step(None))
  for a, b in ((4, 5), (4, 7), (3, 4), (6, 4), (7, 4)):
    O(f"e{a}.copy_to(e{b})", lambda u, a=a, b=b: u.e[a].copy_to(u.e[b]), False)
  return out


QUICK, SEED = True, 0
OPS = None


def classify(problems):
  """stable finding keys: one per (operation family, broken clause)"""
  return sorted({c for c, _ in problems})


def refine(u, problems):
  """region references held by elements that are not in the tree of their document's body are a separate witness class
  (a document cannot find such elements; see known_findings.txt)"""
  out = []
  for c, msg in problems:
    if c == "region-registry":
      inside = False
      for e in u.elements():
        r = e._region
        if r is None or e._doc is None or e._doc._regions.get(r._id) is r:
          continue
        body = getattr(e._doc, "_body", None)
        a, seen = e, set()
        while a is not None and id(a) not in seen:
          seen.add(id(a))
          if a is body:
            inside = True
          a = a._parent
      c = "region-registry" if inside else "region-registry:outside-body"
    out.append((c, msg))
  return out


def family(opname):
  name = opname.split("(")[0].split(".")[1]
  recv = opname.split(".")[0]
  return ("doc." if recv.startswith("d") and recv[1:].isdigit() else "") + name


def run_history(rec, start, hist, skip_checked_prefix=0):
  """-> True when the last call changed the model"""
  u = U(start)
  els, docs = u.elements(), u.docs()
  changed = False
  for step, oi in enumerate(hist):
    name, fn, single = OPS[oi]
    before = W.fingerprint(els, docs)
    raised = None
    try:
      fn(u)
    except Exception as e:  # pylint: disable=broad-except
      raised = e
    if step < skip_checked_prefix:
      continue
    rec.evaluated("WF after every call", hash((start, tuple(hist[:step + 1]))),
                  {"start": start, "history": [OPS[i][0] for i in hist[:step + 1]], "raised": type(raised).__name__ if raised else None})
    hnames = [OPS[i][0] for i in hist[:step + 1]]
    after = W.fingerprint(els, docs)
    changed = after != before
    probs = refine(u, W.check(els, docs, valid_value)) if changed else []
    if probs:
      for clause in classify(probs):
        rec.fail(f"wf:{family(name)}:{clause}", "WF after every call",
                 f"after {hnames} (start state {start}): " + "; ".join(msg for c, msg in probs if c == clause)[:300],
                 {"start": start, "history": hnames}, replayer="replayers.c15:history", replay_args={"start": start, "history": hnames})
      return False     # reported; histories through an ill-formed state are not extended
    if raised is not None and single:
      rec.evaluated("rejected operation leaves the model unchanged", hash((start, tuple(hist[:step + 1]), 1)))
      if changed:
        rec.fail(f"changed-on-reject:{family(name)}", "rejected operation leaves the model unchanged",
                 f"{name} raised {raised!r} but changed the model; history {hnames} (start {start})", {"start": start, "history": hnames},
                 replayer="replayers.c15:history", replay_args={"start": start, "history": hnames})
        return False
  return changed


ITEM_KINDS = {"str": "Arial", "generic": sp.GenericFontFamilyType.sansSerif, "int": 42, "None": None, "bytes": b"x", "tuple": ("serif",)}
C_ITEMS = "only a tuple whose EVERY item is a family name or a generic family is a valid tts:fontFamily, and only valid values are stored"


def font_family_value(kinds):
  return tuple(ITEM_KINDS[k] for k in kinds)


def font_family_case(kinds):
  """-> list of failure texts for one sequence of item kinds (validate, set_style, put_initial_value, animation step)"""
  v = font_family_value(kinds)
  want = all(k in ("str", "generic") for k in kinds)
  fails = []
  got = SP.FontFamily.validate(v)
  if bool(got) != want:
    fails.append(f"StyleProperties.FontFamily.validate({v!r}) = {got!r}, the value is {'valid' if want else 'NOT valid'}")
  d = m.ContentDocument()
  e = m.Span(d)
  for what, call, read in (
      ("set_style", lambda: e.set_style(SP.FontFamily, v), lambda: e.get_style(SP.FontFamily)),
      ("put_initial_value", lambda: d.put_initial_value(SP.FontFamily, v), lambda: d.get_initial_value(SP.FontFamily)),
      ("add_animation_step", lambda: e.add_animation_step(m.DiscreteAnimationStep(SP.FontFamily, Fraction(1), None, v)),
       lambda: next((st.value for st in e.iter_animation_steps()), None))):
    try:
      call()
      raised = None
    except Exception as ex:  # pylint: disable=broad-except
      raised = ex
    stored = read()
    if not want and stored is not None:
      fails.append(f"{what} stored the invalid value {v!r} (raised {raised!r})")
    if want and (raised is not None or stored != v):
      fails.append(f"{what} rejected or altered the valid value {v!r}: raised {raised!r}, stored {stored!r}")
  return fails


def chunk(job):
  global OPS
  logging.disable(logging.CRITICAL)
  OPS = ops(QUICK)
  rec = Recorder("C15", "", {})
  kind, start, lo, hi = job
  n = len(OPS)
  if kind == "items":
    import itertools
    names = sorted(ITEM_KINDS)
    for kinds in itertools.product(names, repeat=start):
      rec.evaluated(C_ITEMS, hash(("items", kinds)), {"item_kinds": list(kinds)})
      for text in font_family_case(kinds):
        rec.fail("value-validity:FontFamily-items", C_ITEMS, text, {"item_kinds": list(kinds)},
                 replayer="replayers.c15:font_family", replay_args={"item_kinds": list(kinds)})
    return rec
  if kind == "len2":
    # every history of length <= 2; a first call that leaves the model unchanged needs no second level
    # (the second call would act on the start state, which the length-1 histories already cover)
    for i in range(lo, hi):
      if run_history(rec, start, [i]):
        for j in range(n):
          run_history(rec, start, [i, j], skip_checked_prefix=1)
  else:
    r = rng(SEED, f"c15/{start}/{lo}")
    for _ in range(hi):
      run_history(rec, start, [r.randrange(n) for _ in range(lo)])
  return rec


def main():
  global QUICK, SEED, OPS
  args = parse_args()
  QUICK, SEED = args.tier == "quick", args.seed
  OPS = ops(QUICK)
  n = len(OPS)
  rec = Recorder("C15", "call histories over a universe of one or two elements per kind, two documents, four regions (two objects "
                 "sharing an id), an ISD region; operations with valid and invalid arguments; a case is a distinct (start state, history prefix)",
                 {"operations": n, "start_states": 3 if QUICK else 4, "exhaustive_length": 2 if QUICK else 2, "random_walks": "length 10" if QUICK else "length 3 and 12"})
  jobs = []
  step = max(1, n // 16)
  for start in ((0, 2, 3) if QUICK else (0, 1, 2, 3)):
    for lo in range(0, n, step):
      jobs.append(("len2", start, lo, min(n, lo + step)))
  walks = 400 if QUICK else 6000
  for start in (0, 1, 2):
    for k in range(8):
      jobs.append(("walk", start, 10 + k if QUICK else (3 if k < 4 else 12), walks // 8))
  for length in range(0, 5 if QUICK else 6):     # EVERY sequence of item kinds up to that length (6 kinds: 1555 / 9331 tuples)
    jobs.append(("items", length, 0, 0))
  for part in parallel(chunk, jobs):
    rec.merge(part)
  rec.exhaustive = False   # exhaustive up to length 2 over the stated universe only
  return rec.dump(args.out)


if __name__ == "__main__":
  sys.exit(main())
