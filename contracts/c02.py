"""C02 -- the presentation changes only at the reported significant times.  Level: other (proved kernels + bounded).
Proof tier: for the document shapes of specs/isd_shapes.py with symbolic timing values and a symbolic query time, the real
ISD.significant_times and ISD.from_model are executed symbolically; on every path the significant times are strictly increasing
and the snapshot at t equals the snapshot at the greatest significant time not after t (nothing visible before the first).
Bounded tier: the same relation + `generate_isd_sequence == snapshots at the significant times` on generated documents."""
from contracts.isd_common import generic_check, h_c02, h_c02_sequence

ASSUMPTIONS = [
  "A-PY/A-SMT; `set` of symbolic times is modelled by value comparison on insertion (pyvc.core.vc_set)",
  "snapshots are compared as rendered: empty regions that paint nothing (transparent / opacity 0 / hidden) are ignored (C14)",
  "proof tier: all timing values and query times, listed shapes only; generate_isd_sequence is bounded-only",
]
check = generic_check("C02", h_c02, "Proved per shape: strictly increasing, complete significant times for all rational timings and query "
                      "times; generate_isd_sequence == snapshots at the significant times.  Bounded: random documents x all boundary times and "
                      "midpoints; generate_isd_sequence.", ASSUMPTIONS, extra_factories=(h_c02_sequence,))
