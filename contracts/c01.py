"""C01 -- a snapshot at time t shows exactly the content TTML makes active at t.   Level: other (proved kernels + bounded).

Proof tier (unbounded in the time dimension): for each document *shape* below (real ttconv.model objects), ALL begin/end
offsets of the marked elements and the query time t are symbolic non-negative rationals; the real ISD.from_model and the real
ISD._make_absolute are executed symbolically and on every feasible path the snapshot tree must equal the one the independent
oracle specs/isd.py produces on the same path.  This decides time containment (begin inclusive, end exclusive, offsets relative
to the parent's begin, ends clipped by the parent's end), region activity, region association and pruning for all rational
times including every boundary -- per shape.  The shapes are a finite, stated list: arbitrary nesting is NOT proved.
Bounded tier: rtc/isd_props.py --prop C01 over generated documents (random shapes) x all boundary times.
"""
from __future__ import annotations

from fractions import Fraction

import framework
from pyvc import core
from pyvc.core import assume, prove, sym_frac
from pyvc.harness import Harness

import ttconv.model as m
import ttconv.style_properties as sp
from ttconv.isd import ISD

PROP = "C01"
SP = sp.StyleProperties

ASSUMPTIONS = [
  "A-PY/A-SMT as in C12 (exact rational arithmetic only: no floats occur in the time computations)",
  "A-SPEC: specs/isd.py is my reading of TTML2 time containment, [associate region] and ISD pruning",
  "proof tier: universally quantified over all timing values and all query times, for the listed document shapes only",
  "childless containers, i.e. ruby bases and the empty stand-ins ISD generation keeps for ruby parts that are not presented, are removed from "
  "both sides before comparing (an element that is not presentable must not appear with content; the empty shell of a ruby part is "
  "not `the element`: it has neither id nor content); a ruby none of whose parts has anything to present is not presented",
]


from specs.isd_shapes import SHAPES, MASKS


def harness_for(shape, mask):
  from specs import isd as S
  from rtc import isd_props as P

  def run(ctx):
    vals = {}

    def v(name):
      if name not in mask:
        return None
      if name not in vals:
        x = sym_frac(name)
        assume(x >= 0)
        vals[name] = x
      return vals[name]

    doc = SHAPES[shape](v)
    t = sym_frac("t")
    assume(t >= 0)
    st, isd = core.call_real(ISD.from_model, doc, t, allowed=())
    got = {r.get_id(): P.norm(P.tree(r)) for r in isd.iter_regions()}
    want, flags = S.snapshot(doc, t)
    exp = {k: P.norm(S.strip(n)) for k, n in want.items()}
    prove(got == exp, "snapshot==oracle", note=f"snapshot {got} oracle {exp}")

  return Harness(f"from_model[{shape}:{'+'.join(mask)}]", run,
                 ["ttconv.isd:ISD.from_model", "ttconv.isd:ISD._process_element", "ttconv.isd:ISD._make_absolute"],
                 "replayers.c01:shape", {"shape": shape, "mask": list(mask)},
                 "time containment, region activity/association and pruning for all rational timings and query times (this shape)")


def make_absolute_harnesses():
  """full functional contract of ISD._make_absolute, with None read as 'indefinite' / 'zero'"""
  hs = []
  for mask in range(16):
    def run(ctx, mask=mask):
      names = ["bo", "eo", "pb", "pe"]
      a = [sym_frac(n) if mask & (1 << i) else None for i, n in enumerate(names)]
      bo, eo, pb, pe = a
      st, (b, e) = core.call_real(ISD._make_absolute, bo, eo, pb, pe, allowed=())
      pb0 = pb if pb is not None else Fraction(0)
      prove(b == pb0 + (bo if bo is not None else Fraction(0)), "begin==parent-begin+offset")
      if eo is None:
        prove(core.vc_is(e, pe) if pe is None else (e == pe), "end==parent-end-when-no-end-offset")
      elif pe is None:
        prove(e == pb0 + eo, "end==parent-begin+end-offset")
      else:
        prove((e == pb0 + eo) | (e == pe), "end-is-one-of-the-two-candidates")
        prove((e <= pb0 + eo) & (e <= pe), "end==min(parent-begin+end-offset,parent-end)")
    hs.append(Harness(f"_make_absolute[mask={mask:04b}]", run, ["ttconv.isd:ISD._make_absolute"], "replayers.c01:make_absolute",
                      {"mask": mask}, "absolute interval = parent begin + offsets, clipped by the parent's end"))
  return hs


def all_harnesses(tier):
  hs = make_absolute_harnesses()
  for shape, masks in MASKS.items():
    for mask in masks:
      hs.append(harness_for(shape, mask))
  return hs


def check(tier, seed, only=None, skip_a=False, skip_b=False):
  hs = all_harnesses(tier)
  if only:
    hs = [h for h in hs if only in h.name]
  for h in hs:
    h.budget_s = 120.0 if tier == "quick" else 600.0
  cov, findings, undecided, errors = ({}, [], [], [])
  if not skip_a:
    cov, findings, undecided, errors = framework.run_tier_a(PROP, hs)
  cov["trusted_base"] = ASSUMPTIONS
  cov["explanation"] = ("Proved (all rational timing values and query times, listed shapes): ISD._make_absolute functional contract; "
                        "ISD.from_model == oracle snapshot on 6 document shapes x 31 timing masks (incl. rubies whose parts have their own timing).  Bounded (generated documents x all "
                        "boundary times): the same relation for random shapes, incl. ruby, nested regions, white space.  Not decided: "
                        "arbitrary nesting is covered by the bounded tier only; styles are C03.")
  if not skip_b:
    data, errs = framework.run_tier_b("isd_props", tier, seed, extra_args=["--prop", PROP])
    errors += errs
    if data:
      findings += framework.findings_from_rtc(data)
      for k in ("evaluations", "distinct_nontrivial", "rule", "bounded_scope"):
        cov[k] = data.get(k)
      cov["bounded_exhaustive"] = data.get("exhaustive")
      cov["bounded_samples"] = data.get("samples", [])[:6]
  return framework.Outcome(PROP, tier, seed, "other", cov, ASSUMPTIONS, findings, undecided, errors, 0.0)
