"""C03 -- every snapshot element carries the style values TTML style resolution prescribes.   Level: other (proof + bounded).

Tier A (pyvc, proved for ALL length values, font sizes and extents; the real source of ttconv/isd.py is re-read and executed
symbolically):
  * `_compute_length`: the unit table -- for each of the six units, result units = units of the reference and
    value = v*ref/100 (%), v*ref (em, c, px), unchanged (rh, rw); ValueError iff the needed reference is None.
  * `StyleProcessors.X.compute / inherit` on real ISD elements holding symbolic lengths, one instance per unit (and per
    writing mode / edge / element kind where it matters), for three cell resolutions and pixel resolutions:
    FontSize (compute with / without parent, inherit incl. ruby halving), LineHeight, LinePadding, Extent, Origin,
    Position (CSS background-position against the computed extent, origin := position), Padding (axis by writing mode),
    RubyReserve, TextOutline, TextShadow, TextDecoration.inherit (per component).
    The expected formulas are those of specs/styles.py (`resolve_length`), evaluated on the same symbolic values.
  Floats: `100 / rows` etc. are concrete binary64 constants; products with them are read as real numbers
  (A-FLOAT-STYLE: the un-rounded value of the float expression, i.e. rounding error of at most a few ulp is not part of
  the claim).

Tier B (bounded, rtc/c03.py): ISD.from_model against the whole-document oracle specs/styles.py -- cascade order
(animation > specified > inherited > <initial> > default), applicability tables, all 36 properties.  The precedence loops of
`_process_element` are NOT proved (they iterate over dictionaries of the heap model); they are covered by tier B only.
"""
from __future__ import annotations

from fractions import Fraction

import framework
from pyvc import core
from pyvc.core import assume, prove, sym_frac, sym_bool
from pyvc.harness import Harness
from specs import styles as S

import ttconv.isd as I
import ttconv.model as M
import ttconv.style_properties as SP

PROP = "C03"
MI = "ttconv.isd:"
U = SP.LengthType.Units
UNITS = {"%": U.pct, "em": U.em, "c": U.c, "px": U.px, "rh": U.rh, "rw": U.rw}
P = SP.StyleProperties

ASSUMPTIONS = [
  "A-SPEC: specs/styles.py is my reading of TTML2 section 10 / IMSC 1.1 section 8 style resolution (ORACLES.md section 4); its "
  "defaults, inheritance table and applicability tables are written from the standard, not read from ttconv",
  "A-FLOAT-STYLE: float arithmetic in style computation is read as real arithmetic (tier A: on the un-rounded value of each float "
  "expression; tier B: relative tolerance 1e-9); `100 / rows`, `100 / height` are the binary64 quotients CPython computes",
  "A-PY / A-SMT: pyvc's model of CPython numbers and the soundness of z3 / cvc5 `unsat` answers (tier A)",
  "units: % and em take the units of their reference (rh or rw), c and px the axis of the length; a length given in rh or rw is "
  "left as it is whatever axis it lies on; zero lengths are equal in every unit",
  "[P] accepted both ways: single-length font sizes in vertical writing modes along rh (ttconv) or rw; direction of a region in "
  "tbrl/tblr (initial value or ltr); writing mode implying the direction taken from the region's specified or computed writing mode; "
  "rubyReserve without a length (half the font size or none); <initial tts:position> against a specified tts:origin; tts:disparity "
  "carried as specified or resolved; a text decoration component specified nowhere at a region taken from a partial <initial> value or "
  "off; `c` of linePadding / textShadow x offset along the font axis (ttconv: rows) or the inline axis "
  "(columns)",
  "inherited textEmphasis / textOutline / textShadow carry the parent's computed value (colour resolved at the parent)",
  "a None component in a computed textDecoration is not a resolved value (reported as textdecoration-unresolved-component)",
  "elements are matched by id; whether an element is present in the snapshot at all (activity, region association, display) is "
  "the subject of C01/C13 and not checked here; documents keep ruby containers complete (no timing / display:none inside them)",
  "tier A covers the arithmetic kernels only; the four cascade loops of ISD._process_element and _compute_styles' ordering are "
  "checked by tier B (bounded) only",
]

RESOLUTIONS = [((15, 32), (1920, 1080)), ((23, 40), (720, 576)), ((1, 1), (1, 1)), ((20, 32), (1000, 800))]


# ---------------------------------------------------------------------------------------------------------------------
# symbolic <-> neutral values


def real(x):
  """the real number a (possibly float) symbolic value denotes without rounding"""
  if isinstance(x, core.SymFloat):
    return core.SymFrac(x.ideal)
  if isinstance(x, float):
    return Fraction(x)
  return x


def neutral(length):
  """ttconv LengthType (possibly symbolic value) -> ("L", real value, unit string)"""
  return ("L", real(length.value), length.units.value)


class Env:
  """the environment of specs.styles.resolve_length for one cell / pixel resolution; the cell and pixel references are the
  binary64 constants CPython computes for 100 / n (A-FLOAT-STYLE)"""

  def __init__(self, cell, px):
    self.rows, self.cols = cell
    self.pw, self.ph = px

  def cell(self, axis):
    return ("L", Fraction(100 / self.rows), "rh") if axis == "v" else ("L", Fraction(100 / self.cols), "rw")

  def px(self, axis):
    return ("L", Fraction(100 / self.ph), "rh") if axis == "v" else ("L", Fraction(100 / self.pw), "rw")


def eq_len(got, want):
  """obligation: same units (concrete) and same real value (symbolic)"""
  g = neutral(got)
  if g[2] != want[2]:
    return False
  return g[1] == want[1]


def mk_isd(cell, px):
  isd = I.ISD(None)
  isd.set_cell_resolution(M.CellResolutionType(rows=cell[0], columns=cell[1]))
  isd.set_px_resolution(M.PixelResolutionType(width=px[0], height=px[1]))
  return isd


def slen(name, unit, nonneg=False):
  v = sym_frac(name)
  if nonneg:
    assume(v >= 0)
  return SP.LengthType(v, UNITS[unit])


def res_tag(cell, px):
  return f"{cell[0]}x{cell[1]}/{px[0]}x{px[1]}"


# ---------------------------------------------------------------------------------------------------------------------
# harnesses


def compute_length_harnesses():
  hs = []
  need = {"%": 0, "em": 1, "c": 2, "px": 3}
  for unit in UNITS:
    for ref_units in (("rw", "rh", "rw", "rh"), ("rh", "rw", "rh", "rw")):
      def all_present(ctx, unit=unit, ref_units=ref_units):
        src = slen("v", unit)
        refs = [slen(n, u) for n, u in zip(("pr", "er", "cr", "xr"), ref_units)]
        st, out = core.call_real(I._compute_length, src, *refs, allowed=(ValueError,))
        prove(st == "ok", "no-exception-when-all-references-exist")
        v = src.value
        want = {"%": lambda: ("L", v * refs[0].value / 100, ref_units[0]), "em": lambda: ("L", v * refs[1].value, ref_units[1]),
                "c": lambda: ("L", v * refs[2].value, ref_units[2]), "px": lambda: ("L", v * refs[3].value, ref_units[3]),
                "rh": lambda: ("L", v, "rh"), "rw": lambda: ("L", v, "rw")}[unit]()
        prove(out.units.value == want[2], "units-of-the-reference")
        prove(real(out.value) == want[1], "value-by-the-unit-table")

      hs.append(Harness(f"_compute_length[{unit};refs {'/'.join(ref_units)}]", all_present, [MI + "_compute_length"],
                        "replayers.c03:compute_length", {"unit": unit, "ref_units": list(ref_units)},
                        "relative lengths are resolved by the unit table"))
    if unit in need:
      def missing(ctx, unit=unit):
        src = slen("v", unit)
        refs = [slen(n, u) for n, u in zip(("pr", "er", "cr", "xr"), ("rw", "rh", "rw", "rh"))]
        refs[need[unit]] = None
        st, out = core.call_real(I._compute_length, src, *refs, allowed=(ValueError,))
        prove(st == "raise", "ValueError-when-the-needed-reference-is-missing")

      def only(ctx, unit=unit):
        src = slen("v", unit)
        refs = [None, None, None, None]
        refs[need[unit]] = slen("r", "rh")
        st, out = core.call_real(I._compute_length, src, *refs, allowed=(ValueError,))
        prove(st == "ok", "no-exception-when-only-the-needed-reference-exists")
        k = src.value * refs[need[unit]].value
        prove(real(out.value) == (k / 100 if unit == "%" else k), "value-by-the-unit-table")
        prove(out.units is U.rh, "units-of-the-reference")

      hs.append(Harness(f"_compute_length[{unit};needed reference missing]", missing, [MI + "_compute_length"],
                        "replayers.c03:compute_length", {"unit": unit, "missing": True}, "ValueError iff the needed reference is None"))
      hs.append(Harness(f"_compute_length[{unit};only the needed reference]", only, [MI + "_compute_length"],
                        "replayers.c03:compute_length", {"unit": unit, "only": True}, "ValueError iff the needed reference is None"))
    else:
      def none_needed(ctx, unit=unit):
        src = slen("v", unit)
        st, out = core.call_real(I._compute_length, src, None, None, None, None, allowed=(ValueError,))
        prove(st == "ok", "no-exception-without-references")
        prove((real(out.value) == src.value) & (out.units is UNITS[unit]), "rh/rw-unchanged")

      hs.append(Harness(f"_compute_length[{unit};no reference]", none_needed, [MI + "_compute_length"],
                        "replayers.c03:compute_length", {"unit": unit, "none": True}, "rh and rw lengths are left unchanged"))
  return hs


def _own_font_harness(hs, pname, proc, make_value, pick_lengths, unit, cell, px, extra="", colours=None):
  """processors whose lengths are relative to the element's own computed font size (vertical axis in ttconv)"""
  env = Env(cell, px)

  def run(ctx):
    isd = mk_isd(cell, px)
    el = M.Span(isd)
    fs = slen("fs", "rh", nonneg=True)
    el.set_style(P.FontSize, fs)
    el.set_style(P.Color, SP.NamedColors.red.value)
    srcs = make_value(unit)
    el.set_style(getattr(P, pname), srcs[0])
    core.call_real(proc.compute, None, el)
    got = pick_lengths(el.get_style(getattr(P, pname)))
    fsn = ("L", fs.value, "rh")
    for i, (g, s) in enumerate(zip(got, srcs[1])):
      want = S.resolve_length(env, ("L", s.value, s.units.value), "v", fsn, fsn)
      prove(eq_len(g, want), f"length{i}-relative-to-own-font-size")
    if colours is not None:
      prove(colours(el.get_style(getattr(P, pname))), "colour-defaults-to-the-computed-colour-of-the-element")

  hs.append(Harness(f"{pname}.compute[{unit}{extra}]@{res_tag(cell, px)}", run, [MI + f"StyleProcessors.{pname}.compute", MI + "_compute_length"],
                    "replayers.c03:processor", {"processor": pname, "unit": unit, "cell": list(cell), "px": list(px)},
                    f"{pname}: % and em of the element's computed font size, c and px of the root container"))


def processor_harnesses(tier):
  hs = []
  SPr = I.StyleProcessors
  for cell, px in RESOLUTIONS:
    env = Env(cell, px)
    tag = res_tag(cell, px)

    # --- FontSize.compute
    for unit in UNITS:
      for with_parent in (True, False):
        def fs_compute(ctx, unit=unit, with_parent=with_parent, env=env, cell=cell, px=px):
          isd = mk_isd(cell, px)
          el = M.P(isd)
          parent = None
          pref = env.cell("v")
          if with_parent:
            parent = M.Div(isd)
            pfs = slen("pfs", "rh", nonneg=True)
            parent.set_style(P.FontSize, pfs)
            pref = ("L", pfs.value, "rh")
          src = slen("v", unit)
          el.set_style(P.FontSize, src)
          core.call_real(SPr.FontSize.compute, parent, el)
          want = S.resolve_length(env, ("L", src.value, unit), "v", pref, pref)
          prove(eq_len(el.get_style(P.FontSize), want), "font-size-relative-to-parent-or-1c")

        hs.append(Harness(f"FontSize.compute[{unit};{'parent' if with_parent else 'root'}]@{tag}", fs_compute,
                          [MI + "StyleProcessors.FontSize.compute", MI + "_compute_length", MI + "_make_rh_length"],
                          "replayers.c03:processor", {"processor": "FontSize", "unit": unit, "cell": list(cell), "px": list(px)},
                          "font size: % and em of the parent's computed font size (root: 1c), c of the cell resolution, px of the pixel extent"))

    # --- lengths relative to the element's own font size
    for unit in UNITS:
      _own_font_harness(hs, "LineHeight", SPr.LineHeight, lambda u: (lambda l: (l, [l]))(slen("v", u)), lambda v: [v], unit, cell, px)
      if unit in ("c", "rh", "rw"):
        _own_font_harness(hs, "LinePadding", SPr.LinePadding, lambda u: (lambda l: (l, [l]))(slen("v", u)), lambda v: [v], unit, cell, px)
      _own_font_harness(hs, "TextOutline", SPr.TextOutline,
                        lambda u: (lambda l: (SP.TextOutlineType(thickness=l, color=None), [l]))(slen("v", u)),
                        lambda v: [v.thickness], unit, cell, px, colours=lambda v: v.color == SP.NamedColors.red.value)
      _own_font_harness(hs, "RubyReserve", SPr.RubyReserve,
                        lambda u: (lambda l: (SP.RubyReserveType(SP.RubyReserveType.Position.both, l), [l]))(slen("v", u)),
                        lambda v: [v.length], unit, cell, px)
      _own_font_harness(hs, "TextShadow", SPr.TextShadow,
                        lambda u: (lambda x, y, b: (SP.TextShadowType((SP.TextShadowType.Shadow(x, y, b, None),
                                                                      SP.TextShadowType.Shadow(y, x, None, SP.NamedColors.blue.value))),
                                                    [x, y, b, y, x]))(slen("x", u), slen("y", u), slen("b", u)),
                        lambda v: [v.shadows[0].x_offset, v.shadows[0].y_offset, v.shadows[0].blur_radius,
                                   v.shadows[1].x_offset, v.shadows[1].y_offset], unit, cell, px,
                        colours=lambda v: v.shadows[0].color == SP.NamedColors.red.value and v.shadows[1].color == SP.NamedColors.blue.value
                        and v.shadows[1].blur_radius is None)

    # --- Disparity (regions): a horizontal offset -- %, c and px of the width of the root container, em of the computed font size
    for unit in UNITS:
      def disparity(ctx, unit=unit, env=env, cell=cell, px=px):
        isd = mk_isd(cell, px)
        el = I.ISD.Region("r1", isd)
        fs = slen("fs", "rh", nonneg=True)
        el.set_style(P.FontSize, fs)
        src = slen("v", unit)
        el.set_style(P.Disparity, src)
        core.call_real(SPr.Disparity.compute, None, el)
        fsn = ("L", fs.value, "rh")
        want = S.resolve_length(env, ("L", src.value, unit), "h", ("L", 100, "rw"), fsn)
        prove(eq_len(el.get_style(P.Disparity), want), "disparity-relative-to-the-root-container-width")

      hs.append(Harness(f"Disparity.compute[{unit}]@{tag}", disparity, [MI + "StyleProcessors.Disparity.compute", MI + "_compute_length"],
                        "replayers.c03:processor", {"processor": "Disparity", "unit": unit, "cell": list(cell), "px": list(px)},
                        "tts:disparity: %, c and px of the width of the root container, em of the computed font size"))

    # --- Extent / Origin
    for hu, wu in (("%", "%"), ("px", "px"), ("c", "c"), ("rh", "rw"), ("c", "%"), ("%", "px")):
      def extent(ctx, hu=hu, wu=wu, env=env, cell=cell, px=px):
        isd = mk_isd(cell, px)
        el = I.ISD.Region("r", isd)
        h, w = slen("h", hu), slen("w", wu)
        el.set_style(P.FontSize, slen("fs", "rh", nonneg=True))
        el.set_style(P.Extent, SP.ExtentType(height=h, width=w))
        core.call_real(SPr.Extent.compute, None, el)
        got = el.get_style(P.Extent)
        prove(eq_len(got.height, S.resolve_length(env, ("L", h.value, hu), "v", S.L(100, "rh"), None)), "height-along-rh")
        prove(eq_len(got.width, S.resolve_length(env, ("L", w.value, wu), "h", S.L(100, "rw"), None)), "width-along-rw")

      hs.append(Harness(f"Extent.compute[{hu} x {wu}]@{tag}", extent, [MI + "StyleProcessors.Extent.compute", MI + "_compute_length"],
                        "replayers.c03:processor", {"processor": "Extent", "unit": f"{hu} {wu}", "cell": list(cell), "px": list(px)},
                        "extent: height against the root height / rows / pixel height, width against the root width / columns / pixel width"))

      def origin(ctx, hu=hu, wu=wu, env=env, cell=cell, px=px):
        isd = mk_isd(cell, px)
        el = I.ISD.Region("r", isd)
        y, x = slen("y", hu), slen("x", wu)
        el.set_style(P.Origin, SP.CoordinateType(x=x, y=y))
        core.call_real(SPr.Origin.compute, None, el)
        got = el.get_style(P.Origin)
        prove(eq_len(got.y, S.resolve_length(env, ("L", y.value, hu), "v", S.L(100, "rh"), None)), "y-along-rh")
        prove(eq_len(got.x, S.resolve_length(env, ("L", x.value, wu), "h", S.L(100, "rw"), None)), "x-along-rw")

      hs.append(Harness(f"Origin.compute[{wu}, {hu}]@{tag}", origin, [MI + "StyleProcessors.Origin.compute", MI + "_compute_length"],
                        "replayers.c03:processor", {"processor": "Origin", "unit": f"{wu} {hu}", "cell": list(cell), "px": list(px)},
                        "origin: per axis"))

    # --- Position (CSS background-position against the computed extent; origin := position)
    for (hu, vu) in (("%", "%"), ("px", "px"), ("c", "c"), ("rw", "rh")):
      for hedge in ("left", "right"):
        for vedge in ("top", "bottom"):
          if (hedge, vedge) != ("left", "top") and (cell, px) != RESOLUTIONS[0]:
            continue        # the edge arithmetic does not depend on the resolution: right / bottom edges at one resolution only
          def position(ctx, hu=hu, vu=vu, hedge=hedge, vedge=vedge, env=env, cell=cell, px=px):
            isd = mk_isd(cell, px)
            el = I.ISD.Region("r", isd)
            eh, ew = slen("eh", "rh", nonneg=True), slen("ew", "rw", nonneg=True)
            el.set_style(P.Extent, SP.ExtentType(height=eh, width=ew))
            el.set_style(P.Origin, SP.CoordinateType(x=slen("ox", "rw"), y=slen("oy", "rh")))
            ho, vo = slen("ho", hu), slen("vo", vu)
            el.set_style(P.Position, SP.PositionType(ho, vo, SP.PositionType.HEdge[hedge], SP.PositionType.VEdge[vedge]))
            core.call_real(SPr.Position.compute, None, el)
            x = S.resolve_length(env, ("L", ho.value, hu), "h", ("L", 100 - ew.value, "rw"), None)
            y = S.resolve_length(env, ("L", vo.value, vu), "v", ("L", 100 - eh.value, "rh"), None)
            if hedge == "right":
              x = ("L", 100 - ew.value - x[1], "rw")
            if vedge == "bottom":
              y = ("L", 100 - eh.value - y[1], "rh")
            o, p = el.get_style(P.Origin), el.get_style(P.Position)
            prove(core.all_of(eq_len(o.x, x), eq_len(o.y, y)), "origin-offsets-from-top-left" if (hedge, vedge) == ("left", "top") else f"origin-from-{hedge}-{vedge}-edges")
            prove(core.all_of(eq_len(p.h_offset, x), eq_len(p.v_offset, y)), "position-equals-origin")
            prove((p.h_edge is SP.PositionType.HEdge.left) and (p.v_edge is SP.PositionType.VEdge.top), "position-measured-from-top-left")

          hs.append(Harness(f"Position.compute[{hedge} {hu} {vedge} {vu}]@{tag}", position,
                            [MI + "StyleProcessors.Position.compute", MI + "_compute_length"], "replayers.c03:position",
                            {"hu": hu, "vu": vu, "hedge": hedge, "vedge": vedge, "cell": list(cell), "px": list(px)},
                            "a specified position is resolved against the computed extent and edges into the origin"))

    def position_none(ctx, cell=cell, px=px):
      isd = mk_isd(cell, px)
      el = I.ISD.Region("r", isd)
      ox, oy = slen("ox", "rw"), slen("oy", "rh")
      el.set_style(P.Origin, SP.CoordinateType(x=ox, y=oy))
      core.call_real(SPr.Position.compute, None, el)
      p = el.get_style(P.Position)
      prove((real(p.h_offset.value) == ox.value) & (real(p.v_offset.value) == oy.value) & (p.h_offset.units is U.rw)
            & (p.v_offset.units is U.rh), "position-defaults-to-origin")

    hs.append(Harness(f"Position.compute[none]@{tag}", position_none, [MI + "StyleProcessors.Position.compute"],
                      "replayers.c03:origin_only", {"cell": list(cell), "px": list(px)},
                      "without a position the computed position is the origin"))

    # --- Padding (axis by writing mode)
    for wm in ("lrtb", "rltb", "tbrl", "tblr"):
      for unit in UNITS:
        def padding(ctx, wm=wm, unit=unit, env=env, cell=cell, px=px):
          isd = mk_isd(cell, px)
          el = I.ISD.Region("r", isd)
          eh, ew = slen("eh", "rh", nonneg=True), slen("ew", "rw", nonneg=True)
          fs = slen("fs", "rh", nonneg=True)
          el.set_style(P.Extent, SP.ExtentType(height=eh, width=ew))
          el.set_style(P.FontSize, fs)
          el.set_style(P.WritingMode, SP.WritingModeType[wm])
          ls = [slen(n, unit) for n in ("pb", "pe", "pa", "ps")]
          el.set_style(P.Padding, SP.PaddingType(before=ls[0], end=ls[1], after=ls[2], start=ls[3]))
          core.call_real(SPr.Padding.compute, None, el)
          got = el.get_style(P.Padding)
          vertical = wm in ("tbrl", "tblr")
          ehn, ewn, fsn = ("L", eh.value, "rh"), ("L", ew.value, "rw"), ("L", fs.value, "rh")
          bax, bref = ("h", ewn) if vertical else ("v", ehn)
          iax, iref = ("v", ehn) if vertical else ("h", ewn)
          for nm, g, l, ax, ref in (("before", got.before, ls[0], bax, bref), ("end", got.end, ls[1], iax, iref),
                                    ("after", got.after, ls[2], bax, bref), ("start", got.start, ls[3], iax, iref)):
            prove(eq_len(g, S.resolve_length(env, ("L", l.value, unit), ax, ref, fsn)), f"padding-{nm}-on-its-axis")

        hs.append(Harness(f"Padding.compute[{wm};{unit}]@{tag}", padding, [MI + "StyleProcessors.Padding.compute", MI + "_compute_length"],
                          "replayers.c03:processor", {"processor": "Padding", "unit": unit, "wm": wm, "cell": list(cell), "px": list(px)},
                          "percentages of padding use the right axis for the writing mode"))

  # --- resolution-independent: FontSize.inherit (ruby halving), RubyReserve without length, TextDecoration.inherit
  for ek, pk, halved in (("Rtc", "Ruby", True), ("Rt", "Ruby", True), ("Rt", "Rtc", False), ("Span", "P", False), ("Rb", "Ruby", False),
                         ("Rp", "Rtc", False)):
    def fs_inherit(ctx, ek=ek, pk=pk, halved=halved):
      isd = mk_isd((15, 32), (1920, 1080))
      el, parent = getattr(M, ek)(isd), getattr(M, pk)(isd)
      pfs = slen("pfs", "rh", nonneg=True)
      parent.set_style(P.FontSize, pfs)
      core.call_real(I.StyleProcessors.FontSize.inherit, parent, el)
      got = el.get_style(P.FontSize)
      prove((real(got.value) == (pfs.value / 2 if halved else pfs.value)) & (got.units is U.rh), "inherited-font-size")
      # an element with a font size of its own keeps it
      el2 = getattr(M, ek)(isd)
      own = slen("own", "em")
      el2.set_style(P.FontSize, own)
      core.call_real(I.StyleProcessors.FontSize.inherit, parent, el2)
      prove(el2.get_style(P.FontSize) is own, "own-font-size-kept")

    hs.append(Harness(f"FontSize.inherit[{ek} in {pk}]", fs_inherit, [MI + "StyleProcessors.FontSize.inherit"], "replayers.c03:ruby_font_size", {},
                      "ruby text (rtc, and rt outside an rtc) defaults to half the parent's font size; everything else inherits it"))

  def rr_nolength(ctx):
    isd = mk_isd((15, 32), (1920, 1080))
    el = M.P(isd)
    fs = slen("fs", "rh", nonneg=True)
    el.set_style(P.FontSize, fs)
    el.set_style(P.RubyReserve, SP.RubyReserveType(SP.RubyReserveType.Position.before, None))
    core.call_real(I.StyleProcessors.RubyReserve.compute, None, el)
    got = el.get_style(P.RubyReserve)
    prove((real(got.length.value) == fs.value / 2) & (got.length.units is U.rh) & (got.position is SP.RubyReserveType.Position.before),
          "ruby-reserve-defaults-to-half-the-font-size")

  hs.append(Harness("RubyReserve.compute[no length]", rr_nolength, [MI + "StyleProcessors.RubyReserve.compute"], "replayers.c03:ruby_reserve_default", {},
                    "rubyReserve without a length reserves half the font size [P]"))

  for mask in range(8):
    def td_inherit(ctx, mask=mask):
      isd = mk_isd((15, 32), (1920, 1080))
      el, parent = M.Span(isd), M.P(isd)
      pv = [sym_bool(n) for n in ("pu", "pl", "po")]
      parent.set_style(P.TextDecoration, SP.TextDecorationType(underline=pv[0], line_through=pv[1], overline=pv[2]))
      sv = [sym_bool(n) if mask & (1 << i) else None for i, n in enumerate(("su", "sl", "so"))]
      el.set_style(P.TextDecoration, SP.TextDecorationType(underline=sv[0], line_through=sv[1], overline=sv[2]))
      core.call_real(I.StyleProcessors.TextDecoration.inherit, parent, el)
      got = el.get_style(P.TextDecoration)
      for nm, g, s, p in zip(("underline", "line_through", "overline"), (got.underline, got.line_through, got.overline), sv, pv):
        prove(g == (s if s is not None else p), f"{nm}-specified-else-parent")

    hs.append(Harness(f"TextDecoration.inherit[specified components {mask:03b}]", td_inherit, [MI + "StyleProcessors.TextDecoration.inherit"],
                      "replayers.c03:text_decoration", {"mask": mask}, "text decoration merges per component"))
  return hs


def all_harnesses(tier):
  return compute_length_harnesses() + processor_harnesses(tier)


def check(tier, seed, only=None, skip_a=False, skip_b=False):
  hs = all_harnesses(tier)
  if only:
    hs = [h for h in hs if only in h.name]
  for h in hs:
    h.budget_s = 60.0 if tier == "quick" else 300.0
  cov, findings, undecided, errors = ({}, [], [], [])
  if not skip_a:
    cov, findings, undecided, errors = framework.run_tier_a(PROP, hs)
  cov["trusted_base"] = ASSUMPTIONS
  cov["explanation"] = (
    "Tier A (proved for all length values / font sizes / extents, per unit, writing mode, edge and resolution): the unit table of "
    "_compute_length and the formulas of the FontSize, LineHeight, LinePadding, Extent, Origin, Position, Padding, RubyReserve, "
    "TextOutline, TextShadow processors and of FontSize.inherit / TextDecoration.inherit, against specs/styles.py.  "
    "Tier B (bounded, not counted as proved): whole documents through ISD.from_model against the oracle -- cascade order, "
    "applicability, all 36 properties x value forms x element kinds x writing modes x resolutions, animation schedules.")
  if not skip_b:
    data, errs = framework.run_tier_b("c03", tier, seed)
    errors += errs
    if data:
      findings += framework.findings_from_rtc(data)
      for k in ("evaluations", "distinct_nontrivial", "rule", "bounded_scope", "exhaustive", "per_contract"):
        cov["bounded_" + k if k in ("exhaustive",) else k] = data.get(k)
      cov["bounded_samples"] = data.get("samples", [])[:8]
  return framework.Outcome(PROP, tier, seed, "other", cov, ASSUMPTIONS, findings, undecided, errors, 0.0)
