"""C04 -- reading IMSC/TTML XML follows TTML timing, styling and white-space semantics.   Level: other (bounded + a small proof tier).

Functions under contract (real code): ttconv.imsc.reader.to_model; ttconv.imsc.elements ContentElement.ParsingContext.process,
process_referential_styling, process_specified_styling, process_set_style_properties, StylingElement.ParsingContext.merge_chained_styles,
StyleElement.from_xml, InitialElement.from_xml, make_anonymous_span; ttconv.imsc.attributes *.extract; ttconv.imsc.utils
parse_time_expression / parse_length / parse_position / parse_font_families; ttconv.imsc.style_properties *.extract;
ttconv.utils.parse_color.  The oracle is specs/ttml.py, an interpreter of TTML2 / IMSC 1.1 working directly on the XML.

Bounded tier (rtc/c04.py): generated documents x all interval boundaries, midpoints and one later instant: visible text per
region and computed color / backgroundColor / fontWeight / fontStyle / textDecoration / textAlign / display / visibility / xml:lang
per text run; a catalogue of attribute values read back through the model getters; every document again with ONE attribute
corrupted (unknown attribute, malformed value, unknown token): no exception, snapshots equal those of the document without
the attribute, a log record.

Proof tier, time expressions: the real reader on <p begin=EXPR end=EXPR2> where the digits of the expressions are formatted SYMBOLIC
integers (format tokens) and the reader's compiled time-expression patterns are wrapped by pyvc.restub.TokenRegex: for each of 14
syntax x parameter combinations (clock time with fraction, clock time with frames at 25 / 30 / 30*1000/1001, offsets in h m s ms f t
with and without fraction under frameRate, frameRateMultiplier and tickRate) and EVERY value of every field, the begin and end
stored in the model are the TTML2 media times of the expressions (Appendix I), as exact rationals.
Proof tier, time containers: the temporal kernel ContentElement.ParsingContext.process once the three
attribute extractors Begin/Dur/End.extract are replaced by stubs that return the (symbolic) rational named by the attribute
value (A-RE: regular-expression groups abstracted): for a list of document shapes (par / seq nesting to depth 3, all eight
begin/dur/end combinations on the marked elements) ALL timing values are symbolic non-negative rationals, the real `process`
is executed symbolically through the real to_model, and on every feasible path the begin / end stored in the model must equal
the offsets the oracle's TTML2 resolution gives for the same symbols (same stub).
"""
from __future__ import annotations

from fractions import Fraction

import framework

PROP = "C04"
ASSUMPTIONS = [
  "A-SPEC: specs/ttml.py is my reading (no network) of TTML2 sections 8, 10, 11, 12, Appendix I and IMSC 1.1; rules I am only fairly sure of are "
  "kept out of the verdict (OutOfScope, counted in the evidence) or both readings are accepted, as listed below",
  "time base media only; `t` offsets only in documents that specify ttp:tickRate (the default tick rate is probable-only); clock times with "
  "frames only for frame counts below both the nominal and the effective frame rate; minutes < 60, seconds < 60; no sub-frames; no wall-clock",
  "begin/end/dur: offsets from the parent's begin (par) or from the previous sibling's end (seq); active end = min(begin + dur, syncbase + end); "
  "implicit duration: par = latest child end (indefinite if any child is), seq = end of the last child; anonymous spans, br, set and region: "
  "indefinite in a par parent, zero in a seq parent; an element after a sibling of indefinite duration in a seq never becomes active; `set` "
  "children take part in their parent's time container like any child (so a set in a seq occupies its duration in the sequence)",
  "an element whose end precedes its begin is generated only under a parent with an explicit dur/end and a par container (how an invalid "
  "interval enters an implicit duration or a sequence is not asserted)",
  "style precedence: inline > nested style children (regions) > referential in attribute order (later wins) > chained references (depth first, "
  "later wins, own attributes of a style over what it references); two nested styles never give the same property (first/last wins is "
  "probable-only); nested styles carry no references; no reference loops; at most one <initial> per property; a set carries one style attribute",
  "computed values: animation > specified > inherited (inheritable property) > <initial> > TTML2/IMSC initial value (color: white); body inherits "
  "from the region it is flowed into; textDecoration resolves per component; tts:textAlign left/right are read as start/end (the canonical "
  "model has no absolute alignments); textDecoration is not compared for the text of a region that itself specifies a partial textDecoration (its "
  "resolution against the initial value is ISD style computation, C03); tts:textAlign=\"justify\" (TTML2 #textAlign-justify, outside the IMSC 1.1 text profile and not representable in the canonical model) is required to be ignored and logged like a malformed value",
  "named colours in lower case only; rgb()/rgba() without white space; an rgb component > 255 may be rejected or clamped to 255 (both accepted)",
  "[associate region]: text is shown in region R iff every `region` attribute on it and its ancestors names R (at least one does), or the document "
  "has no region at all (default region); references to unknown regions are not generated",
  "non-inherited properties of a text run: those of the span element that directly contains the text, the anonymous span of a paragraph has "
  "initial values; ruby bases / texts / delimiters with direct text never carry backgroundColor or display (representation-dependent)",
  "xml:space: default collapses white-space runs to one space across adjacent text of a paragraph and removes them at line starts/ends (paragraph "
  "edges, br); preserve keeps text; a paragraph mixing both is compared modulo white space; ruby text is its own line area; ruby parts are "
  "generated without white space; white space between the children of ruby containers is not generated",
  "ruby: ISD.from_model raising ValueError on a ruby with an inactive or hidden part is a known finding of C01 and skipped here; timing and "
  "display are generated on the ruby container only",
  "the reader does not keep xml:id of content elements (not demanded by the statement): elements are matched by document order",
  "corrupted attributes: only values that are certainly invalid (see rtc/c04.py TIME_BAD, COLOR_BAD, ...); `unknown attribute` = an attribute "
  "TTML does not define in the TT, TTS or TTP namespace or in no namespace; foreign-namespace attributes are legal and not generated",
  "log contract: strictly more ttconv.imsc.* records of level WARNING or above than for the document without the attribute",
  "proof tier: A-PY/A-SMT as in C12; A-RE: Begin/Dur/End.extract replaced by a stub returning the rational named by the attribute value; the "
  "shapes are a finite stated list (arbitrary nesting is bounded-tier only)",
]
FUNCTIONS = [
  "ttconv.imsc.reader:to_model", "ttconv.imsc.elements:ContentElement.ParsingContext.process",
  "ttconv.imsc.elements:ContentElement.ParsingContext.process_referential_styling",
  "ttconv.imsc.elements:ContentElement.ParsingContext.process_specified_styling",
  "ttconv.imsc.elements:ContentElement.ParsingContext.process_set_style_properties",
  "ttconv.imsc.elements:StylingElement.ParsingContext.merge_chained_styles", "ttconv.imsc.elements:StyleElement.from_xml",
  "ttconv.imsc.elements:InitialElement.from_xml", "ttconv.imsc.elements:ContentElement.make_anonymous_span",
  "ttconv.imsc.elements:TTElement.from_xml", "ttconv.imsc.utils:parse_time_expression", "ttconv.imsc.utils:parse_length",
  "ttconv.imsc.utils:parse_position", "ttconv.imsc.utils:parse_font_families", "ttconv.imsc.attributes:FrameRateAttribute.extract",
  "ttconv.imsc.attributes:TickRateAttribute.extract", "ttconv.imsc.attributes:BeginAttribute.extract",
  "ttconv.imsc.attributes:EndAttribute.extract", "ttconv.imsc.attributes:DurAttribute.extract",
  "ttconv.imsc.attributes:TimeContainerAttribute.extract", "ttconv.imsc.attributes:XMLSpaceAttribute.extract",
  "ttconv.imsc.style_properties:StyleProperties.TextShadow.extract", "ttconv.imsc.style_properties:StyleProperties.TextDecoration.extract",
  "ttconv.imsc.style_properties:StyleProperties.Padding.extract", "ttconv.imsc.style_properties:StyleProperties.Display.extract",
  "ttconv.utils:parse_color",
]

# ---------------------------------------------------------------------------------------------------------------------
# proof tier: the temporal kernel of ContentElement.ParsingContext.process over symbolic begin / dur / end

TT_NS = "http://www.w3.org/ns/ttml"
COMBOS = ["", "b", "d", "e", "bd", "be", "de", "bde"]


def _attrs(name, combo, extra=""):
  a = "".join(f' {k}="${name}{k[0]}"' for k in ("begin", "dur", "end") if k[0] in combo)
  return f' xml:id="{name}"{a}{extra}'


def shapes():
  """name -> xml text; timing attribute values are `$<id><b|d|e>` place-holders"""
  out = {}
  seq = ' timeContainer="seq"'
  for c in COMBOS:
    # one paragraph in a div with a begin: offsets, the four-way end table, implicit end of the parallel div
    out[f"par-div/p[{c or '-'}]"] = f'<body><div{_attrs("d", "")}><p{_attrs("p", c)}>A</p></div></body>'
    # a paragraph with two spans: implicit end = latest child end
    out[f"par-p/2span[{c or '-'}]"] = f'<body><div><p{_attrs("p", "")}><span{_attrs("x", c)}>A</span><span{_attrs("y", "bd")}>B</span></p></div></body>'
  # parallel containers that have a begin of their own and an implicit end
  out["par-div[b]/p[bd]"] = f'<body><div{_attrs("d", "b")}><p{_attrs("p", "bd")}>A</p></div></body>'
  out["par-p[b]/2span[d]"] = f'<body><div><p{_attrs("p", "b")}><span{_attrs("x", "d")}>A</span><span{_attrs("y", "bd")}>B</span></p></div></body>'
  for c in ("", "b"):
    # a first child of indefinite duration: the sequence is indefinite and the second child never begins
    out[f"seq-div/2p[{c or '-'}]"] = f'<body><div{_attrs("d", "", seq)}><p{_attrs("p", c)}>A</p><p{_attrs("q", "d")}>B</p></div></body>'
  for c in ("d", "e", "bd", "be", "de", "bde"):
    # sequence: the second child starts where the first ends; implicit end of the sequence; text of a sequence is dropped
    out[f"seq-div/2p[{c}]"] = f'<body><div{_attrs("d", "b", seq)}><p{_attrs("p", c)}>A</p><p{_attrs("q", "bd")}>B</p></div></body>'
    out[f"seq-p/2span[{c}]"] = f'<body><div><p{_attrs("p", "", seq)}>t<span{_attrs("x", c)}>A</span>t<span{_attrs("y", "d")}>B</span></p><p{_attrs("q", "d")}>C</p></div></body>'
  # nesting to depth 3 with a sequence inside a parallel container inside a sequence
  out["seq/par/seq"] = (f'<body{_attrs("b", "", seq)}><div{_attrs("d", "")}><p{_attrs("p", "b", seq)}><span{_attrs("x", "bd")}>A</span>'
                        f'<span{_attrs("y", "e")}>B</span></p><p{_attrs("q", "be")}>C</p></div><div{_attrs("f", "d")}><p{_attrs("r", "")}>D</p></div></body>')
  # animation: set intervals are stored relative to the animated element
  out["set"] = (f'<body><div{_attrs("d", "")}><p{_attrs("p", "bd")}><set{_attrs("s", "bd")} tts:color="red"/><set{_attrs("u", "e")} tts:color="blue"/>A</p></div></body>')
  # sets in a sequence take their turn like any child; the stored step interval is relative to the animated element
  out["seq-set"] = (f'<body><div><p{_attrs("p", "b", seq)}><set{_attrs("s", "bd")} tts:color="red"/><set{_attrs("u", "d")} tts:color="blue"/>'
                    f'<span{_attrs("x", "d")}>A</span></p></div></body>')
  return {k: f'<tt xmlns="{TT_NS}" xmlns:tts="http://www.w3.org/ns/ttml#styling" xml:lang="en">{v}</tt>' for k, v in out.items()}


def concretise(xml_text, values):
  """replace the `$name` place-holders by tick counts under a tick rate that makes every value exact"""
  import math
  import re
  den = 1
  for v in values.values():
    den = den * v.denominator // math.gcd(den, v.denominator)

  def sub(mo):
    v = values.get(mo.group(1), Fraction(0))
    return f'"{int(v * den)}t"'
  out = re.sub(r'"\$([a-z]+)"', sub, xml_text)
  return out.replace("<tt ", f'<tt xmlns:ttp="http://www.w3.org/ns/ttml#parameter" ttp:tickRate="{den}" ', 1)


def match(n, e, pairs):
  """walk the oracle's tree and the model in parallel; -> False when the structures differ.
  Text of a parallel container is one model child (anonymous span / text node), text of a sequence is dropped, children with
  an empty interval are dropped (the comparison `end == begin` forks the path when it is symbolic)."""
  pairs.append((n, e))
  kids = list(e)
  i = 0
  for c in n.children:
    if c.kind == "text":
      if n.tc == "par":
        i += 1
      continue
    if c.never:
      continue
    if c.end is not None and c.end == c.begin:
      continue
    if i >= len(kids):
      return False
    if not match(c, kids[i], pairs):
      return False
    i += 1
  return i == len(kids)


def harness_for(name, xml_text):
  from pyvc import core
  from pyvc.core import assume, prove, sym_frac
  from pyvc.harness import Harness
  from specs import ttml as S

  def run(ctx):
    import xml.etree.ElementTree as et
    import ttconv.imsc.attributes as A
    import ttconv.imsc.reader as reader
    vals = {}

    def sym(expr):
      if expr not in vals:
        x = sym_frac(expr[1:])
        assume(x >= 0)
        vals[expr] = x
      return vals[expr]

    def stub(qn):
      def extract(context, xml_element):
        raw = xml_element.attrib.get(qn)
        return None if raw is None else sym(raw)
      return staticmethod(extract)

    saved = (A.BeginAttribute.extract, A.DurAttribute.extract, A.EndAttribute.extract)
    A.BeginAttribute.extract, A.DurAttribute.extract, A.EndAttribute.extract = stub("begin"), stub("dur"), stub("end")
    try:
      root = et.fromstring(xml_text)
      st, doc = core.call_real(reader.to_model, et.ElementTree(root), allowed=())
    finally:
      A.BeginAttribute.extract, A.DurAttribute.extract, A.EndAttribute.extract = saved
    try:
      odoc = S.interpret(root, time_parser=sym)
    except S.OutOfScope:
      return          # on this path an end precedes a begin where the oracle asserts nothing (see ASSUMPTIONS)
    pairs = []
    same = match(odoc.body, doc.get_body(), pairs)
    if not same:
      # which elements are kept depends on the computed ends: a difference that the already-described deviation of the
      # implicit end of parallel containers explains is filed under that obligation, anything else under its own name
      try:
        dev = S.interpret(root, time_parser=sym, deviations=("par-implicit-end-ignores-own-begin",))
      except S.OutOfScope:
        return
      if match(dev.body, doc.get_body(), []):
        prove(False, "implicit-end-of-par[kept-or-dropped]==TTML-active-end",
              note="an element is dropped although its TTML interval is not empty: the implicit end of a parallel container ignores its begin")
      else:
        prove(False, "kept-elements==elements-with-a-non-empty-interval")
      return
    for n, e in reversed(pairs):      # descendants before ancestors: the innermost wrong interval is the one reported
      pb = n.parent.begin if n.parent is not None else Fraction(0)
      nid = n.id or n.kind
      gb = e.get_begin() if e.get_begin() is not None else Fraction(0)
      prove(gb == n.begin - pb, f"begin[{nid}]==offset-from-parent-begin")
      what = "explicit-end" if (n.d is not None or n.e is not None) else f"implicit-end-of-{n.tc}"
      if n.end is None:
        prove(e.get_end() is None, f"{what}[{nid}]-indefinite")
      elif e.get_end() is None:
        prove(False, f"{what}[{nid}]==TTML-active-end", note="the model has no end")
      else:
        prove(e.get_end() == n.end - pb, f"{what}[{nid}]==TTML-active-end")
      steps = list(e.iter_animation_steps())
      sets = [s for s in n.sets if s.anim is not None]
      prove(len(steps) == len(sets), f"animation-steps[{nid}]")
      for stp, s in zip(steps, sets):
        sb = stp.begin if stp.begin is not None else Fraction(0)
        prove(sb == s.begin - n.begin, f"set[{s.id}]-begin-relative-to-the-animated-element")
        if s.end is None:
          prove(stp.end is None, f"set[{s.id}]-end-indefinite")
        elif stp.end is None:
          prove(False, f"set[{s.id}]-end-relative-to-the-animated-element", note="the step has no end")
        else:
          prove(stp.end == s.end - n.begin, f"set[{s.id}]-end-relative-to-the-animated-element")

  return Harness(f"process[{name}]", run,
                 ["ttconv.imsc.elements:ContentElement.ParsingContext.process", "ttconv.imsc.elements:ContentElement.from_xml",
                  "ttconv.imsc.elements:TTElement.from_xml", "ttconv.imsc.reader:to_model"],
                 "replayers.c04:shape", {"shape": name},
                 "begin / end offsets stored by the reader == TTML2 par/seq resolution for all rational begin/dur/end values (this shape)")


def all_harnesses(tier):
  return [harness_for(k, v) for k, v in shapes().items()] + [syntax_harness(k) for k in SYNTAXES]


def check(tier, seed, only=None, skip_a=False, skip_b=False):
  from pyvc import loader
  cov, findings, undecided, errors = ({}, [], [], [])
  if not skip_a:
    hs = all_harnesses(tier)
    if only:
      hs = [h for h in hs if only in h.name]
    for h in hs:
      h.budget_s = 60.0 if tier == "quick" else 300.0
    if hs:
      cov, findings, undecided, errors = framework.run_tier_a(PROP, hs)
  fns = list(cov.get("functions_under_contract", []))
  for fn in FUNCTIONS:
    try:
      loc = loader.locate(fn)
      if loc not in fns:
        fns.append(loc)
    except Exception as e:  # pylint: disable=broad-except
      undecided.append(f"obligation={fn} reason=function-not-found:{e}")
  cov["functions_under_contract"] = fns
  if not skip_b:
    data, errs = framework.run_tier_b("c04", tier, seed)
    errors += errs
    if data:
      findings += framework.findings_from_rtc(data)
      for k in ("evaluations", "distinct_nontrivial", "rule", "bounded_scope", "per_contract"):
        cov[k] = data.get(k)
      cov["bounded_exhaustive"] = data.get("exhaustive")
      cov["bounded_samples"] = data.get("samples", [])[:8]
      if not data.get("evaluations"):
        errors.append("no contract was evaluated")
  cov["explanation"] = ("Proof tier (all rational begin/dur/end values, listed shapes, extractors abstracted): the offsets the reader stores "
                        "equal TTML2 par/seq resolution.  Bounded tier: to_model + ISD.from_model against an XML-level TTML2/IMSC 1.1 interpreter "
                        "over generated documents x all boundaries and midpoints (text per region, eight computed style properties and xml:lang per "
                        "run), a value catalogue through the model getters, and one-attribute corruptions (no exception, meaning unchanged, logged).  "
                        "Not decided: arbitrary nesting and everything about strings (time-expression and value syntax) is bounded-tier only; "
                        "style properties other than the eight compared ones are checked as specified values only (value catalogue), not as computed.")
  cov["trusted_base"] = ASSUMPTIONS
  return framework.Outcome(PROP, tier, seed, "other", cov, ASSUMPTIONS, findings, undecided, errors, 0.0)


# ---------------------------------------------------------------------------------------------------------------------
# time expressions in every syntax, read by the REAL extractors (parse_time_expression behind its regular expressions)

TT = "http://www.w3.org/ns/ttml"
TTP = "http://www.w3.org/ns/ttml#parameter"

# syntax -> (parameters on tt, frame rate used below | None, tick rate | None)
SYNTAXES = {
  "clock-time.fraction": ({}, None, None),
  "clock-time:frames@30": ({"frameRate": "30"}, Fraction(30), None),
  "clock-time:frames@30*1000/1001": ({"frameRate": "30", "frameRateMultiplier": "1000 1001"}, Fraction(30000, 1001), None),
  "clock-time:frames@25": ({"frameRate": "25"}, Fraction(25), None),
  "offset-h": ({}, None, None), "offset-m": ({}, None, None), "offset-s": ({}, None, None), "offset-ms": ({}, None, None),
  "offset-f@24": ({"frameRate": "24"}, Fraction(24), None), "offset-f@24*1000/1001": ({"frameRate": "24", "frameRateMultiplier": "1000 1001"}, Fraction(24000, 1001), None),
  "offset-t@1000": ({"tickRate": "1000"}, None, 1000), "offset-t@90000": ({"tickRate": "90000"}, None, 90000),
  "offset-s.fraction": ({}, None, None), "offset-f.fraction@25": ({"frameRate": "25"}, Fraction(25), None),
}


def syntax_harness(name):
  """The real IMSC reader on <p begin=EXPR end=EXPR2> where the digits of the time expressions are formatted SYMBOLIC integers (format
  tokens) -- every value of every field -- with the reader's compiled time-expression patterns wrapped by restub.TokenRegex: the begin
  and end stored in the model are the TTML2 media times of the expressions (Appendix I), as exact rationals."""
  from pyvc import core, restub
  from pyvc.core import assume, prove, sym_int
  from pyvc.harness import Harness
  params, fps, tick = SYNTAXES[name]

  def run(ctx):
    import xml.etree.ElementTree as et
    import ttconv.imsc.utils as U
    import ttconv.imsc.reader as reader
    import ttconv.model as m

    def field(n, hi=None):
      x = sym_int(n)
      assume(x >= 0)
      if hi is not None:
        assume(x < hi)
      return x

    def expr(prefix):
      """-> (text with tokens, the media time it denotes)"""
      kind = name.split("@")[0]
      if kind.startswith("clock-time"):
        h, mi, s = field(prefix + "h", 100), field(prefix + "m", 60), field(prefix + "s", 60)
        base = h * 3600 + mi * 60 + s
        if kind == "clock-time.fraction":
          ms = field(prefix + "ms", 1000)
          return f"{h:02d}:{mi:02d}:{s:02d}.{ms:03d}", base + Fraction(1, 1000) * ms
        ff = field(prefix + "ff", int(fps) if fps.denominator == 1 else int(fps) + 1)
        assume(ff < int(params["frameRate"]))
        return f"{h:02d}:{mi:02d}:{s:02d}:{ff:02d}", base + ff / fps
      n = field(prefix + "n")
      metric = kind.split("-")[1].split(".")[0]
      if ".fraction" in kind:
        d = field(prefix + "d", 1000)
        val = n + Fraction(1, 1000) * d
        text = f"{n}.{d:03d}{metric}"
      else:
        val, text = n * Fraction(1), f"{n}{metric}"
      scale = {"h": Fraction(3600), "m": Fraction(60), "s": Fraction(1), "ms": Fraction(1, 1000), "f": None, "t": None}[metric]
      if metric == "f":
        return text, val / fps
      if metric == "t":
        return text, val / tick
      return text, val * scale

    tb, want_b = expr("b_")
    te, want_e = expr("e_")
    root = et.Element(f"{{{TT}}}tt", {"{http://www.w3.org/XML/1998/namespace}lang": "en", **{f"{{{TTP}}}{k}": v for k, v in params.items()}})
    body = et.SubElement(root, f"{{{TT}}}body")
    div = et.SubElement(body, f"{{{TT}}}div")
    p = et.SubElement(div, f"{{{TT}}}p", {"begin": tb, "end": te})
    p.text = "x"
    names = ["_CLOCK_TIME_FRACTION_RE", "_CLOCK_TIME_FRAMES_RE", "_OFFSET_FRAME_RE", "_OFFSET_TICK_RE", "_OFFSET_MS_RE", "_OFFSET_S_RE", "_OFFSET_H_RE", "_OFFSET_M_RE"]
    saved = {n: U.__dict__[n] for n in names}
    for n in names:
      U.__dict__[n] = restub.TokenRegex(getattr(saved[n], "_real", saved[n]))
    try:
      st, doc = core.call_real(reader.to_model, et.ElementTree(root), allowed=())
    finally:
      for n in names:
        U.__dict__[n] = saved[n]
    ps = [e for e in doc.get_body().dfs_iterator() if isinstance(e, m.P)] if doc is not None and doc.get_body() is not None else []
    if not (want_b < want_e):
      return          # an empty or inverted interval: the element may be dropped (decided by the time-container harnesses)
    prove(len(ps) == 1, "the-paragraph-is-read")
    if len(ps) != 1:
      return
    gb, ge = ps[0].get_begin(), ps[0].get_end()
    if gb is None:
      gb = Fraction(0)        # (an absent begin is 0)
    prove(not isinstance(gb, (float, core.SymFloat)), "begin-is-an-exact-rational")
    prove(gb == want_b, "begin==TTML-media-time-of-the-expression", note=f"{tb}")
    prove(ge is not None and ge == want_e, "end==TTML-media-time-of-the-expression", note=f"{te}")

  return Harness(f"time-expression[{name}]", run,
                 ["ttconv.imsc.utils:parse_time_expression", "ttconv.imsc.attributes:BeginAttribute.extract", "ttconv.imsc.attributes:EndAttribute.extract",
                  "ttconv.imsc.attributes:FrameRateAttribute.extract", "ttconv.imsc.attributes:TickRateAttribute.extract", "ttconv.imsc.reader:to_model"],
                 "replayers.c04:time_expression", {"syntax": name},
                 "a time expression of this syntax is read as its TTML2 media time, exactly, for every value of every field")
