"""C18 -- readers and writers fail only in documented ways, on any input.   Level: other (proof tier on stated shapes + bounded).

Proof tier (contracts/c18_proofs.py; pyvc, real code executed symbolically, z3/cvc5): `no exception` as a contract, for ALL values
of the symbols, on a stated list of shapes --
  * a one-cue SRT file / WebVTT file (with and without hours) whose time fields are ANY digit strings the reader's regular expression
    admits (A-RE): the real reader returns a document, ISD.generate_isd_sequence returns, and each of srt (2 configurations), vtt (2)
    and imsc (3 time formats) writes it;
  * two paragraphs with symbolic rational begin/end (sub-millisecond, sub-frame, inverted, touching, overlapping intervals) through
    the same writers;
  * ruby shapes whose parts have their own symbolic begin/end (annotation temporarily inactive): ISD.from_model at a symbolic t,
    significant_times, generate_isd_sequence, SRT and WebVTT writers.
  The writers call ClockTime.from_seconds: checked MODULARLY against its contract (contracts/callee.py), which the three
  ClockTime.from_seconds harnesses of this check discharge for the real body.
  An exception on a feasible path is a failed obligation `raises/<type>` whose counter-model is replayed natively.

What the proof tier cannot reach: termination and exception-freedom of a whole reader over arbitrary text.  The readers are string
processing from the first line on (str.split / splitlines, `re`, html.parser, expat, struct.unpack, codecs, dict and Enum lookups keyed
by input tokens); pyvc has no symbolic strings, no model of `re` beyond digit groups, and no loops with a symbolic trip count.  That
part of the statement is decided by the bounded tier only (labelled bounded, never counted as proved):

Bounded tier (rtc/c18.py), functions under run-time contract through their public entry points:
  readers   ttconv.imsc.reader.to_model (after xml.etree.ElementTree.parse), ttconv.scc.reader.to_model, ttconv.stl.reader.to_model,
            ttconv.srt.reader.to_model, ttconv.vtt.reader.to_model
            contract: terminates within the per-input limit and returns a ContentDocument | returns None after a FATAL log record |
            raises ParseError / ValueError (incl. UnicodeDecodeError) / struct.error -- nothing else
  snapshots ISD.generate_isd_sequence, ISD.from_model at boundary times          contract: no exception
  filter    ttconv.filters.doc.lcd.LCDDocFilter.process (5 configurations)        contract: no exception, and the filtered document can
            again be snapshotted and written
  writers   ttconv.imsc.writer.from_model (8 time_format / fps configurations, incl. serialisation), ttconv.srt.writer.from_model (3),
            ttconv.vtt.writer.from_model (9)                                         contract: no exception
"""
import framework

PROP = "C18"
ASSUMPTIONS = [
  "A-PY/A-SMT as in C12; A-RE: a regular-expression group is abstracted to `any digit string the sub-pattern can spell` (pyvc.restub); proof "
  "tier: rational timings below 2^22 s (file shapes: unbounded digit counts where the pattern allows them)",
  "proof tier: `no exception` is decided by exhaustive exploration of the feasible paths of the real code on the stated shapes (path "
  "feasibility by z3/cvc5); a path whose feasibility stays unknown is explored as if feasible",
  "A-FLOAT: float overflow is not modelled, so `any digit string` in the file shapes is proved for times below 1.7e308 s; times of several "
  "hundred digits are inputs of the bounded tier (DIRECTED), where they exposed two OverflowErrors (repaired)",
  "modular step: ClockTime.from_seconds is replaced at its call sites by its contract (contracts/callee.py); the contract is discharged for "
  "the real body by three harnesses of the same run (exact rational arguments only; float arguments run the real body)",
  "A-STDLIB-RAISES: exceptions raised by the XML parser itself (xml.etree.ElementTree.parse, no ttconv frame on the stack) count as "
  "`XML parse error` whatever their Python type; html.parser, struct, codecs and expat are assumed to terminate",
  "the accepted exception types are exactly ParseError, ValueError (and its subclasses, e.g. UnicodeDecodeError) and struct.error; "
  "RuntimeError, OverflowError, LookupError, NotImplementedError, ZeroDivisionError etc. are failures like the types the statement lists",
  "`logging a fatal message` = at least one record of level CRITICAL on a `ttconv.*` logger during the call",
  "termination is checked as `result within 10 s` (readers) / `30 s` (each later stage) on inputs of at most a few kilobytes; a "
  "time-out is only reported when it happens twice in a row for the same input",
  "text inputs are given as str through io.StringIO (SRT, WebVTT) / as str (SCC), bytes through io.BytesIO (STL), and UTF-8 bytes "
  "through ElementTree.parse (TTML), as tt.py does; undecodable bytes never reach the text readers (UnicodeDecodeError is raised by "
  "the file object, which is an accepted outcome)",
  "writer configurations that the writer itself documents as invalid (frames syntax without fps, HH:MM:SS:FF with a non-integer fps) "
  "are not used; every other documented configuration value is",
  "quick tier: every document goes through every writer and the filter, but with a rotating subset of their configurations "
  "(all configurations are covered over the population); thorough: the same rotation over 500 k inputs",
  "failure keys name <stage>:<format>:<exception type>:<innermost ttconv function outside the model guards>[/<model guard that raised>]; "
  "one defect may be reached at several stages / formats (list it as `*:<type>:<function>`)",
]
FUNCTIONS = ["ttconv.imsc.reader:to_model", "ttconv.scc.reader:to_model", "ttconv.stl.reader:to_model", "ttconv.srt.reader:to_model",
             "ttconv.vtt.reader:to_model", "ttconv.isd:ISD.generate_isd_sequence", "ttconv.isd:ISD.from_model", "ttconv.isd:ISD.significant_times",
             "ttconv.filters.doc.lcd:LCDDocFilter.process", "ttconv.imsc.writer:from_model", "ttconv.srt.writer:from_model",
             "ttconv.vtt.writer:from_model", "ttconv.srt.paragraph:SrtParagraph.to_string", "ttconv.vtt.cue:VttCue.to_string",
             "ttconv.vtt.tokenizer:CueTextTokenizer", "ttconv.scc.line:SccLine.from_str", "ttconv.stl.datafile:DataFile.process_tti_block",
             "ttconv.imsc.elements:ContentElement.ParsingContext.process"]


def check(tier, seed, only=None, skip_a=False, skip_b=False):
  from pyvc import loader
  findings, undecided, errors = [], [], []
  cov = {"functions_under_contract": []}
  for fn in FUNCTIONS:
    try:
      cov["functions_under_contract"].append(loader.locate(fn))
    except Exception as e:  # pylint: disable=broad-except
      undecided.append(f"obligation={fn} reason=function-not-found:{e}")
  if not skip_a:
    from contracts import c18_proofs, callee
    from pyvc import modular
    hs = c18_proofs.all_harnesses(tier)
    if only:
      hs = [h for h in hs if only in h.name]
    for h in hs:
      h.budget_s = 300.0 if tier == "quick" else 1200.0
      h.max_paths = 20000
    cov_a, findings_a, undecided_a, errors_a = framework.run_tier_a(PROP, hs)
    fns = cov["functions_under_contract"]
    for k, v in cov_a.items():
      if k == "functions_under_contract":
        fns += [x for x in v if x not in fns]
      else:
        cov[k] = v
    cov["assumed_callee_contracts"] = callee.assumed("ClockTime.from_seconds")
    findings += findings_a
    undecided += undecided_a
    errors += errors_a
  if not skip_b:
    data, errs = framework.run_tier_b("c18", tier, seed, timeout=5400)
    errors += errs
    if data:
      findings += framework.findings_from_rtc(data)
      for k in ("evaluations", "distinct_nontrivial", "rule", "bounded_scope", "exhaustive", "samples", "per_contract"):
        cov[k] = data.get(k)
      if not data.get("evaluations"):
        errors.append("no contract was evaluated")
      outcomes = (data.get("bounded_scope") or {}).get("reader_outcomes") or {}
      for fmt in ("ttml", "scc", "stl", "srt", "vtt"):
        if not outcomes.get(f"{fmt}:doc"):
          errors.append(f"no {fmt} input produced a document: the later stages were never exercised for this format")
  cov["explanation"] = ("Proved (all digit values of the time fields of a one-cue SRT / WebVTT file; all rational begin/end of two paragraphs; all "
                        "rational timings of ruby parts and all query times): reader -> snapshots -> srt / vtt / imsc writers return without "
                        "exception, ClockTime.from_seconds used through its contract.  Bounded: run-time contract `documented outcome only` on "
                        "the five readers and `no exception` on ISD generation, the LCD filter and the three writers under their configurations, "
                        "on grammar-generated valid files of the five input formats, structure-aware single/double/triple mutations of those and "
                        "of the bundled corpus, and hand-written boundary files; per-input time limit as bounded termination check; every failing "
                        "input is shrunk and replayable.  Arbitrary text is decided by the bounded tier only.")
  cov["trusted_base"] = ASSUMPTIONS
  return framework.Outcome(PROP, tier, seed, "other", cov, ASSUMPTIONS, findings, undecided, errors, 0.0)
