"""C18 -- readers and writers fail only in documented ways, on any input.   Level: other (bounded run-time contracts).

Functions under contract (real code, called through their public entry points, see rtc/c18.py):
  readers   ttconv.imsc.reader.to_model (after xml.etree.ElementTree.parse), ttconv.scc.reader.to_model, ttconv.stl.reader.to_model,
            ttconv.srt.reader.to_model, ttconv.vtt.reader.to_model
            contract: terminates within the per-input limit and returns a ContentDocument | returns None after a FATAL log record |
            raises ParseError / ValueError (incl. UnicodeDecodeError) / struct.error -- nothing else
  snapshots ISD.generate_isd_sequence, ISD.from_model at boundary times          contract: no exception
  filter    ttconv.filters.doc.lcd.LCDDocFilter.process (5 configurations)        contract: no exception, and the filtered document can
            again be snapshotted and written
  writers   ttconv.imsc.writer.from_model (8 time_format / fps configurations, incl. serialisation), ttconv.srt.writer.from_model (3),
            ttconv.vtt.writer.from_model (9)                                         contract: no exception

No proof tier.  Termination and exception-freedom of a whole reader are outside what the symbolic executor (pyvc) can reach: the
readers are string processing from the first line on (str.split / splitlines, `re`, html.parser, expat, struct.unpack, codecs,
dict and Enum lookups keyed by input tokens), pyvc has no symbolic strings, no model of `re`, and no loops with a symbolic trip
count; an "escaping exception type" analysis by name reports RuntimeError/TypeError from every entry point (the model API raises them
on purpose), so it cannot separate defects from guards (DESIGN.md section 6, C18 feasibility note).  The decision here is therefore by
evaluation over generated and mutated inputs, with the stated bound; nothing is counted as proved.  (The two numeric guards that could be
reached symbolically -- SrtParagraph.to_string / VttCue.to_string with rational begin/end -- are exercised by the bounded tier through
TTML intervals of 0, 0.1, 0.4 and 1 ms and through inverted intervals.)
"""
import framework

PROP = "C18"
ASSUMPTIONS = [
  "A-STDLIB-RAISES: exceptions raised by the XML parser itself (xml.etree.ElementTree.parse, no ttconv frame on the stack) count as "
  "`XML parse error` whatever their Python type; html.parser, struct, codecs and expat are assumed to terminate",
  "the accepted exception types are exactly ParseError, ValueError (and its subclasses, e.g. UnicodeDecodeError) and struct.error; "
  "RuntimeError, OverflowError, LookupError, NotImplementedError, ZeroDivisionError etc. are failures like the types the statement lists",
  "`logging a fatal message` = at least one record of level CRITICAL on a `ttconv.*` logger during the call",
  "termination is checked as `result within 10 s` (readers) / `30 s` (each later stage) on inputs of at most a few kilobytes; a "
  "time-out is only reported when it happens twice in a row for the same input",
  "text inputs are given as str through io.StringIO (SRT, WebVTT) / as str (SCC), bytes through io.BytesIO (STL), and UTF-8 bytes "
  "through ElementTree.parse (TTML), as tt.py does; undecodable bytes never reach the text readers (UnicodeDecodeError is raised by "
  "the file object, which is an accepted outcome)",
  "writer configurations that the writer itself documents as invalid (frames syntax without fps, HH:MM:SS:FF with a non-integer fps) "
  "are not used; every other documented configuration value is",
  "quick tier: every document goes through every writer and the filter, but with a rotating subset of their configurations "
  "(all configurations are covered over the population); thorough: the same rotation over 500 k inputs",
  "failure keys name <stage>:<format>:<exception type>:<innermost ttconv function outside the model guards>[/<model guard that raised>]; "
  "one defect may be reached at several stages / formats (list it as `*:<type>:<function>`)",
]
FUNCTIONS = ["ttconv.imsc.reader:to_model", "ttconv.scc.reader:to_model", "ttconv.stl.reader:to_model", "ttconv.srt.reader:to_model",
             "ttconv.vtt.reader:to_model", "ttconv.isd:ISD.generate_isd_sequence", "ttconv.isd:ISD.from_model", "ttconv.isd:ISD.significant_times",
             "ttconv.filters.doc.lcd:LCDDocFilter.process", "ttconv.imsc.writer:from_model", "ttconv.srt.writer:from_model",
             "ttconv.vtt.writer:from_model", "ttconv.srt.paragraph:SrtParagraph.to_string", "ttconv.vtt.cue:VttCue.to_string",
             "ttconv.vtt.tokenizer:CueTextTokenizer", "ttconv.scc.line:SccLine.from_str", "ttconv.stl.datafile:DataFile.process_tti_block",
             "ttconv.imsc.elements:ContentElement.ParsingContext.process"]


def check(tier, seed, only=None, skip_a=False, skip_b=False):
  from pyvc import loader
  findings, undecided, errors = [], [], []
  cov = {"functions_under_contract": []}
  for fn in FUNCTIONS:
    try:
      cov["functions_under_contract"].append(loader.locate(fn))
    except Exception as e:  # pylint: disable=broad-except
      undecided.append(f"obligation={fn} reason=function-not-found:{e}")
  if not skip_b:
    data, errs = framework.run_tier_b("c18", tier, seed, timeout=5400)
    errors += errs
    if data:
      findings = framework.findings_from_rtc(data)
      for k in ("evaluations", "distinct_nontrivial", "rule", "bounded_scope", "exhaustive", "samples", "per_contract"):
        cov[k] = data.get(k)
      if not data.get("evaluations"):
        errors.append("no contract was evaluated")
      outcomes = (data.get("bounded_scope") or {}).get("reader_outcomes") or {}
      for fmt in ("ttml", "scc", "stl", "srt", "vtt"):
        if not outcomes.get(f"{fmt}:doc"):
          errors.append(f"no {fmt} input produced a document: the later stages were never exercised for this format")
  cov["explanation"] = ("Run-time contract `documented outcome only` on the five readers and `no exception` on ISD generation, the LCD filter and the "
                        "three writers under their configurations, evaluated on grammar-generated valid files of the five input formats, on "
                        "structure-aware single/double/triple mutations of those and of the bundled corpus, and on hand-written boundary "
                        "files; per-input time limit as bounded termination check.  Every failing input is shrunk and replayable.  Bounded; "
                        "nothing is proved by SMT (see the module docstring for why no proof tier exists for this property).")
  cov["trusted_base"] = ASSUMPTIONS
  return framework.Outcome(PROP, tier, seed, "exploration", cov, ASSUMPTIONS, findings, undecided, errors, 0.0)
