"""Proof-tier harnesses for the cue-time clause of C10 (SRT) and C11 (WebVTT): the real readers are executed on a file whose
timing line is a placeholder; the compiled regular expression of the reader is replaced by pyvc.restub.StubRegex, so the
named groups are symbolic digit strings ranging over everything the real sub-patterns can spell (A-RE).  Proved for ALL digit
values: begin and end of the paragraph are exactly the printed times, as exact rationals (never a float)."""
from __future__ import annotations

import io
from fractions import Fraction

from pyvc import core, restub
from pyvc.core import prove
from pyvc.harness import Harness

import ttconv.model as model
import ttconv.srt.reader as srt_reader
import ttconv.vtt.reader as vtt_reader

PH = "@@TIMING-LINE@@"


def _first_p(doc):
  for e in doc.get_body().dfs_iterator():
    if isinstance(e, model.P):
      return e
  return None


def _exact(v):
  """the value is an int or a Fraction (symbolic or not), not a float"""
  return bool(core.vc_isinstance(v, (int, Fraction))) and not isinstance(v, (float, core.SymFloat))


def h_srt_times():
  def run(ctx):
    real = srt_reader.__dict__["_TIMECODE_RE"]
    real = getattr(real, "_real", real)
    groups, info = restub.symbolic_groups(real)
    srt_reader.__dict__["_TIMECODE_RE"] = restub.StubRegex(real, {PH: groups})
    try:
      st, doc = core.call_real(srt_reader.to_model, io.StringIO(f"1\n{PH}\nHello\n\n"), allowed=())
    finally:
      srt_reader.__dict__["_TIMECODE_RE"] = real
    p = _first_p(doc)
    prove(p is not None, "one-paragraph-for-the-cue")
    g = {k: v.value for k, v in groups.items()}
    for side in ("begin", "end"):
      want = Fraction(1) * (((g[side + "_h"] * 60 + g[side + "_m"]) * 60 + g[side + "_s"]) * 1000 + g[side + "_ms"]) / 1000
      got = p.get_begin() if side == "begin" else p.get_end()
      prove(_exact(got), f"{side}-is-an-exact-rational(not-a-float)")
      prove(got == want, f"{side}==printed-time")
    prove(info["begin_h"] == (2, 3) and info["end_h"] == (2, 3) and info["begin_ms"] == (3, 3),
          "hour-fields-of-two-or-three-digits;millisecond-fields-of-three", note=str(info))
  return Harness("srt.to_model/cue-times", run, ["ttconv.srt.reader:to_model"], "replayers.reader_times:srt", {},
                 "begin and end are exactly the printed times as rationals, for every value of every time field")


def h_vtt_timestamp(with_hours):
  def run(ctx):
    real = vtt_reader.__dict__["_VTT_TS_RE"]
    real = getattr(real, "_real", real)
    groups, info = restub.symbolic_groups(real, absent=() if with_hours else ("hh",))
    vtt_reader.__dict__["_VTT_TS_RE"] = restub.StubRegex(real, {PH: groups})
    try:
      st, got = core.call_real(vtt_reader.vtt_timestamp_to_secs, PH, allowed=())
    finally:
      vtt_reader.__dict__["_VTT_TS_RE"] = real
    hh = groups["hh"].value if with_hours else 0
    want = Fraction(1) * (((hh * 60 + groups["mm"].value) * 60 + groups["ss"].value) * 1000 + groups["ms"].value) / 1000
    prove(_exact(got), "timestamp-is-an-exact-rational(not-a-float)")
    prove(got == want, "timestamp==printed-time")
    prove(info["hh"][0] >= 2 and info["mm"] == (2, 2) and info["ss"] == (2, 2) and info["ms"] == (3, 3), "field-widths", note=str(info))
  return Harness(f"vtt_timestamp_to_secs[{'hh:mm:ss.ttt' if with_hours else 'mm:ss.ttt'}]", run,
                 ["ttconv.vtt.reader:vtt_timestamp_to_secs"], "replayers.reader_times:vtt", {"with_hours": with_hours},
                 "a WebVTT timestamp converts to exactly the printed time as a rational (hours optional)")


def h_vtt_cue_times():
  def run(ctx):
    real = vtt_reader.__dict__["_VTT_TS_RE"]
    real = getattr(real, "_real", real)
    g1, _ = restub.symbolic_groups(real, prefix="b_")
    g2, _ = restub.symbolic_groups(real, prefix="e_", absent=("hh",))
    vtt_reader.__dict__["_VTT_TS_RE"] = restub.StubRegex(real, {"@@B@@": g1, "@@E@@": g2})
    try:
      st, doc = core.call_real(vtt_reader.to_model, io.StringIO("WEBVTT\n\n@@B@@ --> @@E@@\nHello\n\n"), allowed=())
    finally:
      vtt_reader.__dict__["_VTT_TS_RE"] = real
    p = _first_p(doc)
    prove(p is not None, "one-paragraph-for-the-cue")
    wb = Fraction(1) * (((g1["hh"].value * 60 + g1["mm"].value) * 60 + g1["ss"].value) * 1000 + g1["ms"].value) / 1000
    we = Fraction(1) * ((g2["mm"].value * 60 + g2["ss"].value) * 1000 + g2["ms"].value) / 1000
    prove(_exact(p.get_begin()) and _exact(p.get_end()), "cue-times-are-exact-rationals")
    prove(p.get_begin() == wb, "begin==printed-time")
    prove(p.get_end() == we, "end==printed-time")
  return Harness("vtt.to_model/cue-times", run, ["ttconv.vtt.reader:to_model", "ttconv.vtt.reader:vtt_timestamp_to_secs"],
                 "replayers.reader_times:vtt_cue", {}, "the paragraph of a cue begins and ends exactly at the printed times")


def h_srt_frames(fps):
  """C10 `conversion to frame-based outputs lands on the intended frame`: an SRT cue whose printed times are whole frames at `fps`
  (ANY digits with that property), read by the real reader and written by the real IMSC writer in frames syntax, carries exactly
  those frame counts"""
  from ttconv.imsc.config import IMSCWriterConfiguration, TimeExpressionSyntaxEnum
  import ttconv.imsc.writer as imsc_writer

  def run(ctx):
    real = srt_reader.__dict__["_TIMECODE_RE"]
    real = getattr(real, "_real", real)
    groups, _info = restub.symbolic_groups(real)
    g = {k: v.value for k, v in groups.items()}
    ms = {side: ((g[side + "_h"] * 60 + g[side + "_m"]) * 60 + g[side + "_s"]) * 1000 + g[side + "_ms"] for side in ("begin", "end")}
    k = {}
    for side in ("begin", "end"):
      k[side] = core.sym_int("frames_" + side)
      core.assume(k[side] >= 0)
      core.assume(ms[side] * fps == k[side] * 1000)        # the printed time is exactly k frames
    core.assume(ms["begin"] < ms["end"])
    srt_reader.__dict__["_TIMECODE_RE"] = restub.StubRegex(real, {PH: groups})
    try:
      st, doc = core.call_real(srt_reader.to_model, io.StringIO(f"1\n{PH}\nHello\n\n"), allowed=())
    finally:
      srt_reader.__dict__["_TIMECODE_RE"] = real
    cfg = IMSCWriterConfiguration(time_format=TimeExpressionSyntaxEnum.frames, fps=Fraction(fps))
    st, tree = core.call_real(imsc_writer.from_model, doc, cfg, allowed=())
    ps = [e for e in tree.getroot().iter() if e.tag.endswith("}p")]
    prove(len(ps) == 1, "one-p-element-written")
    for side in ("begin", "end"):
      attr = ps[0].get(side)
      prove(attr is not None, f"{side}-attribute-written")
      lits, toks = core.tokens_in(attr)
      prove(lits == ["", "f"] and len(toks) == 1, f"{side}-is-a-frame-count", note=repr(lits))
      prove(toks[0][0] == k[side], f"written-{side}-frame==intended-frame")
  return Harness(f"srt->imsc(frames@{fps})/intended-frame", run,
                 ["ttconv.srt.reader:to_model", "ttconv.imsc.writer:from_model", "ttconv.imsc.attributes:to_time_format", "ttconv.time_code:SmpteTimeCode.from_seconds"],
                 "replayers.reader_times:srt_frames", {"fps": fps},
                 "an SRT time that is a whole number of frames lands on exactly that frame in a frame-based IMSC output (all digit values)")


def h_writer_reader_roundtrip(fmt, shape, mask):
  """C10 / C11 `reading the writer's own output returns the cues that were written`, for ALL rational timing values of the shape: the
  text the real writer returns (times are format tokens) is given to the real reader in the same symbolic run (its timing pattern
  wrapped by restub.TokenRegex, numbers read from the tokens); the paragraphs read are, in order, the cues written: same begin, same
  end (exact rationals), same text lines"""
  from pyvc import modular
  from contracts import callee
  from specs.isd_shapes import SHAPES
  from specs import cues as C
  from pyvc.core import assume, sym_frac
  import ttconv.srt.writer as srt_writer
  import ttconv.vtt.writer as vtt_writer

  def run(ctx):
    import re as _re
    from rtc import cues_common as CC
    vals = {}

    def v(name):
      if name not in mask:
        return None
      if name not in vals:
        x = sym_frac(name)
        assume(x >= 0)
        assume(x < 2 ** 18)      # below 100 h: an hour field of two digits (a wider value is a separate, unexplored path of the token reader)
        vals[name] = x
      return vals[name]

    doc = SHAPES[shape](v)
    writer, reader, rx = (srt_writer, srt_reader, "_TIMECODE_RE") if fmt == "srt" else (vtt_writer, vtt_reader, "_VTT_TS_RE")
    with modular.contracts(callee.CLOCKTIME):
      st, out = core.call_real(writer.from_model, doc, None, allowed=())
    lits, toks = core.tokens_in(out)
    concrete = lits[0]
    for (_, spec), lit in zip(toks, lits[1:]):
      concrete += ("000" if spec == "03" else "00") + lit
    cues, problems, _ = CC.read_output(fmt, concrete)
    prove(not problems, "written-text-is-grammatical", note=str(problems)[:200])
    fld = "(\\d+|⟦sym\\d+⟧)"
    sep = "," if fmt == "srt" else "\\."
    timing = _re.compile(f"{fld}:{fld}:{fld}{sep}{fld} --> {fld}:{fld}:{fld}{sep}{fld}")
    tl = [mm for mm in (timing.match(ln) for ln in out.split("\n")) if mm]
    prove(len(tl) == len(cues), "every-cue-has-its-timing-line")

    def val(x):
      return core.cur().tokens[int(x[4:-1])][0] if x.startswith("⟦") else int(x)

    def ms(g):
      return ((val(g[0]) * 60 + val(g[1])) * 60 + val(g[2])) * 1000 + val(g[3])

    real = reader.__dict__[rx]
    real = getattr(real, "_real", real)
    reader.__dict__[rx] = restub.TokenRegex(real)
    try:
      st, doc2 = core.call_real(reader.to_model, io.StringIO(out), allowed=())
    finally:
      reader.__dict__[rx] = real
    ps = [e for e in doc2.get_body().dfs_iterator() if isinstance(e, model.P)]
    prove(len(ps) == len(cues), "one-paragraph-per-cue-written", note=f"{len(ps)} paragraphs, {len(cues)} cues")
    for p, mm, c in zip(ps, tl, cues):
      prove(_exact(p.get_begin()) and _exact(p.get_end()), "times-read-are-exact-rationals")
      prove(p.get_begin() * 1000 == ms(mm.groups()[0:4]), "begin-read==begin-written")
      prove(p.get_end() * 1000 == ms(mm.groups()[4:8]), "end-read==end-written")
      lines, cur = [], ""
      for e in p.dfs_iterator():
        if isinstance(e, model.Br):
          lines.append(cur)
          cur = ""
        elif isinstance(e, model.Text):
          cur += e.get_text()
      lines.append(cur)
      prove(C.NL.join(lines) == c["text"], "text-lines-read==text-lines-written", note=f"{lines!r} vs {c['text']!r}")

  return Harness(f"{fmt}.writer->{fmt}.reader[{shape}:{'+'.join(mask)}]", run,
                 [f"ttconv.{fmt}.writer:from_model", f"ttconv.{fmt}.reader:to_model"], "replayers.reader_times:writer_reader", {"fmt": fmt, "shape": shape, "mask": list(mask)},
                 "reading the writer's own output returns the cues that were written (all rational timings below 2^18 s, this shape)")
