"""C16 -- the LCD filter simplifies style and layout but keeps the text timeline.   Level: other (small proof tier + bounded).

Proof tier (pyvc): the real LCDDocFilter.process is executed symbolically on concrete documents (real ttconv.model objects,
specs/lcd_shapes.py) with a symbolic `safe_area`; for ALL integers 0 <= sa <= 30, on every path, the filter must not raise and
every remaining region must end with origin (sa, sa) %, extent (100 - 2 sa, 100 - 2 sa) %, without tts:position and without
animation steps.  For one region given in percent the top edge y and the height h are symbolic rationals as well: for ALL
0 <= y, 0 <= h, y + h <= 100 and each display alignment the resulting alignment obeys A-LCD-ALIGN.  The shapes are a finite,
stated list -- arbitrary documents are the bounded tier.
Bounded tier: rtc/c16.py (generated and directed documents x configurations) against specs/lcd.py and specs/isd.py.
"""
from __future__ import annotations

import builtins
import os

import framework
from pyvc import core, loader
from pyvc.core import assume, prove, sym_int, sym_frac
from pyvc.harness import Harness

# ttconv/filters/doc/__init__.py reads __file__, which the pyvc loader does not define for the modules it loads (see contracts/c19.py)
builtins.__file__ = os.path.join(loader.SRC, "ttconv", "filters", "doc", "__init__.py")
try:
  import ttconv.filters.doc.lcd as LCD
finally:
  del builtins.__file__
import ttconv.style_properties as sp       # noqa: E402
from specs.lcd_shapes import SHAPES, CONFIG   # noqa: E402

PROP = "C16"
SP = sp.StyleProperties
L = sp.LengthType
U = L.Units

ASSUMPTIONS = [
  "A-SPEC: specs/isd.py is my reading of TTML2 time containment, [associate region] and ISD pruning (the text visible at t); "
  "specs/lcd.py is my reading of the property statement and of README.md 'LCD filter configuration'",
  "A-LCD-ALIGN: the statement does not define the 'resulting' display alignment.  Reading used (supported by test_lcd_filter.py): for "
  "horizontal writing modes the anchor edge of the region (top edge for displayAlign before, bottom edge for after, middle or bottom "
  "edge for center) in the upper half of the root container gives `before`, in the lower half `after`; an anchor at 50 % (+-1e-6), "
  "vertical writing modes, positions measured from the bottom/right edge give either -- except that a `before` region whose top edge "
  "is exactly at 50 % lies wholly in the lower half and must give `after`.  Lengths are resolved as TTML2 prescribes "
  "(% and rh/rw of the root container, c by ttp:cellResolution, px by the document's pixel resolution; tts:position overrides "
  "tts:origin, a percentage offset being relative to root extent minus region extent; initial values replace TTML defaults)",
  "'equal timing': an absent begin equals 0, an absent end is indefinite, an end of 0 is not indefinite",
  "'merged': among the regions that remain no two share (begin, end, writing mode before the filter, display alignment after the "
  "filter); every reference goes to a registered region with the timing of the original region, to the original region itself if "
  "it remains; regions that differ only in writing mode may or may not be merged (the filter removes tts:writingMode anyway)",
  "'as configured': a configured color / bg_color / centred alignment leaves no other specified value of that property anywhere "
  "(elements, regions, initial values); without override the specified values of color / backgroundColor / textAlign are unchanged",
  "'hides content': any tts:display=none, tts:visibility=hidden or tts:opacity other than 1 as a style, animation step or initial "
  "value; such documents are excluded from the timeline comparison only",
  "'text visible at t': the multiset of (text node, text with white space collapsed) over all regions of the oracle snapshot at "
  "every element/animation boundary, every midpoint, 0 and last+1 (at most 12 instants per generated document, seeded choice)",
  "snapshots after the filter: a ValueError of ISD.from_model on a ruby with a temporally inactive part is the known finding of C01",
  "background color in snapshots: every p computes the configured bg_color, every other element and region computes it or the "
  "transparent initial value",
  "preserved alignment in snapshots: the textAlign every p computes after the filter equals the value inherited before the filter "
  "from the p, its ancestors, the region it was flowed into and the initial value (textAlign is never animated by the generator)",
  "A-PY / A-SMT for the proof tier; A-FLOAT-STYLE (style arithmetic read over the reals) where lengths are computed",
]
FUNCTIONS = [
  "ttconv.filters.doc.lcd:LCDDocFilter.process", "ttconv.filters.doc.lcd:_replace_regions", "ttconv.filters.doc.lcd:_apply_bg_color",
  "ttconv.filters.doc.lcd:_color_decoder", "ttconv.filters.doc.lcd:_safe_area_decoder",
  "ttconv.filters.remove_animations:RemoveAnimationFilter.process_element",
  "ttconv.filters.supported_style_properties:SupportedStylePropertiesFilter.process_element",
  "ttconv.filters.supported_style_properties:SupportedStylePropertiesFilter.process_initial_values",
  "ttconv.filters.document_filter:DocumentFilter.get_filter_by_name",
]


# ----------------------------------------------------------------------------------------------------------------------
# proof tier: concrete documents, symbolic safe area


def harness_for(shape):
  def run(ctx):
    sa = sym_int("sa")
    assume(sa >= 0)
    assume(sa <= 30)
    doc = SHAPES[shape]()
    n_before = len(list(doc.iter_regions()))
    cfg = LCD.LCDDocFilterConfig(safe_area=sa, **CONFIG.get(shape, {}))
    st, _ = core.call_real(LCD.LCDDocFilter(cfg).process, doc, allowed=())
    prove(st == "ok", "filter-succeeds")
    regs = list(doc.iter_regions())
    prove(0 < len(regs) <= n_before, "regions-remain")
    if shape == "two-regions":
      prove([r.get_id() for r in regs] == ["r1", "r2"], "top-and-bottom-regions-are-not-merged")
      prove((regs[0].get_style(SP.DisplayAlign) is sp.DisplayAlignType.before) & (regs[1].get_style(SP.DisplayAlign) is sp.DisplayAlignType.after),
            "top-region-before,bottom-region-after")
    for reg in regs:
      o, x = reg.get_style(SP.Origin), reg.get_style(SP.Extent)
      prove((o is not None) & (x is not None), f"{reg.get_id()}/origin-and-extent-present")
      if o is None or x is None:
        continue
      prove(core.vc_is(o.x.units, U.pct) & core.vc_is(o.y.units, U.pct) & core.vc_is(x.width.units, U.pct) & core.vc_is(x.height.units, U.pct),
            f"{reg.get_id()}/percent-units")
      prove((o.x.value == sa) & (o.y.value == sa), f"{reg.get_id()}/origin==(sa,sa)")
      prove((x.width.value == 100 - 2 * sa) & (x.height.value == 100 - 2 * sa), f"{reg.get_id()}/extent==100-2sa")
      prove(reg.get_style(SP.Position) is None, f"{reg.get_id()}/no-position")
      prove(len(list(reg.iter_animation_steps())) == 0, f"{reg.get_id()}/no-animation-steps")

  return Harness(f"safe-area[{shape}]@all-safe-areas", run, ["ttconv.filters.doc.lcd:LCDDocFilter.process"],
                 "replayers.c16:safe_area", {"shape": shape},
                 "every region occupies exactly the configured safe area: origin (sa, sa) %, extent (100 - 2 sa) %, for every integer "
                 "0 <= sa <= 30 (this document shape); the filter succeeds, also on regions that use tts:position")


def align_harness(da):
  """the alignment decision for one region with origin/extent in percent, for ALL rational top edges and heights (A-LCD-ALIGN)"""
  from specs import lcd_shapes

  def run(ctx):
    sa = sym_int("sa")
    assume(sa >= 0)
    assume(sa <= 30)
    y, h = sym_frac("y"), sym_frac("h")
    assume(y >= 0)
    assume(h >= 0)
    assume(y + h <= 100)
    doc, (r1,) = lcd_shapes._doc(1)
    r1.set_style(SP.Origin, sp.CoordinateType(x=L(10, U.pct), y=L(y, U.pct)))
    r1.set_style(SP.Extent, sp.ExtentType(height=L(h, U.pct), width=L(80, U.pct)))
    if da is not None:
      r1.set_style(SP.DisplayAlign, da)
    st, _ = core.call_real(LCD.LCDDocFilter(LCD.LCDDocFilterConfig(safe_area=sa)).process, doc, allowed=())
    prove(st == "ok", "filter-succeeds")
    res = r1.get_style(SP.DisplayAlign)
    prove(res in (sp.DisplayAlignType.before, sp.DisplayAlignType.after), "before-or-after")
    if da in (None, sp.DisplayAlignType.before):
      lo = hi = y
    elif da is sp.DisplayAlignType.after:
      lo = hi = y + h
    else:
      lo, hi = y + h / 2, y + h
    if res is sp.DisplayAlignType.before:
      # a region that starts exactly at the middle of the frame lies wholly in the lower half (strict for top-anchored regions)
      prove((lo < 50) if da in (None, sp.DisplayAlignType.before) else (lo <= 50), "before-only-when-anchored-in-the-upper-half")
    else:
      prove(hi >= 50, "after-only-when-anchored-in-the-lower-half")
    o, x = r1.get_style(SP.Origin), r1.get_style(SP.Extent)
    prove((o.x.value == sa) & (o.y.value == sa) & (x.width.value == 100 - 2 * sa) & (x.height.value == 100 - 2 * sa), "safe-area-box")

  return Harness(f"align:wrong-half:{da.value if da else 'default'}@all-percent-regions", run, ["ttconv.filters.doc.lcd:LCDDocFilter.process"],
                 "replayers.c16:align", {"da": da.value if da else None},
                 "resulting display alignment of a region given in percent, for all rational top edges y and heights h (A-LCD-ALIGN): "
                 "before only if its anchor edge is in the upper half, after only if it is in the lower half")


def timeline_harness(shape, mask, cfg_kw):
  """`keeps the text timeline`: on a document shape of specs/isd_shapes.py with SYMBOLIC begin/end offsets and a symbolic query time t, the
  visible text (oracle snapshot specs/isd.py: text and line breaks per region, regions in document order) is the same before and after
  the real LCDDocFilter.process, and the document has no animation step left; the snapshot of the filtered document is also taken
  by the real ISD.from_model without exception"""
  from specs import isd as ISDS
  from specs import isd_shapes
  from ttconv.isd import ISD
  import ttconv.model as model

  def texts(doc, t):
    want, _flags = ISDS.snapshot(doc, t)
    out = []

    def walk(n):
      if n[0] == "Text":
        out.append(n[1])
      elif n[0] == "Br":
        out.append("\n")
      else:
        for c in n[2]:
          walk(c)
    for _rid, node in want.items():
      walk(node)
      out.append("|")
    return [x for x in out if x != ""]

  def run(ctx):
    vals = {}

    def v(name):
      if name not in mask:
        return None
      if name not in vals:
        x = sym_frac(name)
        assume(x >= 0)
        vals[name] = x
      return vals[name]

    t = sym_frac("t")
    assume(t >= 0)
    before = texts(isd_shapes.SHAPES[shape](v), t)
    doc = isd_shapes.SHAPES[shape](v)
    st, _ = core.call_real(LCD.LCDDocFilter(LCD.LCDDocFilterConfig(**cfg_kw)).process, doc, allowed=())
    prove(st == "ok", "filter-succeeds")
    left = [e for e in list(doc.iter_regions()) + (list(doc.get_body().dfs_iterator()) if doc.get_body() is not None else [])
            if not isinstance(e, model.Text) and list(e.iter_animation_steps())]
    prove(not left, "no-animation-step-left")
    after = texts(doc, t)
    prove("".join(before).replace("|", "") == "".join(after).replace("|", ""), "visible-text-at-t-is-the-same-before-and-after",
          note=f"before {before} after {after}")
    core.call_real(ISD.from_model, doc, t, allowed=())
    prove(True, "filtered-document-can-be-snapshotted", kind="raises")

  return Harness(f"timeline[{shape}:{'+'.join(mask)};{','.join(sorted(cfg_kw)) or 'default'}]", run,
                 ["ttconv.filters.doc.lcd:LCDDocFilter.process", "ttconv.filters.doc.lcd:_replace_regions",
                  "ttconv.filters.remove_animations:RemoveAnimationFilter.process_element",
                  "ttconv.filters.supported_style_properties:SupportedStylePropertiesFilter.process_element"],
                 "replayers.c16:timeline", {"shape": shape, "mask": list(mask), "cfg": {k: (list(v.components) if hasattr(v, "components") else v) for k, v in cfg_kw.items()}},
                 "the text visible at any time is the same before and after the filter (all rational timings and query times, this shape)")


# (shapes in which an element selects another region than its ancestors -- `rubyparts`, `regions` -- are left out: that is the listed
# known finding `timeline:conflicting-nested-regions`, covered by the bounded tier)
TIMELINE = [("twop", ("b1", "e1"), {}), ("twop", ("e1", "b2"), {"safe_area": 5, "preserve_text_align": True}),
            ("nested", ("s1b", "s3e"), {"bg_color": sp.NamedColors.black.value, "color": sp.NamedColors.white.value}),
            ("nested", ("pb", "s1e"), {}), ("brset", ("ab", "ae"), {}), ("styled", ("pb", "pe"), {"color": sp.NamedColors.red.value}),
            ("styled", ("ab", "ae"), {"preserve_text_align": True}), ("moving", ("ab", "ae"), {}), ("ruby", ("rub", "rue"), {})]
# two regions that the filter merges exactly when their intervals are EQUAL: any two begins / ends, however close (the filter keys a dict
# by a tuple that holds the interval; pyvc.core.vc_dict compares such keys by value, forking on every symbolic comparison)
TIMELINE += [("tworegions", ("q1b", "q2b"), {}), ("tworegions", ("q1e", "q2e"), {"safe_area": 5}), ("tworegions", ("q1b", "q1e", "q2b", "q2e"), {})]


def all_harnesses():
  return [harness_for(s) for s in SHAPES] + [align_harness(da) for da in (None,) + tuple(sp.DisplayAlignType)] + [timeline_harness(*a) for a in TIMELINE]


def check(tier, seed, only=None, skip_a=False, skip_b=False):
  cov, findings, undecided, errors = ({}, [], [], [])
  if not skip_a:
    hs = all_harnesses()
    if only:
      hs = [h for h in hs if only in h.name]
    for h in hs:
      h.budget_s = 30.0
    cov, findings, undecided, errors = framework.run_tier_a(PROP, hs)
  located = {f["qualname"] for f in cov.get("functions_under_contract", []) if isinstance(f, dict)}
  cov.setdefault("functions_under_contract", [])
  for fn in FUNCTIONS:
    if fn in located:
      continue
    try:
      cov["functions_under_contract"].append(loader.locate(fn))
    except Exception as e:  # pylint: disable=broad-except
      undecided.append(f"obligation={fn} reason=function-not-found:{e}")
  cov["trusted_base"] = ASSUMPTIONS
  cov["explanation"] = (
    "Tier A (proved for every integer safe area 0..30, on the listed concrete document shapes, through the real LCDDocFilter.process): "
    "the filter does not raise, every remaining region ends with origin (sa, sa) % and extent (100-2sa) %, without tts:position and "
    "without animation steps.  Tier B (bounded, not counted as proved): on generated and directed documents x configurations -- no "
    "animation steps, style whitelist and overrides, safe-area box (model and snapshots), merge fingerprints and redirected references, "
    "the alignment rule (A-LCD-ALIGN), text timeline before == after against the independent ISD oracle, configured colours / "
    "alignment in ISD.from_model snapshots, idempotence by deep fingerprint.  Not covered: the decoders of the configuration (C19); "
    "documents produced by the readers rather than by the generator; animation of textAlign.")
  if not skip_b:
    data, errs = framework.run_tier_b("c16", tier, seed, timeout=3000)
    errors += errs
    if data:
      findings += framework.findings_from_rtc(data)
      for k in ("evaluations", "distinct_nontrivial", "rule", "bounded_scope", "per_contract"):
        cov[k] = data.get(k)
      cov["bounded_exhaustive"] = data.get("exhaustive")
      cov["bounded_samples"] = data.get("samples", [])[:8]
  return framework.Outcome(PROP, tier, seed, "other", cov, ASSUMPTIONS, findings, undecided, errors, 0.0)
