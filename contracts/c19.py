"""C19 -- `tt convert` equals the library pipeline, honours options, is deterministic.   Level: other (bounded) + small proof tier.

Proof tier (pyvc, for ALL integers): the integer-valued part of the configuration decoders, reached through the real
ModuleConfiguration.parse:
  * lcd.safe_area: for every int x, parse({"safe_area": x}).safe_area == x iff 0 <= x <= 30, ValueError otherwise;
  * stl_reader.max_row_count: every int is returned unchanged;
  * every boolean key: an integer other than 0/1 is never silently turned into a boolean;
  * the string-valued decoders (text_align, time_format, fps, colours, program_start_tc) reject every integer.
Strings, `re`, enum look-ups, files and processes are outside the symbolic fragment: everything else is the bounded tier
rtc/c19.py (real tt.main in-process and in fresh interpreters, real command line) against specs/ttcli.py.
"""
from __future__ import annotations

import builtins
import os

import framework
from pyvc import core, loader
from pyvc.core import prove, sym_int
from pyvc.harness import Harness

# ttconv/filters/doc/__init__.py reads __file__, which the pyvc loader does not define for the modules it loads: provide it
# through the builtins for the duration of this import only (the module then finds its own directory, as under CPython's loader)
builtins.__file__ = os.path.join(loader.SRC, "ttconv", "filters", "doc", "__init__.py")
try:
  import ttconv.filters.doc.lcd as LCD
finally:
  del builtins.__file__
import ttconv.imsc.config as IMSC          # noqa: E402
import ttconv.scc.config as SCC            # noqa: E402
import ttconv.srt.config as SRT            # noqa: E402
import ttconv.stl.config as STL            # noqa: E402
import ttconv.vtt.config as VTT            # noqa: E402

PROP = "C19"
ASSUMPTIONS = [
  "A-DOC: specs/ttcli.py is my reading of README.md (command line and configuration sections): documented values must be accepted "
  "with their documented meaning, values clearly outside the documented set must be rejected with an error (any exception / non-zero "
  "exit), and where the documentation is open (case variants of enumerated strings, numeric strings, null, 0/1 and \"true\"/\"false\" "
  "for booleans, non-positive max_row_count, fps of 0, separators other than ':' in time codes, logging levels beyond INFO/WARN/ERROR, "
  "unknown keys, unknown filter names) both an error and the obvious reading are accepted",
  "an error is a SystemExit with a non-zero/non-empty code or any other exception escaping tt.main (non-zero exit status of the "
  "command); the kind of exception is not prescribed (the test-suite pins ValueError for unknown extensions)",
  "'no output file' is required for unsupported types and unknown sub-commands only, with an output path that did not exist before",
  "the composition passes the documented default configuration when a section is absent, and no progress callbacks",
  "sections of modules that are not used by a conversion are not judged",
  "ordering of filters is observed with two additional document filters registered by the harness through the public "
  "DocumentFilter subclass mechanism (the library ships a single document filter, lcd)",
  "A-PY / A-SMT for the proof tier (pyvc's model of CPython integers, z3 `unsat` answers); JSON integers are unbounded integers",
  "bounded tier: generated documents of 2-3 subtitles plus 10 test resources, the value tables of rtc/c19.py, 8 (quick) / 16 "
  "(thorough) hash seeds, sequences of 3 (and one of 30) conversions per interpreter",
]
FUNCTIONS = [
  "ttconv.tt:FileTypes.get_file_type", "ttconv.tt:read_config_from_json", "ttconv.tt:convert", "ttconv.tt:main",
  "ttconv.config:ModuleConfiguration.validate", "ttconv.config:ModuleConfiguration.parse", "ttconv.config:ModuleConfiguration.get_field_default",
  "ttconv.imsc.config:parse_time_expression_syntax", "ttconv.imsc.config:IMSCWriterConfiguration.FractionDecoder.__call__",
  "ttconv.scc.config:TextAlignment.from_value", "ttconv.stl.config:_decode_start_tc", "ttconv.stl.config:_decode_max_row_count",
  "ttconv.stl.config:_decode_font_stack", "ttconv.filters.doc.lcd:_safe_area_decoder", "ttconv.filters.doc.lcd:_color_decoder",
  "ttconv.filters.document_filter:DocumentFilter.get_filter_by_name", "ttconv.filters.document_filter:DocumentFilter.__init_subclass__",
]
PARSE = ["ttconv.config:ModuleConfiguration.parse", "ttconv.config:ModuleConfiguration.validate", "ttconv.config:ModuleConfiguration.get_field_default"]
REJECT = (ValueError, TypeError, AttributeError, KeyError)

BOOL_FIELDS = [(STL.STLReaderConfiguration, "stl_reader", "disable_fill_line_gap"), (STL.STLReaderConfiguration, "stl_reader", "disable_line_padding"),
               (SRT.SRTWriterConfiguration, "srt_writer", "text_formatting"), (VTT.VTTWriterConfiguration, "vtt_writer", "line_position"),
               (VTT.VTTWriterConfiguration, "vtt_writer", "text_align"), (VTT.VTTWriterConfiguration, "vtt_writer", "cue_id"),
               (LCD.LCDDocFilterConfig, "lcd", "preserve_text_align")]
STRING_FIELDS = [(SCC.SccReaderConfiguration, "scc_reader", "text_align", "text_align"), (IMSC.IMSCWriterConfiguration, "imsc_writer", "time_format", "time_format"),
                 (IMSC.IMSCWriterConfiguration, "imsc_writer", "fps", "fps"), (LCD.LCDDocFilterConfig, "lcd", "color", "color"),
                 (LCD.LCDDocFilterConfig, "lcd", "bg_color", "color"), (STL.STLReaderConfiguration, "stl_reader", "program_start_tc", None),
                 (STL.STLReaderConfiguration, "stl_reader", "font_stack", None)]


def all_harnesses():
  hs = []

  def safe_area_accept(ctx):
    x = sym_int("x")
    st, cfg = core.call_real(LCD.LCDDocFilterConfig.parse, {"safe_area": x}, allowed=(ValueError,))
    inside = (x >= 0) & (x <= 30)
    prove((~inside) | (st == "ok"), "documented-range-accepted")
    if st == "ok":
      prove(cfg.safe_area == x, "returned-unchanged")

  hs.append(Harness("lcd.safe_area@all-integers", safe_area_accept, PARSE + ["ttconv.filters.doc.lcd:_safe_area_decoder"],
                    "replayers.c19:parse_int", {"module": "lcd", "key": "safe_area"},
                    "configuration parsing accepts the documented values: every integer between 0 and 30, unchanged"))

  def safe_area_reject(ctx):
    x = sym_int("x")
    st, cfg = core.call_real(LCD.LCDDocFilterConfig.parse, {"safe_area": x}, allowed=(ValueError,))
    prove(((x >= 0) & (x <= 30)) | (st == "raise"), "outside-0..30-rejected-with-ValueError")

  # named after the bounded-tier key of the same defect, so that one known-finding glob covers both tiers and nothing else
  hs.append(Harness("lcd.safe_area-out-of-range-accepted@all-integers", safe_area_reject, PARSE + ["ttconv.filters.doc.lcd:_safe_area_decoder"],
                    "replayers.c19:parse_int", {"module": "lcd", "key": "safe_area"},
                    "configuration parsing rejects others with an error: no integer outside 0..30 is accepted as safe_area"))

  def max_row_count(ctx):
    x = sym_int("x")
    st, cfg = core.call_real(STL.STLReaderConfiguration.parse, {"max_row_count": x}, allowed=(ValueError,))
    prove((x < 1) | (st == "ok"), "every-positive-integer-accepted")
    if st == "ok":
      prove(cfg.max_row_count == x, "returned-unchanged")
      prove(core.vc_is(cfg.program_start_tc, None) & (cfg.disable_fill_line_gap == False) & (cfg.disable_line_padding == False),  # noqa: E712
            "other-keys-at-their-defaults")

  hs.append(Harness("stl_reader.max_row_count@all-integers", max_row_count, PARSE + ["ttconv.stl.config:_decode_max_row_count"],
                    "replayers.c19:parse_int", {"module": "stl_reader", "key": "max_row_count"}, "max_row_count: \"MNR\" | integer"))

  for cls, module, key in BOOL_FIELDS:
    def boolean_reject(ctx, cls=cls, key=key):
      x = sym_int("x")
      st, cfg = core.call_real(cls.parse, {key: x}, allowed=REJECT)
      prove((x == 0) | (x == 1) | (st == "raise"), "integer-other-than-0-1-rejected")

    hs.append(Harness(f"bool-field-not-validated@all-integers:{module}.{key}", boolean_reject, PARSE, "replayers.c19:parse_int",
                      {"module": module, "key": key}, f"{module}.{key}: true | false -- no other integer than (leniently) 0/1 is accepted"))

    def boolean_meaning(ctx, cls=cls, key=key):
      x = sym_int("x")
      st, cfg = core.call_real(cls.parse, {key: x}, allowed=REJECT)
      if st == "ok":
        got = getattr(cfg, key)
        prove((x != 0) | (got == False), "0-is-not-true")     # noqa: E712
        prove((x != 1) | (got == True), "1-is-not-false")     # noqa: E712

    hs.append(Harness(f"{module}.{key}-0-1@all-integers", boolean_meaning, PARSE, "replayers.c19:parse_int",
                      {"module": module, "key": key}, f"{module}.{key}: if 0/1 are accepted at all they mean false/true"))

  for cls, module, key, dec in STRING_FIELDS:
    def string(ctx, cls=cls, key=key):
      x = sym_int("x")
      st, cfg = core.call_real(cls.parse, {key: x}, allowed=REJECT)
      prove(st == "raise", "every-integer-rejected")

    hs.append(Harness(f"{module}.{key}-rejects@all-integers", string, PARSE, "replayers.c19:parse_int", {"module": module, "key": key},
                      f"{module}.{key} is documented as a string: no integer is a documented value"))
  return hs


def check(tier, seed, only=None, skip_a=False, skip_b=False):
  cov, findings, undecided, errors = ({}, [], [], [])
  if not skip_a:
    hs = all_harnesses()
    if only:
      hs = [h for h in hs if only in h.name]
    for h in hs:
      h.budget_s = 30.0
    cov, findings, undecided, errors = framework.run_tier_a(PROP, hs)
  located = {f["qualname"] for f in cov.get("functions_under_contract", []) if isinstance(f, dict)}
  cov.setdefault("functions_under_contract", [])
  for fn in FUNCTIONS:
    if fn in located:
      continue
    try:
      cov["functions_under_contract"].append(loader.locate(fn))
    except Exception as e:  # pylint: disable=broad-except
      undecided.append(f"obligation={fn} reason=function-not-found:{e}")
  cov["trusted_base"] = ASSUMPTIONS
  cov["explanation"] = (
    "Tier A (proved for all integers, through the real ModuleConfiguration.parse): safe_area accepted iff 0..30 and returned unchanged; "
    "max_row_count integers unchanged; boolean keys never turn an integer other than 0/1 into a boolean; string-valued keys reject every "
    "integer.  Tier B (bounded, not counted as proved): byte equality of the file written by tt.main with the library composition for "
    "all 15 format pairs x type-selection variants x documented configuration values x filter lists; configuration-file precedence; "
    "document_lang; error status and absence of the output file for unsupported types and unknown sub-commands; accept/reject of every "
    "documented key over value tables; identical bytes in fresh interpreters under 8/16 hash seeds, under all progress/log settings, after "
    "other conversions in the same interpreter, and through `python -m ttconv.tt` / the `tt` script.")
  if not skip_b:
    data, errs = framework.run_tier_b("c19", tier, seed, timeout=3000)
    errors += errs
    if data:
      findings += framework.findings_from_rtc(data)
      for k in ("evaluations", "distinct_nontrivial", "rule", "bounded_scope", "per_contract"):
        cov[k] = data.get(k)
      cov["bounded_exhaustive"] = data.get("exhaustive")
      cov["bounded_samples"] = data.get("samples", [])[:12]
  return framework.Outcome(PROP, tier, seed, "other", cov, ASSUMPTIONS, findings, undecided, errors, 0.0)
