"""C15 -- the canonical model stays a well-formed tree under any sequence of API calls.

Proof tier: representation invariant WF (W1 links/lengths with ghost idx/cnt, W2 acyclicity with ghost rank, W3 one document
per tree, W4 content model, W5 region registry) over a symbolic heap; every structural operation of model.py is executed
symbolically (real source) from an arbitrary WF heap and must re-establish each WF conjunct on normal return (with the ghost
witness given here) and leave the heap unchanged on every raising path.  Induction over the call history is the soundness of
invariants -- that is how "all finite sequences of API calls" is discharged without a bound.
Bounded tier (rtc/c15.py): exhaustive call histories over a small universe against a native WF checker; it also carries the
clauses the proof tier does not reach (ruby sequence patterns, set_doc on subtrees, value validity).
"""
from __future__ import annotations

import z3

import framework
from pyvc import core, heap as H
from pyvc.core import SymBool, assume, prove
from pyvc.harness import Harness
from pyvc.heap import NULL, Ref, IdS, SymRef, SymId

import ttconv.model as model
import ttconv.isd as isd

PROP = "C15"
M = "ttconv.model:"

ELEMENT_CLASSES = [model.Body, model.Div, model.P, model.Span, model.Br, model.Ruby, model.Rb, model.Rt, model.Rp, model.Rbc,
                   model.Rtc, model.Text, model.Region, isd.ISD.Region]
DOC_CLASSES = [model.ContentDocument, isd.ISD]
TABLE = H.ClassTable(ELEMENT_CLASSES + DOC_CLASSES)
CODE = TABLE.code

# The content model of TTML2 / the canonical model documentation (doc/data_model.md), written independently of the guards:
ALLOWED = {
  model.Body: [model.Div], model.Div: [model.P, model.Div], model.P: [model.Span, model.Br, model.Ruby],
  model.Span: [model.Span, model.Br, model.Text], model.Br: [], model.Text: [], model.Region: [],
  model.Ruby: [model.Rb, model.Rt, model.Rp, model.Rbc, model.Rtc], model.Rb: [model.Span], model.Rt: [model.Span],
  model.Rp: [model.Span], model.Rbc: [model.Rb], model.Rtc: [model.Rt, model.Rp], isd.ISD.Region: [model.Body],
}

ASSUMPTIONS = [
  "A-PY/A-SMT as in C12; heap encoding: one SMT array per instance field, immutable kind per object, `is` = reference equality",
  "A-ITER: `x in list(element)` is read as `parent(x) is element`: the contract of ContentElement.__iter__ (its i-th item is the "
  "child with ghost index i, i = 0..count-1) is proved by the `__iter__` harness; the step from that to set membership uses W1 "
  "(index range, injectivity) and is argued in DESIGN 2.3, not machine checked",
  "A-WFREC: in a heap satisfying W2 the function root(x) (follow parent pointers) exists; it is assumed for the pre-state only "
  "and used to name the subtree of a root",
  "values are opaque objects with uninterpreted isinstance / is-constant predicates: value validity is proved for the 31 properties "
  "whose validation is a type test (set_style, put_initial_value, DiscreteAnimationStep); Extent, Origin, Position, LinePadding and "
  "FontFamily (whose validation looks into the value) and add_animation_step are bounded-only",
  "frame rule (syntactic, checked on the AST each run): a method that assigns no field and mutates only through methods under "
  "contract preserves WF (push_children, remove_children, remove, copy_to and the Ruby/Rtc wrappers, as far as W1-W3/W5 go)",
  "Ruby.push_children is proved for children that are individually pushable (detached distinct roots of the same document): only "
  "the four patterns are accepted, pushed in order -- for EVERY list of 0..4 children over Rb, Rt, Rp, Rbc, Rtc, Span (1555 lists) plus the "
  "one-element extensions of the longest valid patterns; Rtc.push_children likewise for every list of 0..5 children over Rt, Rp, Rb, Span "
  "(rtc = rt* | rp rt* rp); longer lists, partial application when a later child is not pushable, and sequence patterns as part of "
  "WF are bounded-only",
]


def _is_kind(kterm, classes):
  return TABLE.kind_in(kterm, classes)


class Ghost:
  def __init__(self, idx, cnt, rank):
    self.idx, self.cnt, self.rank = idx, cnt, rank

  @staticmethod
  def fresh(tag):
    I = z3.IntSort()
    return Ghost(z3.Array(tag + "idx", Ref, I), z3.Array(tag + "cnt", Ref, I), z3.Array(tag + "rank", Ref, I))


def wf(h: H.Heap, g: Ghost):
  """the representation invariant as named conjuncts (each a closed, universally quantified formula)"""
  x = z3.Const("x", Ref)
  S = z3.Select
  par, first, last, nxt, prv, doc, reg = (h.arrays[f] for f in
                                          ("_parent", "_first_child", "_last_child", "_next_sibling", "_previous_sibling", "_doc", "_region"))
  ids, regs = h.arrays["_id"], h.arrays["_regions"]
  kind = h.kind
  nn = lambda t: t != NULL   # noqa: E731
  c = {}

  def fa(name, body, pats):
    c[name] = z3.ForAll([x], z3.Implies(nn(x), body), patterns=pats)

  y = S(nxt, x)
  fa("W1.next", z3.Implies(nn(y), z3.And(S(prv, y) == x, S(par, y) == S(par, x), S(g.idx, y) == S(g.idx, x) + 1)), [S(nxt, x)])
  y = S(prv, x)
  fa("W1.prev", z3.Implies(nn(y), S(nxt, y) == x), [S(prv, x)])
  y = S(first, x)
  fa("W1.first", z3.Implies(nn(y), z3.And(S(par, y) == x, S(prv, y) == NULL, S(g.idx, y) == 0)), [S(first, x)])
  y = S(last, x)
  fa("W1.last", z3.Implies(nn(y), z3.And(S(par, y) == x, S(nxt, y) == NULL, S(g.idx, y) == S(g.cnt, x) - 1)), [S(last, x)])
  p = S(par, x)
  fa("W1.first-of-parent", z3.Implies(z3.And(nn(p), S(prv, x) == NULL), S(first, p) == x), [S(par, x)])
  fa("W1.last-of-parent", z3.Implies(z3.And(nn(p), S(nxt, x) == NULL), S(last, p) == x), [S(par, x)])
  fa("W1.root-has-no-siblings", z3.Implies(p == NULL, z3.And(S(nxt, x) == NULL, S(prv, x) == NULL)), [S(par, x)])
  fa("W1.first-last-agree", z3.And((S(first, x) == NULL) == (S(last, x) == NULL), z3.Implies(S(first, x) == NULL, S(g.cnt, x) == 0),
                                   S(g.cnt, x) >= 0), [S(first, x)], )
  fa("W1.index-range", z3.And(S(g.idx, x) >= 0, z3.Implies(nn(p), S(g.idx, x) < S(g.cnt, p))), [S(par, x)])
  y2 = z3.Const("y", Ref)
  c["W1.index-injective"] = z3.ForAll([x, y2], z3.Implies(z3.And(nn(x), nn(y2), nn(S(par, x)), S(par, x) == S(par, y2),
                                                               S(g.idx, x) == S(g.idx, y2)), x == y2),
                                       patterns=[z3.MultiPattern(S(par, x), S(par, y2))])
  fa("W2.acyclic(rank)", z3.Implies(nn(p), S(g.rank, x) > S(g.rank, p)), [S(par, x)])
  fa("W3.one-document-per-tree", z3.Implies(nn(p), S(doc, x) == S(doc, p)), [S(par, x)])
  allowed = z3.Or(*[z3.And(kind(p) == CODE[pc], _is_kind(kind(x), cs)) if cs else z3.BoolVal(False) for pc, cs in ALLOWED.items()])
  fa("W4.content-model", z3.Implies(nn(p), allowed), [S(par, x)])
  r = S(reg, x)
  fa("W5.region-registered", z3.Implies(nn(r), z3.And(nn(S(doc, x)), S(S(regs, S(doc, x)), S(ids, r)) == r)), [S(reg, x)])
  return c


def typing(h: H.Heap):
  """type invariants of a valid heap (is_valid() of the inputs): kinds of what the reference fields point to"""
  x = z3.Const("x", Ref)
  i = z3.Const("i", IdS)
  S = z3.Select
  kind = h.kind
  el = lambda t: z3.Implies(t != NULL, _is_kind(kind(t), [model.ContentElement]))   # noqa: E731
  out = [z3.ForAll([x], z3.Implies(x != NULL, TABLE.valid_kind(kind(x))), patterns=[kind(x)])]
  for f in ("_parent", "_first_child", "_last_child", "_next_sibling", "_previous_sibling"):
    out.append(z3.ForAll([x], z3.Implies(z3.And(x != NULL, _is_kind(kind(x), [model.ContentElement])), el(S(h.arrays[f], x))),
                         patterns=[S(h.arrays[f], x)]))
  d = S(h.arrays["_doc"], x)
  out.append(z3.ForAll([x], z3.Implies(z3.And(x != NULL, d != NULL), _is_kind(kind(d), DOC_CLASSES)), patterns=[d]))
  r = S(h.arrays["_region"], x)
  out.append(z3.ForAll([x], z3.Implies(z3.And(x != NULL, r != NULL), _is_kind(kind(r), [model.Region])), patterns=[r]))
  rr = S(S(h.arrays["_regions"], x), i)
  out.append(z3.ForAll([x, i], z3.Implies(z3.And(x != NULL, rr != NULL), z3.And(_is_kind(kind(rr), [model.Region]),
                                                                                 S(h.arrays["_id"], rr) == i)), patterns=[rr]))
  return out


def root_axioms(h: H.Heap):
  """A-WFREC: root(x) and depth(x) for the pre-state (functions defined by recursion along the parent pointer)"""
  x = z3.Const("x", Ref)
  root = z3.Function("root0", Ref, Ref)
  depth = z3.Function("depth0", Ref, z3.IntSort())
  p = z3.Select(h.arrays["_parent"], x)
  ax = z3.ForAll([x], z3.Implies(x != NULL, z3.If(p == NULL, z3.And(root(x) == x, depth(x) == 0),
                                                   z3.And(root(x) == root(p), depth(x) == depth(p) + 1, depth(p) >= 0))),
                 patterns=[root(x), depth(x)])
  root.depth = depth
  return root, [ax]


def define_array(name, fn):
  """a fresh Ref -> Int array G with the definitional axiom  forall a. G[a] = fn(a)"""
  a = z3.Const("a", Ref)
  G = z3.Array(name, Ref, z3.IntSort())
  return G, z3.ForAll([a], z3.Select(G, a) == fn(a), patterns=[z3.Select(G, a)])


class Setup:
  """common prologue of a heap harness: arbitrary WF heap, `self` of a concrete class"""

  def __init__(self, ctx, cls, with_root=False):
    """cls: one class (the receiver's class is concrete) or a list of classes that share the implementation under
    contract (the receiver's kind is then symbolic, constrained to that list)"""
    self.h0 = H.Heap.fresh("h0")
    self.g0 = Ghost.fresh("g0")
    ctx.heapctx = H.HeapCtx(self.h0.copy(), TABLE)
    self.ctx = ctx
    classes = list(cls) if isinstance(cls, (list, tuple)) else [cls]
    self.self_ = SymRef(z3.Const("self", Ref), classes[0] if len(classes) == 1 else None)
    ctx.inputs["self"] = self.self_.term
    assume(SymBool(self.self_.term != NULL))
    assume(SymBool(z3.Or(*[self.h0.kind(self.self_.term) == CODE[c] for c in classes])))
    self.pre = wf(self.h0, self.g0)
    ctx.hyps += list(self.pre.values()) + typing(self.h0)
    self.root = None
    if with_root:
      self.root, ax = root_axioms(self.h0)
      ctx.hyps += ax

  def ref(self, name, cls=None):
    r = SymRef(z3.Const(name, Ref), cls)
    self.ctx.inputs[name] = r.term
    if cls is not None:
      assume(SymBool(z3.Implies(r.term != NULL, self.h0.kind(r.term) == CODE[cls])))
    return r

  @property
  def heap(self):
    return self.ctx.heapctx.heap

  def unchanged(self, label="unchanged-on-raise"):
    prove(SymBool(self.heap.same_as(self.h0)), label, kind="frame")

  def post_wf(self, ghost: Ghost, extra_hyps=(), only=None):
    self.ctx.hyps += list(extra_hyps)
    for name, f in wf(self.heap, ghost).items():
      if only is None or any(name.startswith(o) for o in only):
        # each conjunct is proved separately; it is not assumed afterwards (keeps the queries independent)
        self.ctx.prove(f, "WF'/" + name, kind="post", assume_after=False)


EXC = (RuntimeError, ValueError, TypeError, AttributeError, KeyError)
KIND_NAMES = [c.__qualname__ for c in TABLE.classes]


def root_stub(s: "Setup"):
  """contract of ContentElement.root (proved by the `root` harness): returns root0(self), a parentless ancestor-or-self"""
  def stub(ref):
    return SymRef(s.root(ref.term))
  return stub


def h_root(cls):
  from pyvc import loops
  label = _qn(cls)

  def run(ctx):
    s = Setup(ctx, cls, with_root=True)
    S = z3.Select
    me = s.self_.term

    def inv(loc):
      r = loc["root"]
      return SymBool(z3.And(r.term != NULL, s.root(r.term) == s.root(me)))

    spec = loops.LoopSpec(invariant=inv, modifies=["root"], havoc=lambda n, v: SymRef(z3.FreshConst(Ref, "cur")),
                          decreases=lambda loc: core.SymInt(s.root.depth(loc["root"].term)))
    fn = loops.cut(M + "ContentElement.root", {0: spec})
    st, r = core.call_real(fn, s.self_, allowed=())
    prove(SymBool(z3.And(r.term == s.root(me), r.term != NULL, S(s.h0.arrays["_parent"], r.term) == NULL)), "post/returns-the-root")
    s.unchanged("frame/heap-untouched")
  return Harness(f"root[{label}]", run, [M + "ContentElement.root"], None, {},
                 "root() terminates and returns the parentless ancestor-or-self (loop invariant + decreases rank)")


def h_len(cls):
  from pyvc import loops

  def run(ctx):
    s = Setup(ctx, cls)
    S = z3.Select
    me, g0, h0 = s.self_.term, s.g0, s.h0

    def inv(loc):
      ch, cnt = loc["child"], loc["count"]
      c = ch.term if isinstance(ch, SymRef) else NULL
      n = cnt.term if isinstance(cnt, core.SymInt) else z3.IntVal(cnt)
      return SymBool(z3.If(c == NULL, n == S(g0.cnt, me), z3.And(S(h0.arrays["_parent"], c) == me, S(g0.idx, c) == n)))

    def havoc(name, old):
      return SymRef(z3.FreshConst(Ref, "cur")) if name == "child" else core.SymInt(z3.FreshConst(z3.IntSort(), "count"))

    def measure(loc):
      n = loc["count"]
      return core.SymInt(S(g0.cnt, me) - (n.term if isinstance(n, core.SymInt) else z3.IntVal(n)))

    fn = loops.cut(M + "ContentElement.__len__", {0: loops.LoopSpec(inv, ["child", "count"], havoc, measure)})
    st, r = core.call_real(fn, s.self_, allowed=())
    prove(r == core.SymInt(S(g0.cnt, me)), "post/len==ghost-count")
    s.unchanged("frame/heap-untouched")
  return Harness("__len__[ContentElement]", run, [M + "ContentElement.__len__"], None, {},
                 "len(element) terminates and equals the number of linked children (loop invariant over the ghost index)")


def h_iter(cls):
  from pyvc import loops

  def run(ctx):
    s = Setup(ctx, cls)
    S = z3.Select
    me, g0, h0 = s.self_.term, s.g0, s.h0

    def pos(loc):
      i = loc["i"]
      return i.term if isinstance(i, core.SymInt) else z3.IntVal(i)

    def inv(loc):
      c, i = loc["child"].term, pos(loc)
      # before the i-th iteration (0-based) the cursor is the child with index i, or null when i == count
      return SymBool(z3.And(i >= 0, z3.If(c == NULL, i == S(g0.cnt, me), z3.And(S(h0.arrays["_parent"], c) == me, S(g0.idx, c) == i))))

    def on_yield(v, loc):
      i = pos(loc)
      return SymBool(z3.And(v.term != NULL, S(h0.arrays["_parent"], v.term) == me, S(g0.idx, v.term) == i, i < S(g0.cnt, me)))

    spec = loops.LoopSpec(inv, ["child"], lambda n, old: SymRef(z3.FreshConst(Ref, "cur")),
                          lambda loc: core.SymInt(S(g0.cnt, me) - pos(loc)), on_yield=on_yield,
                          ghosts={"i": (0, lambda: core.SymInt(z3.FreshConst(z3.IntSort(), "i")), lambda v: v + 1)})
    fn = loops.cut(M + "ContentElement.__iter__", {0: spec})
    st, r = core.call_real(fn, s.self_, allowed=())
    s.unchanged("frame/heap-untouched")
  return Harness("__iter__[ContentElement]", run, [M + "ContentElement.__iter__"], None, {},
                 "iteration yields, as its i-th item, the child with ghost index i, for i = 0 .. count-1, and then stops: with index range "
                 "and injectivity (W1) the items are exactly the elements whose parent is the receiver, in link order (discharges A-ITER)")


def h_iter_membership():
  """lemma over the contracts: from the proved contract of __iter__ (its i-th item is the child with index i, i < count) and W1,
  the items of list(element) are exactly the elements whose parent is the element -- the reading used for `x in list(self)`"""
  def run(ctx):
    s = Setup(ctx, ELEMENT_CLASSES)
    S = z3.Select
    me, g0, h0 = s.self_.term, s.g0, s.h0
    item = z3.Function("iter_item", z3.IntSort(), Ref)       # the sequence yielded by iter(self)
    i = z3.Int("i")
    x = z3.Const("x", Ref)
    ctx.hyps.append(z3.ForAll([i], z3.Implies(z3.And(i >= 0, i < S(g0.cnt, me)),
                                              z3.And(item(i) != NULL, S(h0.arrays["_parent"], item(i)) == me, S(g0.idx, item(i)) == i)),
                              patterns=[item(i)]))
    ctx.inputs["x"] = x
    assume(SymBool(x != NULL))
    yielded = z3.Exists([i], z3.And(i >= 0, i < S(g0.cnt, me), item(i) == x))
    prove(SymBool(z3.Implies(S(h0.arrays["_parent"], x) == me, z3.And(S(g0.idx, x) >= 0, S(g0.idx, x) < S(g0.cnt, me), item(S(g0.idx, x)) == x))),
          "lemma/every-child-is-yielded(at-its-index)", kind="lemma")
    prove(SymBool(z3.Implies(yielded, S(h0.arrays["_parent"], x) == me)), "lemma/every-item-is-a-child", kind="lemma")
  return Harness("lemma.iter-membership", run, [], None, {},
                 "x in list(element)  <=>  parent(x) is element  (from the __iter__ contract and W1 index range / injectivity)")


def pattern_valid(owner, names):
  """TTML2 content model of ruby containers, as a predicate on the list of child class names (written from the specification:
  ruby = rb rt | rb rp rt rp | rbc rtc rtc?;  rtc = rt* | rp rt* rp)"""
  if owner == "Ruby":
    return names in (["Rb", "Rt"], ["Rb", "Rp", "Rt", "Rp"], ["Rbc", "Rtc"], ["Rbc", "Rtc", "Rtc"])
  if all(n == "Rt" for n in names):
    return True
  if names == ["Rp", "Rp"]:
    return None        # rp rt* rp with no rt: TTML2 is read both ways (the model rejects it); either behaviour is accepted
  return len(names) > 2 and names[0] == "Rp" and names[-1] == "Rp" and all(n == "Rt" for n in names[1:-1])


def h_push_children_rollback(pattern, owner, bad, why):
  """a VALID pattern whose child number `bad` cannot be pushed (it has a parent already / belongs to another document): the call must
  raise and leave the heap exactly as it was -- the children pushed before it are taken out again"""
  names = [c.__name__ for c in pattern]

  def run(ctx):
    s = Setup(ctx, owner, with_root=True)
    ctx.heapctx.stubs[model.ContentElement.root] = root_stub(s)
    S = z3.Select
    me, h0 = s.self_.term, s.h0
    kids = [s.ref(f"c{j}", cls) for j, cls in enumerate(pattern)]
    assume(SymBool(S(h0.arrays["_first_child"], me) == NULL))          # an empty container (otherwise the call is rejected before any push)
    for j, k in enumerate(kids):
      assume(SymBool(z3.And(k.term != NULL, k.term != me, s.root(me) != k.term)))
      for k2 in kids[:j]:
        assume(SymBool(k.term != k2.term))
      if j == bad and why == "has-parent":
        assume(SymBool(z3.And(S(h0.arrays["_parent"], k.term) != NULL, S(h0.arrays["_doc"], k.term) == S(h0.arrays["_doc"], me))))
      elif j == bad:
        assume(SymBool(z3.And(S(h0.arrays["_parent"], k.term) == NULL, S(h0.arrays["_doc"], k.term) != S(h0.arrays["_doc"], me))))
      else:
        assume(SymBool(z3.And(S(h0.arrays["_parent"], k.term) == NULL, S(h0.arrays["_doc"], k.term) == S(h0.arrays["_doc"], me))))
    st, r = core.call_real(s.self_.push_children, list(kids), allowed=EXC)
    prove(st == "raise", "a-list-with-an-unpushable-child-is-rejected")
    s.unchanged("rejected-list-leaves-the-heap-unchanged(no-partial-pattern)")
  return Harness(f"{owner.__name__}.push_children.rollback[{','.join(names)};child{bad}:{why}]", run,
                 [M + owner.__name__ + ".push_children", M + "ContentElement.push_child", M + "ContentElement.remove_child"],
                 "replayers.c15:heap_cex", {"op": "push_children_rollback", "cls": owner.__name__, "kinds": KIND_NAMES, "pattern": names, "bad": bad, "why": why},
                 "a rejected push_children leaves no partial ruby / rtc pattern behind")


def h_ruby_push_children(pattern, owner=None):
  """Ruby.push_children / Rtc.push_children with a list of individually pushable children of the given kinds"""
  owner = owner or model.Ruby
  names = [c.__name__ for c in pattern]
  valid = pattern_valid(owner.__name__, names)

  def run(ctx):
    s = Setup(ctx, owner, with_root=True)
    ctx.heapctx.stubs[model.ContentElement.root] = root_stub(s)
    S = z3.Select
    me, g0, h0 = s.self_.term, s.g0, s.h0
    kids = [s.ref(f"c{j}", cls) for j, cls in enumerate(pattern)]
    # requires: the children are distinct, detached roots of the same document, and the ruby is not below any of them
    for j, k in enumerate(kids):
      assume(SymBool(z3.And(k.term != NULL, k.term != me, S(h0.arrays["_parent"], k.term) == NULL,
                            S(h0.arrays["_doc"], k.term) == S(h0.arrays["_doc"], me), s.root(me) != k.term)))
      for k2 in kids[:j]:
        assume(SymBool(k.term != k2.term))
    st, r = core.call_real(s.self_.push_children, list(kids), allowed=EXC)
    if st == "raise":
      s.unchanged()
      if valid:
        prove(SymBool(S(h0.arrays["_first_child"], me) != NULL), "a-valid-pattern-is-only-rejected-when-the-ruby-has-children")
      return
    prove(valid is not False, "only-a-valid-ruby-pattern-is-accepted")
    if not kids:
      s.unchanged()
      return
    rank1, ax = define_array("rank1", lambda a: z3.If(z3.Or(*[s.root(a) == k.term for k in kids]),
                                                       S(g0.rank, a) + S(g0.rank, me) + 1 - S(g0.rank, s.root(a)), S(g0.rank, a)))
    idx1, cnt1 = g0.idx, g0.cnt
    for j, k in enumerate(kids):
      idx1 = z3.Store(idx1, k.term, z3.IntVal(j))
    cnt1 = z3.Store(cnt1, me, z3.IntVal(len(kids)))
    s.post_wf(Ghost(idx1, cnt1, rank1), [ax])
    h1 = s.heap
    for j, k in enumerate(kids):
      prove(SymBool(z3.And(S(h1.arrays["_parent"], k.term) == me,
                           S(h1.arrays["_next_sibling"], k.term) == (kids[j + 1].term if j + 1 < len(kids) else NULL))),
            f"post/child{j}-in-place")
    prove(SymBool(z3.And(S(h1.arrays["_first_child"], me) == kids[0].term, S(h1.arrays["_last_child"], me) == kids[-1].term)), "post/first-last")
  return Harness(f"{owner.__name__}.push_children[{','.join(names)}]", run, [M + owner.__name__ + ".push_children", M + "ContentElement.push_child"],
                 "replayers.c15:heap_cex", {"op": "push_children", "cls": owner.__name__, "kinds": KIND_NAMES, "pattern": names},
                 "ruby / rtc children are accepted only in the TTML2 patterns, pushed in order, WF preserved; a rejected call changes nothing")


def _ruby_patterns():
  """EVERY sequence of 0..4 children over the five ruby child classes and Span (a class that is never a ruby child), and the
  one-element extensions of the two longest valid patterns: 1 + 6 + 36 + 216 + 1296 + 12 lists, four of them valid"""
  import itertools
  kinds = [model.Rb, model.Rt, model.Rp, model.Rbc, model.Rtc, model.Span]
  out = []
  for n in range(0, 5):
    out += [list(t) for t in itertools.product(kinds, repeat=n)]
  for base in ([model.Rb, model.Rp, model.Rt, model.Rp], [model.Rbc, model.Rtc, model.Rtc, model.Rtc]):
    out += [base + [k] for k in kinds]
  return out


RUBY_PATTERNS = _ruby_patterns()


def _rtc_patterns():
  """EVERY sequence of 0..5 children over Rt, Rp, Rb and Span (1365 lists), and rp rt rt rt rt rp"""
  import itertools
  kinds = [model.Rt, model.Rp, model.Rb, model.Span]
  out = []
  for n in range(0, 6):
    out += [list(t) for t in itertools.product(kinds, repeat=n)]
  out.append([model.Rp, model.Rt, model.Rt, model.Rt, model.Rt, model.Rp])
  return out


RTC_PATTERNS = _rtc_patterns()


def h_push_child(cls):
  def run(ctx):
    s = Setup(ctx, cls, with_root=True)
    ctx.heapctx.stubs[model.ContentElement.root] = root_stub(s)
    child = s.ref("child")
    st, r = core.call_real(s.self_.push_child, child, allowed=EXC)
    if st == "raise":
      s.unchanged()
      return
    S = z3.Select
    g0, me, ch = s.g0, s.self_.term, child.term
    shift = S(g0.rank, me) + 1 - S(g0.rank, ch)
    rank1, ax = define_array("rank1", lambda a: z3.If(s.root(a) == ch, S(g0.rank, a) + shift, S(g0.rank, a)))
    g1 = Ghost(z3.Store(g0.idx, ch, S(g0.cnt, me)), z3.Store(g0.cnt, me, S(g0.cnt, me) + 1), rank1)
    s.post_wf(g1, [ax])
    # functional post-condition: child appended as the last child, nothing else re-linked
    h1 = s.heap
    prove(SymBool(z3.And(S(h1.arrays["_parent"], ch) == me, S(h1.arrays["_last_child"], me) == ch,
                         S(h1.arrays["_next_sibling"], ch) == NULL,
                         S(h1.arrays["_previous_sibling"], ch) == S(s.h0.arrays["_last_child"], me))), "post/appended-last")
    for f in ("_doc", "_region", "_id", "_regions", "_body", "_styles", "_sets", "_begin", "_end"):
      prove(SymBool(h1.arrays[f] == s.h0.arrays[f]), f"frame/{f}-untouched", kind="frame")
  return Harness(f"push_child[{cls.__qualname__}]", run,
                 [M + "ContentElement.push_child"] + ([f"{'ttconv.isd:' if cls is isd.ISD.Region else M}{cls.__qualname__}.push_child"]
                                                      if "push_child" in cls.__dict__ else []),
                 "replayers.c15:heap_cex", {"op": "push_child", "cls": cls.__qualname__, "kinds": KIND_NAMES},
                 "push_child keeps the tree well formed (links, acyclic, one document, content model) or leaves it unchanged")


def _qn(cls):
  return cls.__qualname__ if isinstance(cls, type) else "ContentElement"


def _mod(cls):
  return "ttconv.isd:" if cls is isd.ISD.Region else M


def h_remove_child(cls, label=None):
  label = label or _qn(cls)

  def run(ctx):
    s = Setup(ctx, cls)
    child = s.ref("child")
    st, r = core.call_real(s.self_.remove_child, child, allowed=EXC)
    if st == "raise":
      s.unchanged()
      return
    S = z3.Select
    g0, me, ch = s.g0, s.self_.term, child.term
    par0 = s.h0.arrays["_parent"]
    idx1, ax = define_array("idx1", lambda a: z3.If(z3.And(S(par0, a) == me, S(g0.idx, a) > S(g0.idx, ch)), S(g0.idx, a) - 1,
                                                      z3.If(a == ch, 0, S(g0.idx, a))))
    g1 = Ghost(idx1, z3.Store(g0.cnt, me, S(g0.cnt, me) - 1), g0.rank)
    s.post_wf(g1, [ax])
    h1 = s.heap
    prove(SymBool(z3.And(S(h1.arrays["_parent"], ch) == NULL, S(h1.arrays["_next_sibling"], ch) == NULL,
                         S(h1.arrays["_previous_sibling"], ch) == NULL)), "post/child-detached")
    for f in ("_doc", "_region", "_id", "_regions", "_body", "_styles", "_sets"):
      prove(SymBool(h1.arrays[f] == s.h0.arrays[f]), f"frame/{f}-untouched", kind="frame")
  return Harness(f"remove_child[{label}]", run,
                 [M + "ContentElement.remove_child"] + ([M + label + ".remove_child"] if label in ("Ruby", "Rtc") else []),
                 "replayers.c15:heap_cex", {"op": "remove_child", "cls": label, "kinds": KIND_NAMES},
                 "remove_child unlinks exactly the child and keeps the rest well formed, or leaves the model unchanged")


def h_remove(cls, label=None):
  label = label or _qn(cls)

  def run(ctx):
    s = Setup(ctx, cls)
    # remove() delegates to parent.remove_child(self): executed through the real code of both
    st, r = core.call_real(s.self_.remove, allowed=EXC)
    if st == "raise":
      s.unchanged()
      return
    S = z3.Select
    g0, me = s.g0, s.self_.term
    par0 = s.h0.arrays["_parent"]
    p = S(par0, me)
    idx1, ax = define_array("idx1", lambda a: z3.If(z3.And(p != NULL, S(par0, a) == p, S(g0.idx, a) > S(g0.idx, me)), S(g0.idx, a) - 1,
                                                      z3.If(a == me, 0, S(g0.idx, a))))
    cnt1 = z3.If(p != NULL, z3.Store(g0.cnt, p, S(g0.cnt, p) - 1), g0.cnt)
    s.post_wf(Ghost(idx1, cnt1, g0.rank), [ax])
  return Harness(f"remove[{label}]", run, [M + "ContentElement.remove", M + "ContentElement.remove_child"],
                 "replayers.c15:heap_cex", {"op": "remove", "cls": label, "kinds": KIND_NAMES}, "remove() detaches the element or does nothing")


def h_set_region(cls, label=None):
  label = label or _qn(cls)

  def run(ctx):
    s = Setup(ctx, cls)
    region = s.ref("region")
    st, r = core.call_real(s.self_.set_region, region, allowed=EXC)
    if st == "raise":
      s.unchanged()
      return
    s.post_wf(s.g0, only=["W5"])
    h1 = s.heap
    for f in ("_parent", "_first_child", "_last_child", "_next_sibling", "_previous_sibling", "_doc", "_id", "_regions"):
      prove(SymBool(h1.arrays[f] == s.h0.arrays[f]), f"frame/{f}-untouched", kind="frame")
    if label not in ("Text", "Br"):      # Text/Br never hold a region: their overrides only reject
      prove(SymBool(z3.Select(h1.arrays["_region"], s.self_.term) == region.term), "post/region-set")
  return Harness(f"set_region[{label}]", run,
                 [M + "ContentElement.set_region"] + ([M + label + ".set_region"] if label in ("Br", "Text", "Region") else []),
                 "replayers.c15:heap_cex", {"op": "set_region", "cls": label, "kinds": KIND_NAMES},
                 "a referenced region is the region registered under its id in the element's document")


def h_put_region(cls):
  def run(ctx):
    s = Setup(ctx, cls)
    region = s.ref("region")
    # residual obligation: the id is new or already maps to this very object.  Replacing a different object with the same id
    # goes through remove_region (a traversal of the body tree): bounded tier, with the listed known finding for elements
    # outside the body tree.
    S = z3.Select
    old = S(S(s.h0.arrays["_regions"], s.self_.term), S(s.h0.arrays["_id"], region.term))
    assume(SymBool(z3.Implies(region.term != NULL, z3.Or(old == NULL, old == region.term))))
    st, r = core.call_real(s.self_.put_region, region, allowed=EXC)
    if st == "raise":
      s.unchanged()
      return
    s.post_wf(s.g0, only=["W5"])
  return Harness(f"put_region[{cls.__qualname__}]", run, [M + "ContentDocument.put_region"], "replayers.c15:heap_cex",
                 {"op": "put_region", "cls": cls.__qualname__, "kinds": KIND_NAMES}, "replacing a region keeps every reference pointing at the registered region")


def h_set_body(cls):
  def run(ctx):
    s = Setup(ctx, cls)
    body = s.ref("body")
    st, r = core.call_real(s.self_.set_body, body, allowed=EXC)
    if st == "raise":
      s.unchanged()
      return
    h1 = s.heap
    b = body.term
    prove(SymBool(z3.Select(h1.arrays["_body"], s.self_.term) == b), "post/body-set")
    prove(SymBool(z3.Implies(b != NULL, z3.And(_is_kind(h1.kind(b), [model.Body]), z3.Select(h1.arrays["_parent"], b) == NULL,
                                               z3.Select(h1.arrays["_doc"], b) == s.self_.term))), "post/body-is-a-root-Body-of-this-document")
    for f in ("_parent", "_first_child", "_last_child", "_next_sibling", "_previous_sibling", "_doc", "_id", "_regions", "_region"):
      prove(SymBool(h1.arrays[f] == s.h0.arrays[f]), f"frame/{f}-untouched", kind="frame")
  return Harness(f"set_body[{cls.__qualname__}]", run, [M + "ContentDocument.set_body"], "replayers.c15:heap_cex",
                 {"op": "set_body", "cls": cls.__qualname__, "kinds": KIND_NAMES}, "only a root Body of this document becomes the body; nothing else changes")


# ----------------------------------------------------------------------------------------------------------------------
# value validity and `a rejected set_style / put_initial_value leaves the model unchanged`

import ttconv.style_properties as sp_mod

# independent validity table: property name -> python types / special constants a valid value may be (same table as the
# bounded tier's oracle, rtc/c15.py VALID_TYPES, resolved to class objects here)
VALID_SPEC = {
  "BackgroundColor": ["ColorType"], "Color": ["ColorType"], "Direction": ["DirectionType"], "Disparity": ["LengthType"],
  "Display": ["DisplayType"], "DisplayAlign": ["DisplayAlignType"], "FillLineGap": ["bool"], "FontSize": ["LengthType"],
  "FontStyle": ["FontStyleType"], "FontWeight": ["FontWeightType"], "LineHeight": ["LengthType", "SpecialValues.normal"],
  "LuminanceGain": ["Number"], "MultiRowAlign": ["MultiRowAlignType"], "Opacity": ["Number"], "Overflow": ["OverflowType"],
  "Padding": ["PaddingType"], "RubyAlign": ["RubyAlignType"], "RubyPosition": ["AnnotationPositionType"],
  "RubyReserve": ["RubyReserveType", "SpecialValues.none"], "Shear": ["Number"], "ShowBackground": ["ShowBackgroundType"],
  "TextAlign": ["TextAlignType"], "TextCombine": ["TextCombineType"], "TextDecoration": ["TextDecorationType"],
  "TextEmphasis": ["TextEmphasisType", "SpecialValues.none"], "TextOutline": ["TextOutlineType", "SpecialValues.none"],
  "TextShadow": ["TextShadowType", "SpecialValues.none"], "UnicodeBidi": ["UnicodeBidiType"], "Visibility": ["VisibilityType"],
  "WrapOption": ["WrapOptionType"], "WritingMode": ["WritingModeType"],
}
# Extent, Origin, Position, LinePadding (unit restrictions look into the value) and FontFamily (iterates the value) are bounded-only


def spec_valid(prop_name, vterm):
  import numbers
  alts = []
  for n in VALID_SPEC[prop_name]:
    if n.startswith("SpecialValues."):
      alts.append(H._ISOBJ(vterm, H.key_id(getattr(sp_mod.SpecialValues, n.split(".")[1]))))
    elif n == "bool":
      alts.append(H._ISINST(vterm, H.key_id(bool)))
    elif n == "Number":
      alts.append(H._ISINST(vterm, H.key_id(numbers.Number)))
    else:
      alts.append(H._ISINST(vterm, H.key_id(getattr(sp_mod, n))))
  return z3.And(vterm != H.OBJ_NONE, z3.Or(*alts))


def h_value_op(kind, prop_name, none_value=False):
  """kind: 'set_style' (elements using the base implementation) | 'put_initial_value' (ContentDocument)"""
  prop = getattr(sp_mod.StyleProperties, prop_name)
  field = "_styles" if kind == "set_style" else "_initial_values"

  def run(ctx):
    classes = [c for c in ELEMENT_CLASSES if c.set_style is model.ContentElement.set_style] if kind == "set_style" else model.ContentDocument
    s = Setup(ctx, classes)
    me = s.self_.term
    if none_value:
      value, vterm = None, H.OBJ_NONE
    else:
      vterm = z3.Const("value", H.Obj)
      ctx.inputs["value"] = vterm
      assume(SymBool(vterm != H.OBJ_NONE))
      value = H.SymOpaque(vterm)
    st, r = core.call_real(getattr(s.self_, kind), prop, value, allowed=EXC)
    if st == "raise":
      s.unchanged()
      prove(not none_value, "removing-a-value-is-never-rejected")
      return
    h1, h0 = s.heap, s.h0
    S = z3.Select
    pid = z3.IntVal(H.key_id(prop))
    prove(SymBool(S(S(h1.arrays[field], me), pid) == vterm), "post/value-stored" if not none_value else "post/value-removed")
    if not none_value:
      prove(SymBool(spec_valid(prop_name, vterm)), "post/only-a-valid-value-is-stored",
            note="what the guard tested on this path implies the independent validity table")
    prove(SymBool(h1.arrays[field] == z3.Store(h0.arrays[field], me, z3.Store(S(h0.arrays[field], me), pid, vterm))),
          "frame/only-this-entry-changes", kind="frame")
    for f in h0.arrays:
      if f != field:
        prove(SymBool(h1.arrays[f] == h0.arrays[f]), f"frame/{f}-untouched", kind="frame")

  qn = M + ("ContentElement.set_style" if kind == "set_style" else "ContentDocument.put_initial_value")
  fns = [qn, f"ttconv.style_properties:StyleProperties.{prop_name}.validate"] + ([M + "ContentDocument.remove_initial_value"] if kind != "set_style" else [])
  return Harness(f"{kind}[{prop_name}{',None' if none_value else ''}]", run, fns, None, {},
                 "only a valid value is stored; a rejected call leaves the model unchanged; nothing else changes")


def h_animation_step(prop_name):
  prop = getattr(sp_mod.StyleProperties, prop_name)

  def run(ctx):
    s = Setup(ctx, model.Span)     # only to have a heap context
    vterm = z3.Const("value", H.Obj)
    ctx.inputs["value"] = vterm
    assume(SymBool(vterm != H.OBJ_NONE))
    st, step = core.call_real(model.DiscreteAnimationStep, prop, None, None, H.SymOpaque(vterm), allowed=EXC)
    if st == "ok":
      prove(SymBool(spec_valid(prop_name, vterm)), "post/a-step-only-exists-with-a-valid-value")
  return Harness(f"DiscreteAnimationStep[{prop_name}]", run, [M + "DiscreteAnimationStep.__post_init__"], None, {},
                 "an animation step can only be constructed with a valid value")


def frame_rule_harness():
  """syntactic frame obligations (see ASSUMPTIONS): wrappers assign no field and mutate only through methods under contract"""
  import ast
  import inspect
  from pyvc import loader
  targets = {
    M + "ContentElement.push_children": {"push_child"},
    M + "ContentElement.remove_children": {"remove_child"},
    M + "ContentElement.remove": {"remove_child"},
    M + "Ruby.push_children": {"push_child", "has_children", "remove_child"},      # remove_child: roll-back of a partially applied list
    M + "Ruby.remove_children": {"remove_child"},
    M + "Rtc.push_children": {"push_child", "remove_child"},
    M + "Rtc.remove_children": {"remove_child"},
    M + "ContentElement.copy_to": {"set_begin", "set_end", "set_id", "set_lang", "set_space", "set_style", "add_animation_step",
                                   "get_begin", "get_end", "get_id", "get_lang", "get_space", "iter_styles", "get_style",
                                   "iter_animation_steps"},
  }

  read_only = {"has_children", "first_child", "last_child", "parent", "next_sibling", "previous_sibling", "get_doc", "is_attached",
               "get_region", "get_id", "get_begin", "get_end", "get_lang", "get_space", "get_style", "has_style", "iter_styles",
               "iter_animation_steps", "dfs_iterator", "root",
               "append"}      # list.append on a local list (no model class defines `append`): book-keeping of the roll-back in push_children

  def run(ctx):
    import os
    for qn, allowed in targets.items():
      allowed = set(allowed) | read_only
      info = loader.locate(qn)
      src = open(os.path.join(loader.REPO, info["file"]), encoding="utf-8").read()
      tree = ast.parse(src)
      node = tree
      for part in qn.split(":")[1].split("."):
        node = next(n for n in ast.iter_child_nodes(node) if isinstance(n, (ast.ClassDef, ast.FunctionDef)) and n.name == part)
      stores = [n for n in ast.walk(node) if isinstance(n, ast.Attribute) and isinstance(n.ctx, (ast.Store, ast.Del))]
      calls = {n.func.attr for n in ast.walk(node) if isinstance(n, ast.Call) and isinstance(n.func, ast.Attribute)}
      prove(not stores, f"frame-rule/{qn.split(':')[1]}/assigns-no-field", kind="frame")
      prove(calls <= allowed, f"frame-rule/{qn.split(':')[1]}/mutates-only-through-contracted-methods", kind="frame",
            note=f"calls {sorted(calls)}")
  return Harness("frame-rule", run, list(targets), None, {}, "wrappers preserve WF because the operations they call do")


def implementations(name):
  """the distinct implementations of method `name` among the element classes -> [(label, [classes sharing it])]"""
  groups = {}
  for c in ELEMENT_CLASSES:
    f = getattr(c, name)
    groups.setdefault(getattr(f, "__func__", f), []).append(c)
  out = []
  for f, cs in groups.items():
    out.append((f.__qualname__.rsplit(".", 1)[0] if len(cs) > 1 else cs[0].__qualname__, cs))
  return out


def all_harnesses(tier):
  hs = []
  for cls in ELEMENT_CLASSES:          # every class overrides push_child and reaches the base implementation through super()
    hs.append(h_push_child(cls))
  hs.append(h_root(ELEMENT_CLASSES))
  hs.append(h_len(ELEMENT_CLASSES))
  hs.append(h_iter(ELEMENT_CLASSES))
  hs.append(h_iter_membership())
  for pat in RUBY_PATTERNS:
    hs.append(h_ruby_push_children(pat))
  for pat in RTC_PATTERNS:
    hs.append(h_ruby_push_children(pat, model.Rtc))
  for owner, pats in ((model.Ruby, [[model.Rb, model.Rt], [model.Rb, model.Rp, model.Rt, model.Rp], [model.Rbc, model.Rtc], [model.Rbc, model.Rtc, model.Rtc]]),
                      (model.Rtc, [[model.Rt], [model.Rt, model.Rt], [model.Rp, model.Rt, model.Rp]])):
    for pat in pats:
      for bad in range(len(pat)):
        for why in ("has-parent", "other-document"):
          hs.append(h_push_children_rollback(pat, owner, bad, why))
  for label, cs in implementations("remove_child"):
    hs.append(h_remove_child(cs if len(cs) > 1 else cs[0], label))
  for label, cs in implementations("remove"):
    hs.append(h_remove(cs if len(cs) > 1 else cs[0], label))
  for label, cs in implementations("set_region"):
    hs.append(h_set_region(cs if len(cs) > 1 else cs[0], label))
  for pn in VALID_SPEC:
    hs.append(h_value_op("set_style", pn))
    hs.append(h_value_op("put_initial_value", pn))
    hs.append(h_animation_step(pn))
  hs.append(h_value_op("set_style", "Color", none_value=True))
  hs.append(h_value_op("put_initial_value", "Color", none_value=True))
  hs.append(h_put_region(model.ContentDocument))
  hs.append(h_set_body(model.ContentDocument))
  hs.append(frame_rule_harness())
  return hs


def check(tier, seed, only=None, skip_a=False, skip_b=False):
  hs = all_harnesses(tier)
  if only:
    hs = [h for h in hs if only in h.name]
  for h in hs:
    h.budget_s = 60.0 if tier == "quick" else 300.0
  cov, findings, undecided, errors = ({}, [], [], [])
  if not skip_a:
    cov, findings, undecided, errors = framework.run_tier_a(PROP, hs)
  cov["trusted_base"] = ASSUMPTIONS
  cov["explanation"] = "see contracts/c15.py docstring"
  if not skip_b:
    import os
    if os.path.isfile(os.path.join(framework.VERIF, "rtc", "c15.py")):
      data, errs = framework.run_tier_b("c15", tier, seed)
      errors += errs
      if data:
        findings += framework.findings_from_rtc(data)
        for k in ("evaluations", "distinct_nontrivial", "rule", "bounded_scope"):
          cov[k] = data.get(k)
        cov["bounded_exhaustive"] = data.get("exhaustive")
        cov["bounded_samples"] = data.get("samples", [])[:8]
  return framework.Outcome(PROP, tier, seed, "proof", cov, ASSUMPTIONS, findings, undecided, errors, 0.0)
