"""C14 -- snapshot acceleration and repeated use never change results or the source.  Level: other (proved kernels + bounded).
Proof tier: for the listed shapes, all timing values and all query times: ISD.from_model with the precomputed significant times
renders like ISD.from_model without, and the source document is unchanged.  Bounded tier: generated documents, and random
interleavings of significant_times / from_model / generate_isd_sequence / SRT / VTT / IMSC writers on one document object
(deep fingerprint of the source before/after, repeated calls equal)."""
from contracts.isd_common import generic_check, h_c14

ASSUMPTIONS = [
  "A-PY/A-SMT; rendering equivalence ignores empty regions that paint nothing",
  "interleavings of writer calls and repeatability are relations over call histories: bounded only",
]
check = generic_check("C14", h_c14, "Proved per shape (all timings, all times): cached == uncached snapshot, source unchanged.  Bounded: "
                      "random documents; interleavings of all public entry points on one document object.", ASSUMPTIONS)
