"""Proof tier of C08 -- the TIME clause on concrete word streams, for ALL line time codes.

`Begin and end times are exact frame multiples at 30 fps (':' time codes) or 30000/1001 fps drop-frame (';'), never earlier than
the line's time code and within the transmission window of the word that triggers the change.`

The words of a stream are concrete (a protocol state machine over strings is outside the symbolic fragment, DESIGN section 6); what
is symbolic is the time code label that starts every SCC line: the `re` module inside ttconv.scc.line and ttconv.time_code is
replaced by pyvc.restub.StubReModule, so the named groups of SmpteTimeCode's own patterns are symbolic digit strings (A-RE) --
every valid label hh:mm:ss:ff / hh:mm:ss;ff, any distance between the lines.  The real reader (`scc.reader.to_model`, SccLine.from_str,
SccLine.process, SccContext, SmpteTimeCode.parse / add_frames / from_frames / to_temporal_offset) runs on that file; then for every
paragraph of the document, in document order:

  * text, row order               == the expectation written with the shape (concrete; guards against vacuity and against a change
                                     that moves times between paragraphs),
  * begin / end                   are exact rationals (never float) and equal K / rate for an INTEGER K (exact frame multiple at the
                                     rate selected by the separator),
  * K >= count(label of the line that carries the triggering word)   (never earlier than the line's time code),
  * K - (count(label) + position of the triggering word in its line) in {0, 1}, the same value D for every event of the document
    (`within the transmission window`; the convention of the bounded tier, contracts/c08.py ASSUMPTIONS).

count() is specs/smpte.py (SMPTE 12M counting, drop-frame included), the same oracle C12 is proved against.
Shapes are word streams WITHOUT the situations listed as known findings (doubled control codes, EDM, continued rows): they are the
statement `the current reader is right on these streams for every time code`; streams with doubled codes and EDM are included as
separate harnesses whose failing obligations are the known findings `time:early-after-doubled-code` / `time:edm-one-frame-late`
(listed in known_findings.txt under the harness' name), so a different failure of the same harness is still reported."""
from __future__ import annotations

import re as real_re
from fractions import Fraction

from pyvc import core, modular, restub
from contracts import callee
from pyvc.core import assume, prove
from pyvc.harness import Harness
from specs import smpte

import ttconv.model as model
import ttconv.time_code as T
import ttconv.scc.line as scc_line
import ttconv.scc.reader as scc_reader

NDF_PAT, DF_PAT = T.SmpteTimeCode.SMPTE_TIME_CODE_NDF_PATTERN, T.SmpteTimeCode.SMPTE_TIME_CODE_DF_PATTERN
from specs.scc_shapes import SHAPES, RATES, clauses      # noqa: E402  (shapes and clauses shared with the native replayer)


def _exact(v):
  return bool(core.vc_isinstance(v, (int, Fraction))) and not isinstance(v, (float, core.SymFloat))


def read_with_symbolic_labels(shape, kind):
  """runs the real reader on the shape's lines, each started by a symbolic label; returns (document, [count of each line's label])"""
  rate = RATES[kind]
  pat = NDF_PAT if kind == "ndf" else DF_PAT
  pre = "ndf_" if kind == "ndf" else "df_"
  line_table, tc_table_ndf, tc_table_df, counts, text = {}, {}, {}, [], "Scenarist_SCC V1.0\n\n"
  prev_end = None
  for i, words in enumerate(SHAPES[shape]["lines"]):
    groups, _info = restub.symbolic_groups(real_re.compile(pat), prefix=f"L{i}_")
    h, m, s, f = (groups[pre + x].value for x in "hmsf")
    assume(smpte.valid(h, m, s, f, rate))
    c = smpte.count(h, m, s, f, rate)
    if prev_end is not None:
      assume(c >= prev_end)                  # a line is not sent before the previous one has been sent completely
    prev_end = c + len(words.split())
    counts.append(c)
    ph = f"@@TC{i}@@"
    line = f"{ph}\t{words}"
    line_table[line] = {0: line, 1: ph}
    tc_table_ndf[ph] = groups if kind == "ndf" else None
    tc_table_df[ph] = groups if kind == "df" else None
    text += line + "\n\n"
  saved_line, saved_tc = scc_line.__dict__["re"], T.__dict__["re"]
  scc_line.__dict__["re"] = restub.StubReModule({scc_line.SCC_LINE_PATTERN: line_table})
  T.__dict__["re"] = restub.StubReModule({NDF_PAT: tc_table_ndf, DF_PAT: tc_table_df})
  try:
    with modular.contracts(callee.ADD_FRAMES):
      st, doc = core.call_real(scc_reader.to_model, text, allowed=())
  finally:
    scc_line.__dict__["re"], T.__dict__["re"] = saved_line, saved_tc
  return doc, counts


def stream_time_harness(shape, kind):
  def run(ctx):
    doc, counts = read_with_symbolic_labels(shape, kind)
    for name, cond, note in clauses(shape, kind, doc, counts, model, _exact):
      core.cur().prove(cond, name, "post", note, assume_after=False)      # independent clauses: a failing one must not make the rest vacuous
  return Harness(f"scc.time[{shape}:{kind}]", run,
                 ["ttconv.scc.reader:to_model", "ttconv.scc.line:SccLine.from_str", "ttconv.scc.line:SccLine.process",
                  "ttconv.time_code:SmpteTimeCode.parse", "ttconv.time_code:SmpteTimeCode.add_frames", "ttconv.time_code:SmpteTimeCode.from_frames",
                  "ttconv.time_code:SmpteTimeCode.to_frames", "ttconv.time_code:SmpteTimeCode.to_temporal_offset"],
                 "replayers.c08:times", {"shape": shape, "kind": kind},
                 "begin/end are exact frame multiples, not before the line's time code, within the window of the triggering word (all time codes)")


def cells_to_percentages_harness(kind):
  """`on the same rows`: the step between cell coordinates (rows, columns of the 608 grid) and the percentages the document carries.
  For ALL integers x, y (cells) and the 32 x 15 grid the SCC reader uses: the result is in percent, each component is the integer
  nearest to 100*cells/size (which of the two nearest integers a tie goes to is not judged: the property does not say, and pyvc's
  float model over-approximates the quotient by one rounding error, so `ties to even` is not provable in it), x/columns and y/rows are not exchanged, and distinct rows stay distinct
  and in order (100/15 > 1 per row, so rounding cannot merge two rows)."""
  import ttconv.scc.utils as U
  import ttconv.style_properties as S

  def run(ctx):
    x, y = core.sym_int("x"), core.sym_int("y")
    assume((x >= -64) & (x <= 64) & (y >= -32) & (y <= 32))
    res = model.CellResolutionType(rows=15, columns=32)
    arg = U.get_position_from_offsets(x, y) if kind == "origin" else U.get_extent_from_dimensions(x, y)
    if kind == "origin":
      prove(core.vc_is(arg.x.units, S.LengthType.Units.c) & core.vc_is(arg.y.units, S.LengthType.Units.c), "built-in-cells")
      prove((arg.x.value == x) & (arg.y.value == y), "x-y-not-exchanged-on-construction")
    else:
      prove((arg.width.value == x) & (arg.height.value == y), "width-height-not-exchanged-on-construction")
    st, out = core.call_real(U.convert_cells_to_percentages, arg, res, allowed=())
    prove(st == "ok", "no-exception-on-cell-units")
    a, b = (out.x, out.y) if kind == "origin" else (out.width, out.height)
    prove(core.vc_is(a.units, S.LengthType.Units.pct) & core.vc_is(b.units, S.LengthType.Units.pct), "result-in-percent")
    for nm, got, cells, size in (("columns", a.value, x, 32), ("rows", b.value, y, 15)):
      d = got * size - cells * 100                     # exact integers: got is an int (round), so d is size * rounding error
      prove((2 * d <= size) & (2 * d >= -size), f"{nm}:nearest-integer-to-100*cells/size")
    # order of rows: y and y + 1 never map to the same percentage
    st2, out2 = core.call_real(U.convert_cells_to_percentages,
                               U.get_position_from_offsets(x, y + 1) if kind == "origin" else U.get_extent_from_dimensions(x, y + 1), res, allowed=())
    b2 = out2.y if kind == "origin" else out2.height
    prove(b2.value > b.value, "rows:next-row-strictly-below")

  return Harness(f"scc.cells-to-percent[{kind}]", run,
                 ["ttconv.scc.utils:convert_cells_to_percentages", "ttconv.scc.utils:get_position_from_offsets",
                  "ttconv.scc.utils:get_extent_from_dimensions"],
                 "replayers.c08:cells", {"kind": kind},
                 "on the same rows: cell coordinates -> percentages is the nearest integer per component, x/y kept apart, rows stay distinct and ordered")


PARAGRAPH_ROWS = [((1,), (0,)), ((15,), (31,)), ((7,), (4,)), ((1, 2), (0, 0)), ((2, 1), (3, 8)), ((14, 15), (8, 3)), ((15, 1), (0, 28)),
                  ((3, 9), (12, 12)), ((9, 3), (1, 0)), ((1, 2, 3), (4, 2, 6)), ((13, 15, 14), (6, 4, 2)), ((4, 2, 11), (2, 6, 4))]


def paragraph_box_harness(rows, indents):
  """`on the same rows`: the box of a caption (SccCaptionParagraph.get_origin / get_extent), built through the real
  set_cursor_at / append_text on the rows and indents given (concrete: the row is a dict key and the indent drives string padding and
  slicing, both outside the symbolic fragment -- pyvc answers `unsupported` for a symbolic indent) and EVERY safe-area offset: origin == (smallest indent + safe-area x, smallest row - 1 + safe-area y) in cells,
  extent == (longest line, last row - first row + 1); lines keep the row and indent they were given, in the order of the rows."""
  import ttconv.scc.caption_paragraph as CP
  import ttconv.style_properties as S

  def run(ctx):
    sx, sy = core.sym_int("sx"), core.sym_int("sy")
    assume((sx >= 0) & (sx <= 8) & (sy >= 0) & (sy <= 4))
    ind = list(indents)
    texts = ["ab", "cdefg", "h"][:len(rows)]
    p = CP.SccCaptionParagraph(sx, sy)
    for r, i, t in zip(rows, ind, texts):
      p.set_cursor_at(r, i)
      p.append_text(t)
    o, e = p.get_origin(), p.get_extent()
    lo = min(ind)
    prove(core.vc_is(o.x.units, S.LengthType.Units.c) & core.vc_is(o.y.units, S.LengthType.Units.c), "origin-in-cells")
    prove(o.x.value == lo + sx, "origin-x == smallest indent + safe-area offset")
    prove(o.y.value == min(rows) - 1 + sy, "origin-y == first row - 1 + safe-area offset")
    prove(e.height.value == max(rows) - min(rows) + 1, "extent-height == rows spanned")
    prove(e.width.value == max(len(t) for t in texts), "extent-width == longest line")
    lines = p.get_lines()
    prove(sorted(lines.keys()) == sorted(rows), "one-line-per-row")
    for r, i, t in zip(rows, ind, texts):
      prove((lines[r].get_row() == r) and (lines[r].get_indent() == i), f"row-{r}:line keeps its row and indent")
      prove(lines[r].get_length() == len(t), f"row-{r}:line keeps its text")

  name = ",".join(f"{r}@{i}" for r, i in zip(rows, indents))
  return Harness(f"scc.paragraph-box[{name}]", run,
                 ["ttconv.scc.caption_paragraph:SccCaptionParagraph.get_origin", "ttconv.scc.caption_paragraph:SccCaptionParagraph.get_extent",
                  "ttconv.scc.caption_paragraph:SccCaptionParagraph.set_cursor_at", "ttconv.scc.caption_paragraph:SccCaptionParagraph.append_text",
                  "ttconv.scc.caption_paragraph:SccCaptionParagraph.indent_cursor", "ttconv.scc.caption_paragraph:SccCaptionParagraph.new_caption_line"],
                 "replayers.c08:box", {"rows": list(rows), "indents": list(indents)},
                 "on the same rows: the caption box is the smallest indent / first row plus the safe-area offsets, lines keep row and indent")
