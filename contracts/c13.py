"""C13 -- every snapshot satisfies the documented ISD shape.  Level: other (proved kernels + bounded).
Proof tier: the shape predicates (ownership, no timing / animation / region references, content model, applicable styles all
present and only those, lengths in rh/rw, origin == position, no display none, no empty text / childless span, document
parameters, empty regions only with showBackground always) are evaluated on the snapshot of every path of the symbolic-time
execution of the real ISD.from_model over the listed shapes.  Bounded tier: generated documents, plus white-space handling
against the xml:space oracle."""
from contracts.isd_common import generic_check, h_c13

ASSUMPTIONS = [
  "A-PY/A-SMT; proof tier quantifies over timing values and query time for the listed shapes (styles of the shapes are concrete)",
  "white-space collapsing is compared with specs/isd.py in the bounded tier only",
]
check = generic_check("C13", h_c13, "Proved per shape (all timings, all times): every clause of the documented shape that needs no oracle.  "
                      "Bounded: random documents x all boundary times incl. white-space handling.", ASSUMPTIONS)
