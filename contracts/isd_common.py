"""Shared proof-tier harness factories for the ISD properties C02, C13, C14 (symbolic timing values and query time over the
concrete document shapes of specs/isd_shapes.py; see contracts/c01.py for the idea)."""
from __future__ import annotations

from fractions import Fraction

import framework
from pyvc import core
from pyvc.core import assume, prove, sym_frac
from pyvc.harness import Harness
from specs.isd_shapes import SHAPES, MASKS

from ttconv.isd import ISD

FN = ["ttconv.isd:ISD.from_model", "ttconv.isd:ISD._process_element", "ttconv.isd:ISD._make_absolute"]


def build(shape, mask):
  vals = {}

  def v(name):
    if name not in mask:
      return None
    if name not in vals:
      x = sym_frac(name)
      assume(x >= 0)
      vals[name] = x
    return vals[name]

  doc = SHAPES[shape](v)
  t = sym_frac("t")
  assume(t >= 0)
  return doc, t


def h_c02(shape, mask):
  from rtc import isd_props as P

  def run(ctx):
    doc, t = build(shape, mask)
    st, sig = core.call_real(ISD.significant_times, doc, allowed=())
    offs = list(sig)
    for a, b in zip(offs, offs[1:]):
      prove(a < b, "significant-times-strictly-increasing")
    prev = None
    for s in offs:
      if s <= t:
        prev = s
    st, cur = core.call_real(ISD.from_model, doc, t, allowed=())
    fcur = P.fp_isd(cur, True)
    if prev is None:
      prove(not fcur[0], "nothing-visible-before-the-first-significant-time", note=f"{fcur[0]}")
    else:
      st, ref = core.call_real(ISD.from_model, doc, prev, allowed=())
      prove(P.fp_isd(ref, True) == fcur, "snapshot(t)==snapshot(greatest-significant-time<=t)")

  return Harness(f"sig-times[{shape}:{'+'.join(mask)}]", run, FN + ["ttconv.isd:ISD.significant_times"],
                 "replayers.c02:shape", {"shape": shape, "mask": list(mask)},
                 "significant times strictly increasing and complete: no change of the snapshot between two of them (all rational "
                 "timings and query times, this shape)")


def h_c02_sequence(shape, mask):
  """the generated sequence is exactly the list of snapshots taken at the significant times, in order"""
  from rtc import isd_props as P

  def run(ctx):
    doc, _t = build(shape, mask)
    st, seq = core.call_real(ISD.generate_isd_sequence, doc, allowed=())
    st, sig = core.call_real(ISD.significant_times, doc, allowed=())
    offs = list(sig)
    prove(len(seq) == len(offs), "sequence-has-one-entry-per-significant-time")
    for (ts, isd), o in zip(seq, offs):
      prove(ts == o, "sequence-times==significant-times")
      st, ref = core.call_real(ISD.from_model, doc, o, allowed=())
      prove(P.fp_isd(isd, True) == P.fp_isd(ref, True), "sequence-entry==snapshot-at-that-time")

  return Harness(f"isd-sequence[{shape}:{'+'.join(mask)}]", run, FN + ["ttconv.isd:ISD.generate_isd_sequence", "ttconv.isd:ISD.significant_times"],
                 "replayers.c02:shape", {"shape": shape, "mask": list(mask)},
                 "generate_isd_sequence == snapshots at the significant times (all timing values, this shape)")


def h_c13(shape, mask):
  from rtc import isd_props as P

  def run(ctx):
    doc, t = build(shape, mask)
    st, isd = core.call_real(ISD.from_model, doc, t, allowed=())
    probs, els = P.shape_problems(isd, doc)
    by = {}
    for c, msg in probs:
      by.setdefault(c, []).append(msg)
    for clause in ("ownership", "timing", "animation", "region-ref", "empty-text", "childless-span", "region-bodies", "inapplicable-style",
                   "missing-style", "display-none", "origin-position", "empty-region", "links", "content-model", "document-parameters"):
      prove(clause not in by, "shape/" + clause, note="; ".join(by.get(clause, []))[:200])
    units = sorted(c for c in by if c.startswith("length-units:"))
    prove(not [u for u in units if u != "length-units:Disparity"], "shape/length-units(rh,rw)", note=str(units))
    prove("length-units:Disparity" not in by, "shape/length-units:Disparity", note="tts:disparity is never computed")

  return Harness(f"isd-shape[{shape}:{'+'.join(mask)}]", run, FN + ["ttconv.isd:ISD._compute_styles", "ttconv.isd:ISD.__init__",
                                                                   "ttconv.isd:_process_lwsp", "ttconv.isd:_prune_empty_spans"],
                 "replayers.c13:shape", {"shape": shape, "mask": list(mask)},
                 "every snapshot of this shape, at every time and for all timing values, has the documented ISD shape")


def h_c14(shape, mask):
  from rtc import isd_props as P

  def run(ctx):
    doc, t = build(shape, mask)
    before = P.fp_doc(doc)
    st, sig = core.call_real(ISD.significant_times, doc, allowed=())
    st, a = core.call_real(ISD.from_model, doc, t, allowed=())
    st, b = core.call_real(ISD.from_model, doc, t, sig, allowed=())
    prove(P.fp_isd(a, True) == P.fp_isd(b, True), "cached-snapshot-renders-like-uncached")
    prove(P.fp_doc(doc) == before, "source-document-unchanged")

  return Harness(f"cached[{shape}:{'+'.join(mask)}]", run, FN + ["ttconv.isd:ISD.significant_times", "ttconv.isd:_clone_doc_with_one_region"],
                 "replayers.c14:shape", {"shape": shape, "mask": list(mask)},
                 "snapshot with the precomputed significant times == snapshot without (all timings and times, this shape); source untouched")


def generic_check(prop, factory, explanation, assumptions, level="other", extra_factories=()):
  def check(tier, seed, only=None, skip_a=False, skip_b=False):
    hs = [factory(shape, mask) for shape, masks in MASKS.items() for mask in masks]
    for f2 in extra_factories:
      hs += [f2(shape, mask) for shape, masks in MASKS.items() for mask in masks]
    if only:
      hs = [h for h in hs if only in h.name]
    for h in hs:
      h.budget_s = 120.0 if tier == "quick" else 600.0
    cov, findings, undecided, errors = ({}, [], [], [])
    if not skip_a:
      cov, findings, undecided, errors = framework.run_tier_a(prop, hs)
    cov["trusted_base"] = assumptions
    cov["explanation"] = explanation
    if not skip_b:
      data, errs = framework.run_tier_b("isd_props", tier, seed, extra_args=["--prop", prop])
      errors += errs
      if data:
        findings += framework.findings_from_rtc(data)
        for k in ("evaluations", "distinct_nontrivial", "rule", "bounded_scope"):
          cov[k] = data.get(k)
        cov["bounded_exhaustive"] = data.get("exhaustive")
        cov["bounded_samples"] = data.get("samples", [])[:6]
    return framework.Outcome(prop, tier, seed, level, cov, assumptions, findings, undecided, errors, 0.0)
  return check
