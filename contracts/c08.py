"""C08 -- the SCC reader shows what a CEA-608 decoder displays, when it displays it.   Level: other (bounded tier only).

SCC files generated from the pop-on, roll-up and paint-on protocol grammars are read with the real
`ttconv.scc.reader.to_model(text, config)`; the document is compared at every frame with the displayed memory of an independent
CEA-608 decoder (specs/ref608.py, written from CEA-608 / 47 CFR 15.119) fed the same words.  The decoder state machine of ttconv
(about 1.2 kLOC of string/dict manipulation) is outside the symbolic fragment of pyvc: no proof tier, nothing is counted as proved."""
import framework

PROP = "C08"
ASSUMPTIONS = [
  "A-SPEC: specs/ref608.py and specs/cea608.py are my reading of CEA-608 / 47 CFR 15.119 (written from memory of the standard)",
  "time convention: the document must show the state after a word from frame recv+D on, recv = frame count of the line's time code "
  "(30 fps NDF for ':' labels, 30000/1001 DF for ';') + position of the word in the line, with the same D in {0, 1} for every event of "
  "a document ('at the frame the word is received' or 'one frame after'); the current reader uses D = 1",
  "roll-up and paint-on write into the displayed memory: the document may show the text of the row being written AHEAD of its "
  "reception, from the head of the current burst (the CR / PAC / mode code that opens the row and the words that follow it on the "
  "same SCC line), but never later than D frames after reception; pop-on changes (EOC, EDM) are strict",
  "rows are obtained from the paragraph's region (origin y -> first row for displayAlign before; origin + extent -> last row for "
  "displayAlign after) and its Br-separated lines; columns are not compared; leading and trailing spaces of a row are ignored; "
  "gaps, transparent spaces and mid-row cells are spaces; the style of spaces is ignored",
  "an italics mid-row code may leave the colour unchanged (CEA-608) or turn it white; green may be #00FF00 or #008000; glyphs "
  "without a fixed code point accept the sets of specs/cea608.py; U+00A0 is a space",
  "RUx with a smaller depth may erase the rows that fall out of the window at once or at the next carriage return",
  "parity bits are removed, never checked (an SCC file is a record of the words, not of the line-21 signal)",
  "not generated (decoders differ or the standard is silent): writing beyond column 32 and backspace/extended characters in column "
  "32, roll-up base rows above the depth, identical control pairs separated only by padding or by words of another channel, "
  "characters for channel 1 directly after words of another channel without a channel-1 control pair, DER, FON, text mode, "
  "background attributes, CR outside roll-up",
  "the last caption is compared up to the frame in which the last word takes effect; what the document does afterwards is free",
  "when a stream fails, the comparison is repeated under descriptions of deviation classes (rtc/c08.py HYPOTHESES) only to NAME "
  "the failure (key); a failing stream never passes because of them",
  "PACs for rows 5-11 in roll-up mode are decoded like any other PAC (15-row decoder of CEA-608); the option of 47 CFR 15.119 for "
  "decoders without rows 5-11 (ignore such a PAC) is not accepted because the reader implements rows 5-11 in the other styles",
]
FUNCTIONS = ["ttconv.scc.reader:to_model", "ttconv.scc.line:SccLine.from_str", "ttconv.scc.line:SccLine.process",
             "ttconv.scc.context:SccContext.process_control_code", "ttconv.scc.context:SccContext.process_preamble_address_code",
             "ttconv.scc.context:SccContext.process_mid_row_code", "ttconv.scc.context:SccContext.process_text",
             "ttconv.scc.context:SccContext.backspace", "ttconv.scc.context:SccContext.flip_buffered_to_active_captions",
             "ttconv.scc.context:SccContext.push_active_caption_to_model", "ttconv.scc.context:SccContext.paint_on_active_caption",
             "ttconv.scc.caption_paragraph:SccCaptionParagraph.set_cursor_at", "ttconv.scc.caption_paragraph:SccCaptionParagraph.append_text",
             "ttconv.scc.caption_paragraph:SccCaptionParagraph.indent_cursor", "ttconv.scc.caption_paragraph:SccCaptionParagraph.roll_up",
             "ttconv.scc.caption_paragraph:SccCaptionParagraph.get_last_caption_lines",
             "ttconv.scc.caption_paragraph:SccCaptionParagraph.to_paragraph", "ttconv.scc.caption_paragraph:SccCaptionParagraph.get_origin",
             "ttconv.scc.caption_line:SccCaptionLine.add_text", "ttconv.scc.caption_line:SccCaptionLine.set_cursor",
             "ttconv.scc.caption_text:SccCaptionText.append", "ttconv.scc.caption_text:SccCaptionText.backspace",
             "ttconv.scc.word:SccWord.from_str", "ttconv.time_code:SmpteTimeCode.parse", "ttconv.time_code:SmpteTimeCode.add_frames",
             "ttconv.time_code:SmpteTimeCode.to_temporal_offset"]


def check(tier, seed, only=None, skip_a=False, skip_b=False):
  from pyvc import loader
  findings, undecided, errors = [], [], []
  cov = {"functions_under_contract": []}
  for fn in FUNCTIONS:
    try:
      cov["functions_under_contract"].append(loader.locate(fn))
    except Exception as e:  # pylint: disable=broad-except
      undecided.append(f"obligation={fn} reason=function-not-found:{e}")
  if not skip_b:
    data, errors = framework.run_tier_b("c08", tier, seed)
    if data:
      findings = framework.findings_from_rtc(data)
      for k in ("evaluations", "distinct_nontrivial", "rule", "bounded_scope", "exhaustive", "samples", "per_contract"):
        cov[k] = data.get(k)
  cov["explanation"] = ("Bounded run-time contracts only: generated SCC streams (pop-on, roll-up, paint-on and mixed grammars x text_align "
                        "configuration) are read by the real to_model and compared frame by frame (characters, rows, style runs, change "
                        "times) with an independent CEA-608 decoder.  No symbolic (Tier A) obligations; nothing is counted as proved.")
  cov["trusted_base"] = ASSUMPTIONS
  return framework.Outcome(PROP, tier, seed, "exploration", cov, ASSUMPTIONS, findings, undecided, errors, 0.0)
