"""C08 -- the SCC reader shows what a CEA-608 decoder displays, when it displays it.   Level: other (time clause proved on stated word streams + bounded).

SCC files generated from the pop-on, roll-up and paint-on protocol grammars are read with the real
`ttconv.scc.reader.to_model(text, config)`; the document is compared at every frame with the displayed memory of an independent
CEA-608 decoder (specs/ref608.py, written from CEA-608 / 47 CFR 15.119) fed the same words.  The decoder state machine of ttconv
(about 1.2 kLOC of string/dict manipulation) over ARBITRARY word sequences is outside the symbolic fragment of pyvc: the equivalence with
the reference decoder is bounded only.

Proof tier (contracts/c08_proofs.py): the TIME clause -- begin/end are exact frame multiples at 30 fps (`:`) or 30000/1001 (`;`), never
earlier than the line's time code, within the transmission window of the triggering word -- is proved for ALL time code labels of every
line on a stated list of concrete word streams (pop-on with and without ENM, two rows with padding and channel-2 words, roll-up, paint-on):
the real reader runs with the time code patterns replaced by regex stubs whose digit groups are symbolic (A-RE) and with
SmpteTimeCode.add_frames used through its contract (contracts/callee.py; discharged for the real body by C12's add_frames harnesses in the
same run, its precondition an obligation at every call site).  Two more streams (doubled control codes, EDM) carry the two known time
findings as failing obligations of the proof tier."""
import framework

PROP = "C08"
ASSUMPTIONS = [
  "A-SPEC: specs/ref608.py and specs/cea608.py are my reading of CEA-608 / 47 CFR 15.119 (written from memory of the standard)",
  "time convention: the document must show the state after a word from frame recv+D on, recv = frame count of the line's time code "
  "(30 fps NDF for ':' labels, 30000/1001 DF for ';') + position of the word in the line, with the same D in {0, 1} for every event of "
  "a document ('at the frame the word is received' or 'one frame after'); the current reader uses D = 1",
  "roll-up and paint-on write into the displayed memory: the document may show the text of the row being written AHEAD of its "
  "reception, from the head of the current burst (the CR / PAC / mode code that opens the row and the words that follow it on the "
  "same SCC line), but never later than D frames after reception; pop-on changes (EOC, EDM) are strict",
  "rows are obtained from the paragraph's region (origin y -> first row for displayAlign before; origin + extent -> last row for "
  "displayAlign after) and its Br-separated lines; columns are not compared; leading and trailing spaces of a row are ignored; "
  "gaps, transparent spaces and mid-row cells are spaces; the style of spaces is ignored",
  "an italics mid-row code may leave the colour unchanged (CEA-608) or turn it white; green may be #00FF00 or #008000; glyphs "
  "without a fixed code point accept the sets of specs/cea608.py; U+00A0 is a space",
  "RUx with a smaller depth may erase the rows that fall out of the window at once or at the next carriage return",
  "parity bits are removed, never checked (an SCC file is a record of the words, not of the line-21 signal)",
  "not generated (decoders differ or the standard is silent): writing beyond column 32 and backspace/extended characters in column "
  "32, roll-up base rows above the depth, identical control pairs separated only by padding or by words of another channel, "
  "characters for channel 1 directly after words of another channel without a channel-1 control pair, DER, FON, text mode, "
  "background attributes, CR outside roll-up",
  "the last caption is compared up to the frame in which the last word takes effect; what the document does afterwards is free",
  "when a stream fails, the comparison is repeated under descriptions of deviation classes (rtc/c08.py HYPOTHESES) only to NAME "
  "the failure (key); a failing stream never passes because of them",
  "PACs for rows 5-11 in roll-up mode are decoded like any other PAC (15-row decoder of CEA-608); the option of 47 CFR 15.119 for "
  "decoders without rows 5-11 (ignore such a PAC) is not accepted because the reader implements rows 5-11 in the other styles",
]
FUNCTIONS = ["ttconv.scc.reader:to_model", "ttconv.scc.line:SccLine.from_str", "ttconv.scc.line:SccLine.process",
             "ttconv.scc.context:SccContext.process_control_code", "ttconv.scc.context:SccContext.process_preamble_address_code",
             "ttconv.scc.context:SccContext.process_mid_row_code", "ttconv.scc.context:SccContext.process_text",
             "ttconv.scc.context:SccContext.backspace", "ttconv.scc.context:SccContext.flip_buffered_to_active_captions",
             "ttconv.scc.context:SccContext.push_active_caption_to_model", "ttconv.scc.context:SccContext.paint_on_active_caption",
             "ttconv.scc.caption_paragraph:SccCaptionParagraph.set_cursor_at", "ttconv.scc.caption_paragraph:SccCaptionParagraph.append_text",
             "ttconv.scc.caption_paragraph:SccCaptionParagraph.indent_cursor", "ttconv.scc.caption_paragraph:SccCaptionParagraph.roll_up",
             "ttconv.scc.caption_paragraph:SccCaptionParagraph.get_last_caption_lines",
             "ttconv.scc.caption_paragraph:SccCaptionParagraph.to_paragraph", "ttconv.scc.caption_paragraph:SccCaptionParagraph.get_origin",
             "ttconv.scc.caption_paragraph:SccCaptionParagraph.get_extent", "ttconv.scc.caption_paragraph:SccCaptionParagraph.new_caption_line",
             "ttconv.scc.caption_line:SccCaptionLine.add_text", "ttconv.scc.caption_line:SccCaptionLine.set_cursor",
             "ttconv.scc.caption_text:SccCaptionText.append", "ttconv.scc.caption_text:SccCaptionText.backspace",
             "ttconv.scc.word:SccWord.from_str", "ttconv.time_code:SmpteTimeCode.parse", "ttconv.time_code:SmpteTimeCode.add_frames",
             "ttconv.time_code:SmpteTimeCode.to_temporal_offset", "ttconv.scc.utils:convert_cells_to_percentages",
             "ttconv.scc.utils:get_position_from_offsets", "ttconv.scc.utils:get_extent_from_dimensions"]


def check(tier, seed, only=None, skip_a=False, skip_b=False):
  from pyvc import loader
  findings, undecided, errors = [], [], []
  cov = {"functions_under_contract": []}
  for fn in FUNCTIONS:
    try:
      cov["functions_under_contract"].append(loader.locate(fn))
    except Exception as e:  # pylint: disable=broad-except
      undecided.append(f"obligation={fn} reason=function-not-found:{e}")
  if not skip_a:
    from contracts import c08_proofs
    from contracts.c12 import harnesses_for
    from specs import smpte
    hs = [c08_proofs.stream_time_harness(shape, kind) for shape in c08_proofs.SHAPES for kind in ("ndf", "df")]
    hs += [c08_proofs.cells_to_percentages_harness(kind) for kind in ("origin", "extent")]
    hs += [c08_proofs.paragraph_box_harness(rows, ind) for rows, ind in c08_proofs.PARAGRAPH_ROWS]
    for rn in ("30", "30000/1001"):       # discharge the callee contract SmpteTimeCode.add_frames for the real body
      hs += [h for h in harnesses_for(rn, smpte.RATES[rn]) if h.name.startswith("add_frames@")]
    for h in hs:
      h.budget_s, h.max_paths = 300.0, 2000
    if only:
      hs = [h for h in hs if only in h.name]
    cov_a, f_a, u_a, e_a = framework.run_tier_a(PROP, hs)
    located = {f["qualname"] for f in cov_a.get("functions_under_contract", [])}
    cov_a["functions_under_contract"] = cov_a.get("functions_under_contract", []) + [f for f in cov["functions_under_contract"] if f["qualname"] not in located]
    cov = cov_a
    from contracts import callee
    cov["assumed_callee_contracts"] = callee.assumed("SmpteTimeCode.add_frames")
    findings += f_a
    undecided += u_a
    errors += e_a
  if not skip_b:
    data, errs_b = framework.run_tier_b("c08", tier, seed)
    errors += errs_b
    if data:
      findings += framework.findings_from_rtc(data)
      for k in ("evaluations", "distinct_nontrivial", "rule", "bounded_scope", "exhaustive", "samples", "per_contract"):
        cov[k] = data.get(k)
  cov["explanation"] = ("Tier A (proved, pyvc + z3/cvc5, assumptions A-RE and the add_frames contract): on twelve concrete word streams x {`:`, `;`} the "
                        "real reader runs with symbolic time code labels on every line; begin/end of every paragraph are exact frame multiples, not "
                        "before the line's label, within the window of the triggering word, for ALL valid labels; cell coordinates -> percentages (scc.utils) is the "
                        "nearest integer per component with x/y kept apart and rows distinct and ordered, for all integer cells on the 32 x 15 grid; the box of a caption built through the real set_cursor_at / append_text on twelve "
                        "concrete row/indent layouts is (smallest indent, first row - 1) plus the safe-area offsets for ALL offsets, lines keep row, indent and text.  Tier B: generated SCC streams (pop-on, roll-up, paint-on and mixed grammars x text_align "
                        "configuration) are read by the real to_model and compared frame by frame (characters, rows, style runs, change "
                        "times) with an independent CEA-608 decoder (bounded, not counted as proved).")
  cov["trusted_base"] = ASSUMPTIONS
  return framework.Outcome(PROP, tier, seed, "other", cov, ASSUMPTIONS, findings, undecided, errors, 0.0)
